"""Module-level callables and pass classes used inside the Workflows that C16 ships through pickle/dill.
(They must live in an importable module: dill recreates ``__main__`` objects by value.)"""
from __future__ import annotations


def fewer_ops(c1, c2):
    return c1.num_operations < c2.num_operations


def accept_if_smaller(old, new):
    return new.num_operations <= old.num_operations


def only_multi_qudit(op):
    return op.num_qudits >= 2


def replace_if_shorter(new_circuit, old_op):
    return new_circuit.num_operations <= 3


def make_noop_pass():
    from bqskit.compiler.basepass import BasePass

    class _Local(BasePass):          # deliberately NOT used: local classes are outside the property's quantifier
        async def run(self, circuit, data):
            pass
    return _Local


try:
    from bqskit.compiler.basepass import BasePass as _BasePass

    class NoOpPass(_BasePass):
        """A pass with state: a counter, a label and a nested list."""

        def __init__(self, label='noop', weights=(1, 2, 3)):
            self.label = label
            self.weights = list(weights)
            self.count = 0

        async def run(self, circuit, data):
            self.count += 1

    class RecordKeyPass(_BasePass):
        def __init__(self, key, value):
            self.key = key
            self.value = value

        async def run(self, circuit, data):
            data[self.key] = self.value
except Exception:        # bqskit not importable at module import time (never under ./check)
    NoOpPass = RecordKeyPass = None
