"""Task-program interpreter shared by the TLA+ constants and the simulated runtime.

A *program set* maps a function name to a list of instructions:
  ('submit', fut, fn)      a = get_runtime().submit(body, fn)
  ('map', fut, fn, n)      m = get_runtime().map(body, [fn]*n)
  ('await', fut)           await it (logs AwaitCall before, AwaitReturn after)
  ('next', fut)            one get_runtime().next(fut) call
  ('drain', fut)           next() until every slot was seen
  ('cancel', fut)          get_runtime().cancel(fut)
  ('log',)                 a logging call (travels to the client as a LOG message)
  ('sleep',)               give the processor away once (a scheduling point under the SimKernel, a short sleep on real processes)
  ('ret',)                 return own task id
  ('raise',)               raise RuntimeError('boom-<id>')
Everything runs in ONE process (SimKernel), so the event log and the id tables are plain module globals.
This module must stay importable (Workflow deep-copies passes with dill: classes defined in __main__ would be
re-created by value with private globals and their log would go nowhere).
"""
from __future__ import annotations

import logging
import os

from bqskit.compiler.basepass import BasePass
from bqskit.runtime import get_runtime

LOG = []          # global, totally ordered event log of the current run
IDS = {}          # path -> task id (1-based)
PARENT = {}       # task id -> parent id (0 for roots)
TCOMP = {}        # task id -> compilation id
FUTS = {}         # (path, fut name) -> future id
FUTBOX = {}       # (worker id, mailbox id) -> future id
PROGS = {}        # fn name -> instructions  (current run)
_log = logging.getLogger('verif.prog')


def reset(progs):
    LOG.clear()
    IDS.clear()
    PARENT.clear()
    TCOMP.clear()
    FUTS.clear()
    FUTBOX.clear()
    PROGS.clear()
    PROGS.update(progs)


def tid(path, parent=None):
    if path not in IDS:
        IDS[path] = len(IDS) + 1
        PARENT[IDS[path]] = IDS[parent] if parent is not None else 0
        TCOMP[IDS[path]] = path[0]
    return IDS[path]


def fid(path, name):
    k = (path, name)
    if k not in FUTS:
        FUTS[k] = len(FUTS) + 1
    return FUTS[k]


# ---- real-process mode: every process appends its events to one file, stamped under an exclusive file lock, so
# the stamps form a total order; "cause" events are logged before the message that carries them is sent and
# "effect" events after it was received, hence the stamp order is consistent with causality.
TRACE_DIR = os.environ.get('VERIF_RT_TRACE') or None
_loaded = False


def _load_real():
    """Worker processes of a real runtime learn the programs and the static id tables from the trace directory."""
    global _loaded
    if _loaded or not TRACE_DIR:
        return
    _loaded = True
    import json
    with open(os.path.join(TRACE_DIR, 'static.json')) as f:
        st = json.load(f)
    PROGS.clear()
    PROGS.update({k: [tuple(i) for i in v] for k, v in st['progs'].items()})
    for k, v in st['ids']:
        IDS[_untup(k)] = v
    for k, v in st['parent']:
        PARENT[k] = v
    for k, v in st['tcomp']:
        TCOMP[k] = v
    for (pth, name), v in st['futs']:
        FUTS[(_untup(pth), name)] = v


def _untup(x):
    return tuple(_untup(i) for i in x) if isinstance(x, list) else x


def dump_static(trace_dir):
    import json
    with open(os.path.join(trace_dir, 'static.json'), 'w') as f:
        json.dump({'progs': {k: [list(i) for i in v] for k, v in PROGS.items()},
                   'ids': [[k, v] for k, v in IDS.items()], 'parent': [[k, v] for k, v in PARENT.items()],
                   'tcomp': [[k, v] for k, v in TCOMP.items()], 'futs': [[[k[0], k[1]], v] for k, v in FUTS.items()]}, f)


def ev(e, **kw):
    d = {'e': e}
    d.update(kw)
    if TRACE_DIR:
        import fcntl
        import json
        with open(os.path.join(TRACE_DIR, 'events.ndjson'), 'a') as f:
            fcntl.flock(f, fcntl.LOCK_EX)
            f.write(json.dumps(d) + '\n')
            f.flush()
            # wall-clock stamp of every event, kept OUTSIDE the trace (progress evidence for harness/rtcheck.run_real_scenarios)
            try:
                import time
                with open(os.path.join(TRACE_DIR, 'times.txt'), 'a') as g:
                    g.write('%.3f\n' % time.time())
            except OSError:
                pass
            fcntl.flock(f, fcntl.LOCK_UN)
        return
    LOG.append(d)


def preregister(cid, fn):
    """Assign ids to the whole static task tree of compilation `cid` (root fn) before the run, so ids do not
    depend on the schedule.  Returns root id."""
    def walk(f, path, parent):
        me = tid(path, parent)
        for ins in PROGS[f]:
            if ins[0] == 'submit':
                fid(path, ins[1])
                walk(ins[2], path + ((ins[1], 0),), path)
            elif ins[0] == 'map':
                fid(path, ins[1])
                for i in range(ins[3]):
                    walk(ins[2], path + ((ins[1], i),), path)
        return me
    return walk(fn, (cid, 'root'), None)


async def body(fn, path):
    _load_real()
    path = _untup(path) if isinstance(path, list) else path
    me = tid(path)
    ev('TaskStart', t=me)
    env = {}
    nkids = {}
    seen = {}
    rt = get_runtime()
    for ins in PROGS[fn]:
        op = ins[0]
        if op == 'submit':
            kid = path + ((ins[1], 0),)
            k = tid(kid, path)
            f = fid(path, ins[1])
            ev('Submit', t=me, f=f, kids=[k])
            env[ins[1]] = rt.submit(body, ins[2], kid)
            nkids[ins[1]] = 1
            FUTBOX[(getattr(rt, '_id', -9), getattr(env[ins[1]], 'mailbox_id', -9))] = f
        elif op == 'map':
            kids = [path + ((ins[1], i),) for i in range(ins[3])]
            ks = [tid(k, path) for k in kids]
            f = fid(path, ins[1])
            ev('Submit', t=me, f=f, kids=ks)
            env[ins[1]] = rt.map(body, [ins[2]] * ins[3], kids)
            nkids[ins[1]] = ins[3]
            FUTBOX[(getattr(rt, '_id', -9), getattr(env[ins[1]], 'mailbox_id', -9))] = f
        elif op == 'await':
            ev('AwaitCall', t=me, f=fid(path, ins[1]))
            v = await env[ins[1]]
            ev('AwaitReturn', t=me, f=fid(path, ins[1]), v=v if isinstance(v, list) else [v])
        elif op == 'next':
            v = await rt.next(env[ins[1]])
            ev('NextReturn', t=me, f=fid(path, ins[1]), v=[[a, b] for a, b in v])
            seen.setdefault(ins[1], set()).update(a for a, _ in v)
        elif op == 'drain':
            s = seen.setdefault(ins[1], set())
            guard = 0
            while len(s) < nkids[ins[1]] and guard < 50:
                guard += 1
                v = await rt.next(env[ins[1]])
                ev('NextReturn', t=me, f=fid(path, ins[1]), v=[[a, b] for a, b in v])
                s.update(a for a, _ in v)
        elif op == 'cancel':
            ev('Cancel', t=me, f=fid(path, ins[1]))
            rt.cancel(env[ins[1]])
        elif op == 'log':
            _log.warning('log-from-%d', me)
        elif op == 'sleep':
            if TRACE_DIR:
                import time
                time.sleep(0.002)
            else:
                from harness import sim
                if sim.CUR is not None:
                    sim.CUR.k.yield_(('sleep', 0))
        elif op == 'ret':
            ev('TaskEnd', t=me)
            return me
        elif op == 'raise':
            ev('TaskRaise', t=me)
            raise RuntimeError('boom-%d' % me)
    ev('TaskEnd', t=me)
    return me


class RootPass(BasePass):
    """The pass a client submits: runs program `fn` as the compilation's root task."""

    def __init__(self, fn, cid):
        self.fn = fn
        self.cid = cid

    async def run(self, circuit, data):
        data['out'] = await body(self.fn, (self.cid, 'root'))
