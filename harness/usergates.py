"""User-defined Python gates (importable module, as a user of BQSKit would write them).

They are *not* part of BQSKit's gate library, so the native cost/instantiation engine cannot use a
built-in expression for them and has to call back into their Python get_unitary / get_grad: circuits
containing them take the non-native evaluation path (C19).  Each is monomial at the parameter points
the checks use; their semantics is given to TLC as a constant TABLE or by the library name they copy.
"""
from __future__ import annotations

import numpy as np

from bqskit.ir.gates.constantgate import ConstantGate
from bqskit.ir.gate import Gate
from bqskit.qis.unitary.unitarymatrix import UnitaryMatrix


class PyXGate(ConstantGate):
    """Pauli X written by a user."""
    _num_qudits = 1
    _radixes = (2,)
    _qasm_name = 'pyx'

    def get_unitary(self, params=[]):
        return UnitaryMatrix([[0, 1], [1, 0]])


class PySGate(ConstantGate):
    """Phase gate diag(1, i) written by a user."""
    _num_qudits = 1
    _radixes = (2,)
    _qasm_name = 'pys'

    def get_unitary(self, params=[]):
        return UnitaryMatrix([[1, 0], [0, 1j]])


class PyCZGate(ConstantGate):
    """Controlled-Z written by a user."""
    _num_qudits = 2
    _radixes = (2, 2)
    _qasm_name = 'pycz'

    def get_unitary(self, params=[]):
        return UnitaryMatrix(np.diag([1, 1, 1, -1]).astype(complex))


class PyShift3Gate(ConstantGate):
    """Qutrit shift |a> -> |a+1 mod 3> written by a user."""
    _num_qudits = 1
    _radixes = (3,)

    def get_unitary(self, params=[]):
        return UnitaryMatrix(np.array([[0, 0, 1], [1, 0, 0], [0, 1, 0]], dtype=complex), [3])


class PyRZGate(Gate):
    """RZ(theta) = diag(e^{-i theta/2}, e^{i theta/2}) written by a user, with its gradient."""
    _num_qudits = 1
    _num_params = 1
    _radixes = (2,)
    _qasm_name = 'pyrz'

    def get_unitary(self, params=[]):
        self.check_parameters(params)
        t = params[0]
        return UnitaryMatrix([[np.exp(-0.5j * t), 0], [0, np.exp(0.5j * t)]])

    def get_grad(self, params=[]):
        self.check_parameters(params)
        t = params[0]
        return np.array([[[-0.5j * np.exp(-0.5j * t), 0], [0, 0.5j * np.exp(0.5j * t)]]], dtype=np.complex128)

    def is_differentiable(self):
        return True


# name of the Monomial.tla library gate each user gate copies
SEMANTICS = {'PyXGate': 'X', 'PySGate': 'S', 'PyCZGate': 'CZ', 'PyShift3Gate': 'Shift', 'PyRZGate': 'RZ'}
