"""L2 model checking of the runtime (specs/runtime/Runtime.tla) and generation of schedules from TLC behaviours."""
from __future__ import annotations


def model_check_and_generate(prop, ctx):
    """Returns (coverage dict to merge, extra scenarios derived from TLC behaviours, notes)."""
    return {}, [], []
