"""L2 model checking of the runtime (specs/runtime/Runtime.tla) and guided replay of TLC behaviours.

Two uses of TLC on the implementation-shaped specification:
  * exhaustive exploration of small configurations (all interleavings of message deliveries and worker steps,
    all assignments assign_tasks allows) with the properties as invariants and -coverage;
  * -simulate with Record = TRUE: every behaviour that reaches the idle state is printed (action, worker,
    projection of the post-state) and REPLAYED action by action into the real AttachedServer / Worker / Compiler
    under the SimKernel; after each action the implementation's projected state is compared with the
    specification's.  A difference is DRIFT (reported, not a violation: L2 describes the current code, the
    properties are decided by L1); the L1 trace recorded during the replay is validated like any other.
"""
from __future__ import annotations

import json
import logging
import os
import re

from harness import common, rtcheck

SPEC_DIR = os.path.join(common.SPECS, 'runtime')

PROGS = {
    'A': {'root': [['map', 'm', 'leaf', 3], ['await', 'm'], ['submit', 'a', 'leaf'], ['submit', 'b', 'leaf'], ['await', 'a'], ['await', 'b'], ['ret']], 'leaf': [['ret']]},
    'B': {'root': [['map', 'm', 'mid', 2], ['await', 'm'], ['ret']], 'mid': [['submit', 'a', 'leaf'], ['await', 'a'], ['ret']], 'leaf': [['ret']]},
    'N': {'root': [['map', 'm', 'leaf', 3], ['next', 'm'], ['await', 'm'], ['ret']], 'leaf': [['ret']]},
    'M4': {'root': [['map', 'm', 'leaf', 4], ['await', 'm'], ['map', 'n', 'leaf', 2], ['await', 'n'], ['ret']], 'leaf': [['ret']]},
    'C': {'root': [['map', 'm', 'mid', 2], ['next', 'm'], ['cancel', 'm'], ['submit', 'a', 'leaf'], ['await', 'a'], ['ret']],
          'mid': [['submit', 'x', 'leaf'], ['await', 'x'], ['ret']], 'leaf': [['ret']]},
    'L': {'root': [['submit', 'a', 'leaf'], ['submit', 'b', 'mid'], ['await', 'a'], ['ret']],
          'mid': [['submit', 'x', 'leaf'], ['await', 'x'], ['ret']], 'leaf': [['ret']]},
}
HAS_CANCEL = {'C', 'L'}


def tla_prog(progs):
    def ins(i):
        parts = []
        for x in i:
            parts.append('"%s"' % x if isinstance(x, str) else str(x))
        if i[0] == 'ret':
            parts.append('1')
        return '<<' + ', '.join(parts) + '>>'
    fields = ['%s |-> << %s >>' % (fn, ', '.join(ins(i) for i in body)) for fn, body in progs.items()]
    return '[ ' + ',\n    '.join(fields) + ' ]'


def write_mc(scratch, name, progs, nw, policy, record, invariants, depth=None):
    mod = 'MC_' + name
    with open(os.path.join(scratch, mod + '.tla'), 'w') as f:
        f.write('---- MODULE %s ----\nEXTENDS Runtime\nTheProg == %s\n' % (mod, tla_prog(progs)))
        if depth:
            f.write('Bound == TLCGet("level") <= %d\n' % depth)
        f.write('====\n')
    with open(os.path.join(scratch, mod + '.cfg'), 'w') as f:
        f.write('SPECIFICATION Spec\nCONSTANTS NW = %d\n RootFn = "root"\n Policy = "%s"\n Record = %s\n Prog <- TheProg\n' % (
            nw, policy, 'TRUE' if record else 'FALSE'))
        for inv in invariants:
            f.write('INVARIANT %s\n' % inv)
        if depth:
            f.write('CONSTRAINT Bound\n')
        f.write('CHECK_DEADLOCK FALSE\n')
    return os.path.join(scratch, mod + '.tla'), os.path.join(scratch, mod + '.cfg')


def exhaustive(ctx, prop):
    """TLC exhaustive runs; returns (coverage dict, notes)."""
    base_inv = ['RunAtMostOnce', 'NoErr', 'CountersInBounds', 'ClientAnswered']
    quick = {'C07': [('A', 2), ('B', 2), ('N', 2)], 'C12': [('A', 2), ('L', 2), ('C', 2)], 'C15': [('A', 2), ('B', 2), ('M4', 2)]}
    thorough = {'C07': [('A', 2), ('A', 3), ('B', 2), ('B', 3), ('N', 2), ('N', 3), ('M4', 3)],
                'C12': [('A', 2), ('C', 2), ('L', 2), ('L', 3)],
                'C15': [('A', 2), ('A', 3), ('B', 3), ('M4', 2), ('M4', 3), ('N', 3)]}
    configs = (quick if ctx.quick else thorough)[prop]
    states = trans = 0
    notes = []
    per = {}
    actions = {}
    def one(cfgitem):
        name, nw = cfgitem
        inv = list(base_inv)
        if name not in HAS_CANCEL:
            inv += ['NoResidue', 'CountersAtRest']
        spec, cfg = write_mc(ctx.scratch, '%s%d' % (name, nw), PROGS[name], nw, 'any', False, inv)
        return common.tlc(spec, cfg, scratch=ctx.scratch, timeout=1500, coverage=(name, nw) == ('A', 2), cwd=ctx.scratch, workers=4, heap='4g')
    from concurrent.futures import ThreadPoolExecutor
    with ThreadPoolExecutor(4) as ex:
        rs = list(ex.map(one, configs))
    for (name, nw), r in zip(configs, rs):
        if not r.ok:
            # an invariant of the L2 model failed (or TLC broke): a design-level counterexample is a machinery-level
            # event here - the properties are decided on the real code by L1 - but it must not go unnoticed
            m = re.search(r'Invariant (\w+) is violated', r.out)
            if m:
                notes.append('L2-COUNTEREXAMPLE config=%s%d invariant=%s (TLC found a behaviour of the implementation-shaped model '
                             'that breaks it; see DESIGN.md)' % (name, nw, m.group(1)))
            else:
                raise common.MachineryError('TLC failed on L2 config %s%d: %s' % (name, nw, r.error[:500]))
        states += r.distinct
        trans += r.states
        per['%s/%dw' % (name, nw)] = [r.distinct, r.states, r.depth]
        if r.coverage:
            # the six disjuncts of Next (ClientSubmit, ServerRecv, WorkerIn, StepTask, StartDelayed, GoIdle), by source line
            actions = {k: v for k, v in r.coverage.items() if k.startswith('Next@')}
            dead = [k for k, v in actions.items() if v == 0]
            if dead or len(actions) < 6:
                raise common.MachineryError('L2 actions never taken (vacuous model): %s of %s' % (dead, actions))
    return {'l2_states': states, 'l2_transitions': trans, 'l2_configs': per, 'l2_action_counts': actions}, notes


# ------------------------------------------------------------------ guided replay

class Drift(Exception):
    pass


class Replayer:
    """Replays one L2 behaviour (list of {a, w, p}) into the real attached runtime."""

    def __init__(self, progs, nw):
        from harness import rtdrive, rtprog, sim
        self.sim = sim
        sc = {'topo': ['attached', nw], 'progs': progs, 'clients': [[['submit', 'H0', 'root'], ['result', 'H0']]],
              'sched': ['replay', [], []], 'lines': False, 'crash': None, 'probe': False}
        self.run = rtdrive.Run(sc)
        self.k = self.run.k
        self.net = self.run.net
        self.nw = nw
        import bqskit.runtime.worker as W
        self.anchored = self.k.trace_anchor(W.Worker._get_next_ready_task, '_ready_task_ids.empty()', 'top')
        self.go = False
        run = self.run
        rep = self

        def client():
            import bqskit.compiler.compiler as C
            from bqskit.ir.circuit import Circuit
            comp = C.Compiler(ip='sim', port=7472)
            comp.p = sim.FakePopen(self.net, 'server')
            self.k.yield_(('gate',), lambda: rep.go)
            run.pending[0] = ('submit', 1)
            rtprog.ev('ClientCall', c=1, call='submit', cid=1)
            try:
                u = comp.submit(Circuit(1), [rtprog.RootPass('root', 1)], request_data=True)
                run.uuid2cid[u] = 1
                rtprog.ev('ClientReturn', c=1, call='submit', cid=1, kind='ok')
                rtprog.ev('ClientCall', c=1, call='result', cid=1)
                run.pending[0] = ('result', 1)
                r = comp.result(u)
                rtprog.ev('ClientReturn', c=1, call='result', cid=1, kind='result', v=r[1]['out'])
            except Exception as e:
                cause, booms, text = rtdrive.classify_error(e)
                rtprog.ev('ClientReturn', c=1, call=run.pending[0][0], cid=1, kind='error', cause=cause, boom=booms, text=text[-300:])
            run.pending[0] = None
            run.at_gate.add(0)
            self.k.yield_(('gate2',), lambda: run.gate_open)
            try:
                comp.close()
            except Exception:
                pass
        run.spawn_topology()
        run.pending[0] = None
        self.tclient = self.k.spawn('client0.main', client, node='client0')
        self.tserver = None

    # low-level stepping
    def enabled(self, t):
        return t.state == 'ready' or (t.state == 'blocked' and t.cond())

    def step(self, t):
        if not self.enabled(t):
            raise Drift('thread %s not enabled (at %s)' % (t.name, t.why))
        self.k.step(t)

    def run_until(self, t, pred, limit=20000):
        n = 0
        while True:
            self.step(t)
            n += 1
            if t.state == 'done' or pred(t):
                return
            if n > limit:
                raise Drift('no end label reached by %s' % t.name)

    def server_threads(self):
        ts = [t for t in self.k.threads if t.node == 'server']
        main = [t for t in ts if t.name == 'server.main'][0]
        return main, [t for t in ts if t is not main]

    def flush_outgoing(self):
        main, others = self.server_threads()
        for t in others:
            while t.state != 'done' and self.enabled(t):
                self.step(t)

    def settle(self):
        """Run everything except worker main threads parked at 'top' and the gated client until nothing else can move."""
        progress = True
        while progress:
            progress = False
            for t in list(self.k.threads):
                if t.state == 'done' or t.why == ('label', 'top'):
                    continue
                if t is self.tclient and t.why in (('gate',), ('gate2',)):
                    continue
                if self.enabled(t):
                    self.step(t)
                    progress = True

    def worker(self, w):
        node = 'w%d' % w
        wk = self.net.workers[node]
        ts = [t for t in self.k.threads if t.node == node]
        main = [t for t in ts if t.name == node + '.main'][0]
        inc = [t for t in ts if t is not main][0]
        return wk, main, inc

    def server(self):
        return self.net.servers['server']

    def proj(self):
        p = {k: {} for k in ('rq', 'dl', 'nt', 'nb', 'up', 'dn', 'ent', 'eid', 'pc')}
        srv = self.server()
        for w in range(self.nw):
            wk, main, inc = self.worker(w)
            e = srv.employees[w]
            p['rq'][str(w)] = len(wk._ready_task_ids.q)
            p['dl'][str(w)] = len(wk._delayed_tasks)
            p['nt'][str(w)] = len(wk._tasks)
            p['nb'][str(w)] = len(wk._mailboxes)
            p['up'][str(w)] = len(e.conn.rx.q)
            p['dn'][str(w)] = len(e.conn.tx.q)
            p['ent'][str(w)] = e.num_tasks
            p['eid'][str(w)] = e.num_idle_workers
            p['pc'][str(w)] = 'blocked' if main.why and main.why[0] == 'qget' else 'top'
        return p

    def prepare(self):
        if not self.anchored:
            raise Drift('statement anchor "_ready_task_ids.empty()" missing in Worker._get_next_ready_task')
        self.settle()
        for w in range(self.nw):
            wk, main, inc = self.worker(w)
            if main.why != ('label', 'top'):
                self.run_until(main, lambda t: t.why == ('label', 'top'))
        self.settle()
        self.tserver = self.server_threads()[0]

    def act(self, a, w):
        srv = self.server()
        if a == 'ClientSubmit':
            self.go = True
            self.run_until(self.tclient, lambda t: t.why[0] == 'recv')      # SUBMIT and REQUEST sent, waiting for the result
            cconn = list(srv.clients.keys())[0]
            while cconn.readable() and len(cconn.rx.q) > 0:
                self.net.force_select = cconn
                self.run_until(self.tserver, lambda t: t.why == ('select',))
            self.flush_outgoing()
        elif a == 'ServerRecv':
            self.net.force_select = srv.employees[w].conn
            self.run_until(self.tserver, lambda t: t.why == ('select',))
            self.flush_outgoing()
        elif a == 'WorkerIn':
            wk, main, inc = self.worker(w)
            self.run_until(inc, lambda t: t.why[0] == 'recv')
        elif a in ('StepTask', 'StartDelayed'):
            wk, main, inc = self.worker(w)
            self.run_until(main, lambda t: t.why == ('label', 'top'))
        elif a == 'GoIdle':
            wk, main, inc = self.worker(w)
            self.run_until(main, lambda t: t.why[0] == 'qget')
        else:
            raise Drift('unknown action ' + a)

    def finish(self):
        """Release everything and let the run end under a fair scheduler; returns (trace, diag)."""
        from harness import rtprog
        self.k.anchors.clear()
        status = self.k.run(300000)
        settled = 0 in self.run.at_gate
        self.run.snapshot(final=False, settled=settled and status == 'quiescent')
        self.run.gate_open = True
        status = self.k.run(300000)
        self.run.snapshot(final=True, settled=False)
        return self.run.finish(status)


def replay_behaviour(progs, nw, beh):
    """Returns (verdict, index, detail, trace, diag)."""
    r = Replayer(progs, nw)
    verdict, idx, detail = 'ok', len(beh), ''
    try:
        r.prepare()
        for i, st in enumerate(beh):
            r.act(st['a'], st['w'])
            got = r.proj()
            exp = {k: {str(kk): vv for kk, vv in _as_items(st['p'][k])} for k in got}
            if got != exp:
                diff = {k: (exp[k], got[k]) for k in got if got[k] != exp[k]}
                verdict, idx, detail = 'drift', i, '%s(%s): expected/got %s' % (st['a'], st['w'], json.dumps(diff))
                break
    except Drift as e:
        verdict, idx, detail = 'drift', -1, str(e)
    trace, diag = r.finish()
    return verdict, idx, detail, trace, diag


def _as_items(v):
    # ToJson renders a function with domain 0..n-1 as a JSON list or object depending on the domain
    if isinstance(v, dict):
        return v.items()
    return enumerate(v)


def _replay_job(job):
    progs, nw, beh = job
    logging.disable(logging.CRITICAL)
    try:
        v, i, d, tr, dg = replay_behaviour(progs, nw, beh)
        return v, i, d, tr, dg, None
    except Exception:
        import traceback
        return 'error', -1, '', None, None, traceback.format_exc()[-1200:]


def simulate_and_replay(ctx, prop):
    """TLC -simulate on the deterministic-assignment instances -> behaviours -> guided replays."""
    import multiprocessing as mp
    names = {'C07': ['A', 'B', 'N'], 'C15': ['A', 'M4', 'B'], 'C12': ['C', 'L']}[prop]
    num = 20 if ctx.quick else 500
    jobs = []
    sim_states = 0
    for name in names:
        for nw in (2, 3):
            spec, cfg = write_mc(ctx.scratch, 'S%s%d' % (name, nw), PROGS[name], nw, 'det', True, ['Dump'])
            r = common.tlc(spec, cfg, scratch=ctx.scratch, timeout=600, workers=1, simulate='num=%d' % num, depth=300,
                           seed=ctx.seed + 1, cwd=ctx.scratch)
            behs = []
            for v in r.prints:
                if v and v[0] == 'BEHAVIOUR':
                    try:
                        behs.append(json.loads(v[1]))
                    except Exception:
                        pass
            sim_states += r.states
            seen = set()
            for b in behs:
                h = common.digest(b)
                if h not in seen:
                    seen.add(h)
                    jobs.append((PROGS[name], nw, b))
    if not jobs:
        raise common.MachineryError('TLC simulation produced no behaviours to replay')
    cx = mp.get_context('fork')
    with cx.Pool(12, initializer=rtcheck._init_worker) as pool:
        res = pool.map(_replay_job, jobs, chunksize=2)
    drift = 0
    first = None
    traces = []
    acts = 0
    errors = [r[5] for r in res if r[5]]
    if len(errors) > len(res) // 10:
        raise common.MachineryError('guided replay failed: %s' % errors[0])
    for (progs, nw, beh), (v, i, d, tr, dg, err) in zip(jobs, res):
        if err:
            continue
        acts += len(beh) if v == 'ok' else max(i, 0)
        if v == 'drift':
            drift += 1
            if first is None:
                first = 'DRIFT property=%s step=%d %s (code and L2 model disagree on a projected state component; not a violation)' % (prop, i, d[:300])
        traces.append((tr, dg, {'topo': ['attached', nw], 'progs': progs, 'clients': [[['submit', 'H0', 'root'], ['result', 'H0']]],
                                'sched': ['replay', dg['picks'], dg['choices']], 'lines': False, 'crash': None, 'probe': False, 'guided': True}))
    cov = {'l2_behaviours_replayed': len(jobs), 'l2_actions_replayed_with_equal_projection': acts, 'l2_replay_drift': drift,
           'l2_simulated_states': sim_states}
    notes = [first] if first else []
    return cov, traces, notes


def model_check_and_generate(prop, ctx):
    """Returns (coverage dict to merge, extra pre-recorded traces [(trace, diag, scenario)], notes)."""
    cov, notes = exhaustive(ctx, prop)
    cov2, traces, notes2 = simulate_and_replay(ctx, prop)
    cov.update(cov2)
    return cov, traces, notes + notes2


# ------------------------------------------------------------------ ServerClients.tla (C13 / C12 server side)

def server_clients(ctx):
    """Exhaustive TLC run of the client-facing server model, then client scripts derived from TLC-simulated behaviours.
    Returns (coverage, scenarios)."""
    spec = os.path.join(SPEC_DIR, 'ServerClients.tla')
    ids = '{"a", "b"}' if ctx.quick else '{"a", "b", "c"}'
    invs = ['NoCrash', 'RepliesConsistent', 'TablesConsistent', 'NoCancelledResidue', 'WaitingIsLive']
    cfg = os.path.join(ctx.scratch, 'SC_exh.cfg')
    with open(cfg, 'w') as f:
        f.write('SPECIFICATION Spec\nCONSTANTS NC = 2\n IDS = %s\n Record = FALSE\n%sCHECK_DEADLOCK FALSE\n' % (
            ids, ''.join('INVARIANT %s\n' % i for i in invs)))
    r = common.tlc(spec, cfg, scratch=ctx.scratch, timeout=1500, workers=8, coverage=ctx.quick)
    if not r.ok:
        m = re.search(r'Invariant (\w+) is violated', r.out)
        raise common.MachineryError('ServerClients.tla: %s' % ('invariant %s violated on the model of the current code' % m.group(1) if m else r.error[:400]))
    if r.coverage:
        acts = {k: v for k, v in r.coverage.items() if k.startswith('Next@')}
        if len(acts) < 8 or any(v == 0 for v in acts.values()):
            raise common.MachineryError('ServerClients.tla: action never taken: %s' % acts)
    cov = {'l2_states': r.distinct, 'l2_transitions': r.states, 'l2_server_model': [r.distinct, r.states, r.depth]}
    cfg2 = os.path.join(ctx.scratch, 'SC_sim.cfg')
    with open(cfg2, 'w') as f:
        f.write('SPECIFICATION Spec\nCONSTANTS NC = 2\n IDS = {"a", "b", "c"}\n Record = TRUE\nINVARIANT Dump\nCHECK_DEADLOCK FALSE\n')
    num = 150 if ctx.quick else 2000
    r2 = common.tlc(spec, cfg2, scratch=ctx.scratch, timeout=600, workers=1, simulate='num=%d' % num, depth=9, seed=ctx.seed + 3)
    longest = {}
    for v in r2.prints:
        if v and v[0] == 'BEHAVIOUR':
            try:
                h = json.loads(v[1])
            except Exception:
                continue
            key = json.dumps(h[:6])
            if key not in longest or len(h) > len(longest[key]):
                longest[key] = h
    scs = []
    for n, h in enumerate(longest.values()):
        failing = {e['i'] for e in h if e['a'] == 'ErrorIn'}
        scripts = {1: [], 2: []}
        for e in h:
            c = e['c']
            if e['a'] == 'Submit':
                scripts[c].append(['submit', e['i'], 'bad' if e['i'] in failing else 'root'])
            elif e['a'] == 'Request':
                scripts[c].append(['result', e['i']])
            elif e['a'] == 'Status':
                scripts[c].append(['status', e['i']])
            elif e['a'] == 'Cancel':
                scripts[c].append(['cancel', e['i']])
            elif e['a'] == 'Disconnect':
                scripts[c].append(['close'])
        clients = [s for s in (scripts[1], scripts[2]) if s]
        if not clients:
            continue
        progs = {'root': [['submit', 'x', 'leaf'], ['await', 'x'], ['ret']], 'bad': [['submit', 'x', 'leaf'], ['await', 'x'], ['raise']], 'leaf': [['ret']]}
        scs.append({'topo': ['detached', [[1], [2], [1, 1]][n % 3]], 'progs': progs, 'clients': clients,
                    'sched': ['random', ctx.seed * 7 + n], 'lines': False, 'crash': None, 'probe': True, 'from_tlc': True})
    cov['l2_behaviours_as_client_scripts'] = len(scs)
    return cov, scs


# ------------------------------------------------------------------ Shutdown.tla (C14)

def shutdown_model(ctx):
    """TLC: safety + liveness (crash ~> everyone released and down) of the shutdown cascade, flat and managed."""
    spec = os.path.join(SPEC_DIR, 'Shutdown.tla')
    cfgs = [(0, 3, 2, 2), (2, 2, 2, 2)] if ctx.quick else [(0, 3, 2, 2), (0, 4, 3, 2), (2, 2, 2, 2), (3, 2, 2, 2), (2, 3, 2, 3)]
    states = trans = 0
    per = {}
    for nm, nw, ncl, mc in cfgs:
        cfg = os.path.join(ctx.scratch, 'SD_%d_%d.cfg' % (nm, nw))
        with open(cfg, 'w') as f:
            f.write('SPECIFICATION Spec\nCONSTANTS NM = %d\n NW = %d\n NCL = %d\n MaxCrash = %d\nINVARIANT ClientsClosedOnlyWithServer\n'
                    'INVARIANT NoSpontaneousStop\nPROPERTY Released\nCHECK_DEADLOCK FALSE\n' % (nm, nw, ncl, mc))
        r = common.tlc(spec, cfg, scratch=ctx.scratch, timeout=1200, workers=4, heap='4g')
        if not r.ok:
            raise common.MachineryError('Shutdown.tla (NM=%d NW=%d): %s' % (nm, nw, r.error[:400] or r.out[-600:]))
        states += r.distinct
        trans += r.states
        per['%dm x %dw' % (nm, nw)] = [r.distinct, r.states]
    return {'l2_states': states, 'l2_transitions': trans, 'l2_shutdown_model': per}


def node_number(name, topo):
    """sim node name -> Shutdown.tla node number."""
    if name == 'server':
        return 0
    if name.startswith('man'):
        return int(name[3:]) + 1
    if name.startswith('w'):
        wid = int(name[1:])
        if topo[0] == 'attached':
            return 100 + wid + 1
        sizes = topo[1]
        step = (2 ** 30) // len(sizes)
        m = wid // step
        return 100 * (m + 2) + (wid - m * step) + 1
    return -1


def shutdown_conformance(ctx, items):
    """items = [(trace, diag, scenario)] of crash runs. Validates the recorded order of process exits against
    Shutdown.tla (ShutdownTrace.tla).  Returns (coverage, notes): a mismatch is DRIFT between code and L2, not a violation."""
    cases = []
    for tr, dg, sc in items:
        if not sc.get('crash') or sc.get('real'):
            continue
        topo = sc['topo']
        if topo[0] == 'detached' and len(set(topo[1])) > 1:
            continue                      # ShutdownTrace assumes the same number of workers under every manager
        ev = []
        for e in tr['ev']:
            if e['e'] == 'Crash':
                ev.append({'k': 'crash', 'n': node_number(e['node'], topo)})
            elif e['e'] == 'NodeExit':
                ev.append({'k': 'kill' if e.get('how') == 'kill' else 'exit', 'n': node_number(e['node'], topo)})
        if ev:
            cases.append({'nm': 0 if topo[0] == 'attached' else len(topo[1]), 'nw': topo[1] if topo[0] == 'attached' else topo[1][0], 'ev': ev})
    if not cases:
        return {}, []
    v, st, tn, _ = common.batch_validate(os.path.join(SPEC_DIR, 'ShutdownTrace.tla'), os.path.join(SPEC_DIR, 'ShutdownTrace.cfg'),
                                         cases, ctx.scratch, chunk=2000)
    notes = []
    if v:
        idx, step, clause, _ = v[0]
        notes.append('DRIFT property=C14 %d of %d crash runs end their processes in an order Shutdown.tla does not allow (first: %s at event %d of %s); '
                     'code and L2 model disagree, not a violation' % (len(v), len(cases), clause, step, json.dumps(cases[idx])[:300]))
    return {'l2_shutdown_traces_checked': len(cases), 'l2_shutdown_trace_drift': len(v), 'l2_trace_states': st}, notes


# ------------------------------------------------------------------ Managed.tla (C15, managed topologies)

def managed_model(ctx):
    """TLC exhaustive: counters in bounds, receipts always found, tasks placed once, compilation completes."""
    spec = os.path.join(SPEC_DIR, 'Managed.tla')
    cfgs = [(2, 1, 2, 1)] if ctx.quick else [(2, 1, 2, 1), (2, 1, 3, 2), (2, 2, 3, 0), (3, 1, 3, 1)]
    states = trans = 0
    per = {}
    for nm, nw, k1, k2 in cfgs:
        cfg = os.path.join(ctx.scratch, 'MG_%d_%d_%d_%d.cfg' % (nm, nw, k1, k2))
        with open(cfg, 'w') as f:
            f.write('SPECIFICATION Spec\nCONSTANTS NM = %d\n NW = %d\n K1 = %d\n K2 = %d\n' % (nm, nw, k1, k2)
                    + ''.join('INVARIANT %s\n' % i for i in ('NoError', 'ServerCountersInBounds', 'ManagerCountersInBounds', 'PlacedOnce', 'Completes'))
                    + 'CHECK_DEADLOCK FALSE\n')
        r = common.tlc(spec, cfg, scratch=ctx.scratch, timeout=3000, workers=8, heap='8g')
        if not r.ok:
            m = re.search(r'Invariant (\w+) is violated', r.out)
            raise common.MachineryError('Managed.tla (%s): %s' % ((nm, nw, k1, k2), 'invariant %s violated on the model of the current code' % m.group(1) if m else r.error[:400]))
        states += r.distinct
        trans += r.states
        per['%dm x %dw, map %d then %d' % (nm, nw, k1, k2)] = [r.distinct, r.states, r.depth]
    return {'l2_managed_states': states, 'l2_managed_transitions': trans, 'l2_managed_configs': per}
