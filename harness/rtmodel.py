"""L2 model checking of the runtime (specs/runtime/Runtime.tla) and guided replay of TLC behaviours.

Two uses of TLC on the implementation-shaped specification:
  * exhaustive exploration of small configurations (all interleavings of message deliveries and worker steps,
    all assignments assign_tasks allows) with the properties as invariants and -coverage;
  * -simulate with Record = TRUE: every behaviour that reaches the idle state is printed (action, worker,
    projection of the post-state) and REPLAYED action by action into the real AttachedServer / Worker / Compiler
    under the SimKernel; after each action the implementation's projected state is compared with the
    specification's.  A difference is DRIFT (reported, not a violation: L2 describes the current code, the
    properties are decided by L1); the L1 trace recorded during the replay is validated like any other.
"""
from __future__ import annotations

import json
import logging
import os
import re

from harness import common, rtcheck

SPEC_DIR = os.path.join(common.SPECS, 'runtime')

PROGS = {
    'A': {'root': [['map', 'm', 'leaf', 3], ['await', 'm'], ['submit', 'a', 'leaf'], ['submit', 'b', 'leaf'], ['await', 'a'], ['await', 'b'], ['ret']], 'leaf': [['ret']]},
    'B': {'root': [['map', 'm', 'mid', 2], ['await', 'm'], ['ret']], 'mid': [['submit', 'a', 'leaf'], ['await', 'a'], ['ret']], 'leaf': [['ret']]},
    'N': {'root': [['map', 'm', 'leaf', 3], ['next', 'm'], ['await', 'm'], ['ret']], 'leaf': [['ret']]},
    'M4': {'root': [['map', 'm', 'leaf', 4], ['await', 'm'], ['map', 'n', 'leaf', 2], ['await', 'n'], ['ret']], 'leaf': [['ret']]},
    'C': {'root': [['map', 'm', 'mid', 2], ['next', 'm'], ['cancel', 'm'], ['submit', 'a', 'leaf'], ['await', 'a'], ['ret']],
          'mid': [['submit', 'x', 'leaf'], ['await', 'x'], ['ret']], 'leaf': [['ret']]},
    'L': {'root': [['submit', 'a', 'leaf'], ['submit', 'b', 'mid'], ['await', 'a'], ['ret']],
          'mid': [['submit', 'x', 'leaf'], ['await', 'x'], ['ret']], 'leaf': [['ret']]},
}
PROGS['T1'] = {'root': [['map', 'm', 'leaf', 2], ['await', 'm'], ['ret']], 'leaf': [['ret']]}
HAS_CANCEL = {'C', 'L'}


def tla_prog(progs):
    def ins(i):
        parts = []
        for x in i:
            parts.append('"%s"' % x if isinstance(x, str) else str(x))
        if i[0] == 'ret':
            parts.append('1')
        return '<<' + ', '.join(parts) + '>>'
    fields = ['%s |-> << %s >>' % (fn, ', '.join(ins(i) for i in body)) for fn, body in progs.items()]
    return '[ ' + ',\n    '.join(fields) + ' ]'


def write_mc(scratch, name, progs, nw, policy, record, invariants, depth=None, client_cancels=False, mut='none'):
    mod = 'MC_' + name
    with open(os.path.join(scratch, mod + '.tla'), 'w') as f:
        f.write('---- MODULE %s ----\nEXTENDS Runtime\nTheProg == %s\n' % (mod, tla_prog(progs)))
        if depth:
            f.write('Bound == TLCGet("level") <= %d\n' % depth)
        f.write('====\n')
    with open(os.path.join(scratch, mod + '.cfg'), 'w') as f:
        f.write('SPECIFICATION Spec\nCONSTANTS NW = %d\n RootFn = "root"\n Policy = "%s"\n Record = %s\n Prog <- TheProg\n'
                ' ClientCancels = %s\n Mut = "%s"\n' % (nw, policy, 'TRUE' if record else 'FALSE', 'TRUE' if client_cancels else 'FALSE', mut))
        for inv in invariants:
            f.write('INVARIANT %s\n' % inv)
        if depth:
            f.write('CONSTRAINT Bound\n')
        f.write('CHECK_DEADLOCK FALSE\n')
    return os.path.join(scratch, mod + '.tla'), os.path.join(scratch, mod + '.cfg')


def exhaustive(ctx, prop):
    """TLC exhaustive runs; returns (coverage dict, notes)."""
    base_inv = ['RunAtMostOnce', 'NoErr', 'CountersInBounds', 'ClientAnswered']
    # a third element: 'cc' = the client cancels at an arbitrary moment instead of waiting (CANCEL crossing the RESULT of the finished
    # root included); 'cc-mut' = the same with handle_result's bookkeeping moved behind its early return (must be rejected)
    quick = {'C07': [('A', 2), ('B', 2), ('N', 2)], 'C12': [('A', 2), ('L', 2), ('C', 2), ('T1', 2, 'cc')],
             'C15': [('A', 2), ('B', 2), ('M4', 2), ('A', 2, 'cc'), ('T1', 2, 'cc-mut')]}
    thorough = {'C07': [('A', 2), ('A', 3), ('B', 2), ('B', 3), ('N', 2), ('N', 3), ('M4', 3)],
                'C12': [('A', 2), ('C', 2), ('L', 2), ('L', 3), ('A', 2, 'cc'), ('B', 3, 'cc')],
                'C15': [('A', 2), ('A', 3), ('B', 3), ('M4', 2), ('M4', 3), ('N', 3), ('A', 3, 'cc'), ('B', 2, 'cc'), ('T1', 2, 'cc-mut')]}
    configs = [c if len(c) == 3 else (c[0], c[1], '') for c in (quick if ctx.quick else thorough)[prop]]
    states = trans = 0
    notes = []
    per = {}
    actions = {}
    def one(cfgitem):
        name, nw, var = cfgitem
        inv = list(base_inv) + ['CountsExplained']
        if name not in HAS_CANCEL and not var:
            inv += ['NoResidue', 'CountersAtRest']
        spec, cfg = write_mc(ctx.scratch, '%s%d%s' % (name, nw, var.replace('-', '')), PROGS[name], nw, 'any', False, inv,
                             client_cancels=bool(var), mut='count-after-early-return' if var == 'cc-mut' else 'none')
        return common.tlc(spec, cfg, scratch=ctx.scratch, timeout=1500, coverage=(name, nw, var) in (('A', 2, ''), ('A', 2, 'cc'), ('T1', 2, 'cc')),
                          cwd=ctx.scratch, workers=4, heap='4g')
    from concurrent.futures import ThreadPoolExecutor
    with ThreadPoolExecutor(4) as ex:
        rs = list(ex.map(one, configs))
    for (name, nw, var), r in zip(configs, rs):
        if var == 'cc-mut':
            # the deliberately broken variant: TLC must find the CANCEL-before-RESULT behaviour that leaves a count behind
            m = re.search(r'Invariant (\w+) is violated', r.out)
            if not m or m.group(1) != 'CountsExplained':
                raise common.MachineryError('Runtime.tla: the broken variant of handle_result is not rejected by CountsExplained (%s)'
                                            % (m.group(1) if m else r.error[:300] or 'no invariant failed'))
            per['%s/%dw/%s' % (name, nw, var)] = 'rejected by CountsExplained after %d states' % r.distinct
            continue
        if not r.ok:
            # an invariant of the L2 model failed (or TLC broke): a design-level counterexample is a machinery-level
            # event here - the properties are decided on the real code by L1 - but it must not go unnoticed
            m = re.search(r'Invariant (\w+) is violated', r.out)
            if m:
                notes.append('L2-COUNTEREXAMPLE config=%s%d invariant=%s (TLC found a behaviour of the implementation-shaped model '
                             'that breaks it; see DESIGN.md)' % (name, nw, m.group(1)))
            else:
                raise common.MachineryError('TLC failed on L2 config %s%d: %s' % (name, nw, r.error[:500]))
        states += r.distinct
        trans += r.states
        per['%s/%dw%s' % (name, nw, '/' + var if var else '')] = [r.distinct, r.states, r.depth]
        if r.coverage:
            # the seven disjuncts of Next (ClientSubmit, ClientCancel, ServerRecv, WorkerIn, StepTask, StartDelayed, GoIdle), by source
            # line; ClientCancel is enabled only in the 'cc' configurations
            acts = {k: v for k, v in r.coverage.items() if k.startswith('Next@')}
            dead = sorted(k for k, v in acts.items() if v == 0)
            if len(acts) < 7 or len(dead) > (0 if var else 1):
                raise common.MachineryError('L2 actions never taken (vacuous model) in %s/%d/%s: %s of %s' % (name, nw, var, dead, acts))
            if not actions or var:
                actions = acts
    return {'l2_states': states, 'l2_transitions': trans, 'l2_configs': per, 'l2_action_counts': actions}, notes


# ------------------------------------------------------------------ guided replay

class Drift(Exception):
    pass


class Replayer:
    """Replays one L2 behaviour (list of {a, w, p}) into the real attached runtime."""

    def __init__(self, progs, nw, cancels=False):
        from harness import rtdrive, rtprog, sim
        self.sim = sim
        self.cancels = cancels
        self.go2 = False
        sc = {'topo': ['attached', nw], 'progs': progs,
              'clients': [[['submit', 'H0', 'root'], ['cancel', 'H0']] if cancels else [['submit', 'H0', 'root'], ['result', 'H0']]],
              'sched': ['replay', [], []], 'lines': False, 'crash': None, 'probe': False}
        self.run = rtdrive.Run(sc)
        self.k = self.run.k
        self.net = self.run.net
        self.nw = nw
        import bqskit.runtime.worker as W
        self.anchored = self.k.trace_anchor(W.Worker._get_next_ready_task, '_ready_task_ids.empty()', 'top')
        self.go = False
        run = self.run
        rep = self

        def client():
            import bqskit.compiler.compiler as C
            from bqskit.ir.circuit import Circuit
            comp = C.Compiler(ip='sim', port=7472)
            comp.p = sim.FakePopen(self.net, 'server')
            self.k.yield_(('gate',), lambda: rep.go)
            run.pending[0] = ('submit', 1)
            rtprog.ev('ClientCall', c=1, call='submit', cid=1)
            try:
                u = comp.submit(Circuit(1), [rtprog.RootPass('root', 1)], request_data=True)
                run.uuid2cid[u] = 1
                rtprog.ev('ClientReturn', c=1, call='submit', cid=1, kind='ok')
                if rep.cancels:
                    # the ClientCancels configurations of Runtime.tla: no request for the result, a cancel at the moment TLC chose
                    run.pending[0] = None
                    self.k.yield_(('gatec',), lambda: rep.go2)
                    rtprog.ev('ClientCall', c=1, call='cancel', cid=1)
                    run.pending[0] = ('cancel', 1)
                    comp.cancel(u)
                    rtprog.ev('ClientReturn', c=1, call='cancel', cid=1, kind='ok')
                else:
                    rtprog.ev('ClientCall', c=1, call='result', cid=1)
                    run.pending[0] = ('result', 1)
                    r = comp.result(u)
                    rtprog.ev('ClientReturn', c=1, call='result', cid=1, kind='result', v=r[1]['out'])
            except Exception as e:
                cause, booms, text = rtdrive.classify_error(e)
                rtprog.ev('ClientReturn', c=1, call=run.pending[0][0], cid=1, kind='error', cause=cause, boom=booms, text=text[-300:])
            run.pending[0] = None
            run.at_gate.add(0)
            self.k.yield_(('gate2',), lambda: run.gate_open)
            try:
                comp.close()
            except Exception:
                pass
        run.spawn_topology()
        run.pending[0] = None
        self.tclient = self.k.spawn('client0.main', client, node='client0')
        self.tserver = None

    # low-level stepping
    def enabled(self, t):
        return t.state == 'ready' or (t.state == 'blocked' and t.cond())

    def step(self, t):
        if not self.enabled(t):
            raise Drift('thread %s not enabled (at %s)' % (t.name, t.why))
        self.k.step(t)

    def run_until(self, t, pred, limit=20000):
        n = 0
        while True:
            self.step(t)
            n += 1
            if t.state == 'done' or pred(t):
                return
            if n > limit:
                raise Drift('no end label reached by %s' % t.name)

    def server_threads(self):
        ts = [t for t in self.k.threads if t.node == 'server']
        main = [t for t in ts if t.name == 'server.main'][0]
        return main, [t for t in ts if t is not main]

    def flush_outgoing(self):
        main, others = self.server_threads()
        for t in others:
            while t.state != 'done' and self.enabled(t):
                self.step(t)

    def settle(self):
        """Run everything except worker main threads parked at 'top' and the gated client until nothing else can move."""
        progress = True
        while progress:
            progress = False
            for t in list(self.k.threads):
                if t.state == 'done' or t.why == ('label', 'top'):
                    continue
                if t is self.tclient and t.why in (('gate',), ('gate2',), ('gatec',)):
                    continue
                if self.enabled(t):
                    self.step(t)
                    progress = True

    def worker(self, w):
        node = 'w%d' % w
        wk = self.net.workers[node]
        ts = [t for t in self.k.threads if t.node == node]
        main = [t for t in ts if t.name == node + '.main'][0]
        inc = [t for t in ts if t is not main][0]
        return wk, main, inc

    def server(self):
        return self.net.servers['server']

    def proj(self):
        p = {k: {} for k in ('rq', 'dl', 'nt', 'nb', 'up', 'dn', 'ent', 'eid', 'pc')}
        srv = self.server()
        for w in range(self.nw):
            wk, main, inc = self.worker(w)
            e = srv.employees[w]
            p['rq'][str(w)] = len(wk._ready_task_ids.q)
            p['dl'][str(w)] = len(wk._delayed_tasks)
            p['nt'][str(w)] = len(wk._tasks)
            p['nb'][str(w)] = len(wk._mailboxes)
            p['up'][str(w)] = len(e.conn.rx.q)
            p['dn'][str(w)] = len(e.conn.tx.q)
            p['ent'][str(w)] = e.num_tasks
            p['eid'][str(w)] = e.num_idle_workers
            p['pc'][str(w)] = 'blocked' if main.why and main.why[0] == 'qget' else 'top'
        return p

    def prepare(self):
        if not self.anchored:
            raise Drift('statement anchor "_ready_task_ids.empty()" missing in Worker._get_next_ready_task')
        self.settle()
        for w in range(self.nw):
            wk, main, inc = self.worker(w)
            if main.why != ('label', 'top'):
                self.run_until(main, lambda t: t.why == ('label', 'top'))
        self.settle()
        self.tserver = self.server_threads()[0]

    def act(self, a, w):
        srv = self.server()
        if a == 'ClientSubmit':
            self.go = True
            if self.cancels:
                self.run_until(self.tclient, lambda t: t.why == ('gatec',))    # SUBMIT sent; the client holds its cancel back
            else:
                self.run_until(self.tclient, lambda t: t.why[0] == 'recv')      # SUBMIT and REQUEST sent, waiting for the result
            cconn = list(srv.clients.keys())[0]
            while cconn.readable() and len(cconn.rx.q) > 0:
                self.net.force_select = cconn
                self.run_until(self.tserver, lambda t: t.why == ('select',))
            self.flush_outgoing()
        elif a == 'ClientCancel':
            # the client's CANCEL is sent and handled (the server forgets the mailbox, broadcasts CANCEL, acknowledges) in one go
            self.go2 = True
            self.run_until(self.tclient, lambda t: t.why[0] == 'recv')
            cconn = list(srv.clients.keys())[0]
            while cconn.readable() and len(cconn.rx.q) > 0:
                self.net.force_select = cconn
                self.run_until(self.tserver, lambda t: t.why == ('select',))
            self.flush_outgoing()
            self.run_until(self.tclient, lambda t: t.why == ('gate2',))
        elif a == 'ServerRecv':
            self.net.force_select = srv.employees[w].conn
            self.run_until(self.tserver, lambda t: t.why == ('select',))
            self.flush_outgoing()
        elif a == 'WorkerIn':
            wk, main, inc = self.worker(w)
            self.run_until(inc, lambda t: t.why[0] == 'recv')
        elif a in ('StepTask', 'StartDelayed'):
            wk, main, inc = self.worker(w)
            self.run_until(main, lambda t: t.why == ('label', 'top'))
        elif a == 'GoIdle':
            wk, main, inc = self.worker(w)
            self.run_until(main, lambda t: t.why[0] == 'qget')
        else:
            raise Drift('unknown action ' + a)

    def finish(self):
        """Release everything and let the run end under a fair scheduler; returns (trace, diag)."""
        from harness import rtprog
        self.k.anchors.clear()
        status = self.k.run(300000)
        settled = 0 in self.run.at_gate
        self.run.snapshot(final=False, settled=settled and status == 'quiescent')
        self.run.gate_open = True
        status = self.k.run(300000)
        self.run.snapshot(final=True, settled=False)
        return self.run.finish(status)


def replay_behaviour(progs, nw, beh, cancels=False):
    """Returns (verdict, index, detail, trace, diag)."""
    r = Replayer(progs, nw, cancels)
    verdict, idx, detail = 'ok', len(beh), ''
    try:
        r.prepare()
        for i, st in enumerate(beh):
            r.act(st['a'], st['w'])
            got = r.proj()
            exp = {k: {str(kk): vv for kk, vv in _as_items(st['p'][k])} for k in got}
            if got != exp:
                diff = {k: (exp[k], got[k]) for k in got if got[k] != exp[k]}
                verdict, idx, detail = 'drift', i, '%s(%s): expected/got %s' % (st['a'], st['w'], json.dumps(diff))
                break
    except Drift as e:
        verdict, idx, detail = 'drift', -1, str(e)
    trace, diag = r.finish()
    return verdict, idx, detail, trace, diag


def _as_items(v):
    # ToJson renders a function with domain 0..n-1 as a JSON list or object depending on the domain
    if isinstance(v, dict):
        return v.items()
    return enumerate(v)


def _replay_job(job):
    progs, nw, beh, cancels = job
    logging.disable(logging.CRITICAL)
    try:
        v, i, d, tr, dg = replay_behaviour(progs, nw, beh, cancels)
        return v, i, d, tr, dg, None
    except Exception:
        import traceback
        return 'error', -1, '', None, None, traceback.format_exc()[-1200:]


def simulate_and_replay(ctx, prop):
    """TLC -simulate on the deterministic-assignment instances -> behaviours -> guided replays."""
    import multiprocessing as mp
    # (a name ending in '+cc': the client cancels at the moment TLC chooses instead of waiting for the result)
    names = {'C07': ['A', 'B', 'N'], 'C15': ['A', 'M4', 'B', 'T1+cc', 'A+cc'], 'C12': ['C', 'L', 'T1+cc']}[prop]
    num = 20 if ctx.quick else 500
    jobs = []
    sim_states = 0
    todo = []
    for name in names:
        cancels = name.endswith('+cc')
        name = name.split('+')[0]
        for nw in (2, 3):
            todo.append((name, nw, cancels))

    def sim_one(item):
        name, nw, cancels = item
        spec, cfg = write_mc(ctx.scratch, 'S%s%d%s' % (name, nw, 'cc' if cancels else ''), PROGS[name], nw, 'det', True, ['Dump'],
                             client_cancels=cancels)
        # (more behaviours where the client cancels: the cancel that crosses the root's RESULT is one moment among ~40)
        return common.tlc(spec, cfg, scratch=ctx.scratch, timeout=600, workers=1, simulate='num=%d' % (num * 4 if cancels else num), depth=300,
                          seed=ctx.seed + 1, cwd=ctx.scratch, heap='2g')
    from concurrent.futures import ThreadPoolExecutor
    with ThreadPoolExecutor(5) as ex:
        sims = list(ex.map(sim_one, todo))
    for (name, nw, cancels), r in zip(todo, sims):
        behs = []
        for v in r.prints:
            if v and v[0] == 'BEHAVIOUR':
                try:
                    behs.append(json.loads(v[1]))
                except Exception:
                    pass
        sim_states += r.states
        seen = set()
        for b in behs:
            h = common.digest(b)
            if h not in seen:
                seen.add(h)
                jobs.append((PROGS[name], nw, b, cancels))
    if not jobs:
        raise common.MachineryError('TLC simulation produced no behaviours to replay')
    cx = mp.get_context('fork')
    rtcheck._init_worker()          # import the tree under test once; the forked workers inherit it
    with cx.Pool(12, initializer=rtcheck._init_worker) as pool:
        res = pool.map(_replay_job, jobs, chunksize=2)
    drift = 0
    first = None
    traces = []
    acts = 0
    errors = [r[5] for r in res if r[5]]
    if len(errors) > len(res) // 10:
        raise common.MachineryError('guided replay failed: %s' % errors[0])
    ncc = 0
    for (progs, nw, beh, cancels), (v, i, d, tr, dg, err) in zip(jobs, res):
        if err:
            continue
        acts += len(beh) if v == 'ok' else max(i, 0)
        if v == 'drift':
            drift += 1
            if first is None:
                first = 'DRIFT property=%s step=%d %s (code and L2 model disagree on a projected state component; not a violation)' % (prop, i, d[:300])
        if cancels and (dg.get('stats') or {}).get('root_result_after_cancel'):
            ncc += 1
        traces.append((tr, dg, {'topo': ['attached', nw], 'progs': progs,
                                'clients': [[['submit', 'H0', 'root'], ['cancel', 'H0']] if cancels else [['submit', 'H0', 'root'], ['result', 'H0']]],
                                'sched': ['replay', dg['picks'], dg['choices']], 'lines': False, 'crash': None, 'probe': False, 'guided': True}))
    cov = {'l2_behaviours_replayed': len(jobs), 'l2_replays_with_cancel_read_before_result_of_finished_root': ncc, 'l2_actions_replayed_with_equal_projection': acts, 'l2_replay_drift': drift,
           'l2_simulated_states': sim_states}
    notes = [first] if first else []
    return cov, traces, notes


def model_check_and_generate(prop, ctx):
    """Returns (coverage dict to merge, extra pre-recorded traces [(trace, diag, scenario)], notes)."""
    cov, notes = exhaustive(ctx, prop)
    cov2, traces, notes2 = simulate_and_replay(ctx, prop)
    cov.update(cov2)
    return cov, traces, notes + notes2


# ------------------------------------------------------------------ ServerClients.tla (C13 / C12 server side)

SC_INVARIANTS = ['NoCrash', 'RepliesConsistent', 'TablesConsistent', 'NoOrphanMailbox', 'NoCancelledResidue', 'NoResidueOfGoneClient',
                 'WaitingIsLive']
SC_MUTANTS = {'skip-ready-on-disconnect': ('TablesConsistent', 'NoOrphanMailbox', 'NoCancelledResidue', 'NoResidueOfGoneClient'),
              'error-needs-mailbox': ('RepliesConsistent',)}


def server_clients(ctx):
    """Exhaustive TLC run of the client-facing server model, then client scripts derived from TLC-simulated behaviours.
    Returns (coverage, scenarios)."""
    from concurrent.futures import ThreadPoolExecutor
    spec = os.path.join(SPEC_DIR, 'ServerClients.tla')
    ids = '{"a", "b"}' if ctx.quick else '{"a", "b", "c"}'
    cfg = os.path.join(ctx.scratch, 'SC_exh.cfg')
    with open(cfg, 'w') as f:
        f.write('SPECIFICATION Spec\nCONSTANTS NC = 2\n IDS = %s\n Record = FALSE\n Mut = "none"\n%sCHECK_DEADLOCK FALSE\n' % (
            ids, ''.join('INVARIANT %s\n' % i for i in SC_INVARIANTS)))

    def mutant(name):
        # the same model with one handler deliberately broken: the invariants must be able to fail
        c = os.path.join(ctx.scratch, 'SC_mut_%s.cfg' % name)
        with open(c, 'w') as f:
            f.write('SPECIFICATION Spec\nCONSTANTS NC = 2\n IDS = {"a", "b"}\n Record = FALSE\n Mut = "%s"\n%sCHECK_DEADLOCK FALSE\n' % (
                name, ''.join('INVARIANT %s\n' % i for i in SC_INVARIANTS)))
        return common.tlc(spec, c, scratch=ctx.scratch, timeout=900, workers=2, heap='2g')
    with ThreadPoolExecutor(3) as ex:
        fut = ex.submit(common.tlc, spec, cfg, scratch=ctx.scratch, timeout=1500, workers=6, coverage=ctx.quick)
        muts = {m: ex.submit(mutant, m) for m in SC_MUTANTS}
        r = fut.result()
        muts = {m: f.result() for m, f in muts.items()}
    if not r.ok:
        m = re.search(r'Invariant (\w+) is violated', r.out)
        raise common.MachineryError('ServerClients.tla: %s' % ('invariant %s violated on the model of the current code' % m.group(1) if m else r.error[:400]))
    if r.coverage:
        acts = {k: v for k, v in r.coverage.items() if k.startswith('Next@')}
        if len(acts) < 8 or any(v == 0 for v in acts.values()):
            raise common.MachineryError('ServerClients.tla: action never taken: %s' % acts)
    killed = {}
    for name, mr in muts.items():
        m = re.search(r'Invariant (\w+) is violated', mr.out)
        if not m or m.group(1) not in SC_MUTANTS[name]:
            raise common.MachineryError('ServerClients.tla: the broken variant "%s" of the model is not rejected by the invariant meant for it '
                                        '(%s)' % (name, m.group(1) if m else mr.error[:300] or 'no invariant failed'))
        killed[name] = m.group(1)
    cov = {'l2_states': r.distinct, 'l2_transitions': r.states, 'l2_server_model': [r.distinct, r.states, r.depth],
           'l2_server_model_broken_variants_rejected_by': killed}
    allscs = simulated_scripts(ctx, 1500 if ctx.quick else 12000)
    # run a bounded number: every behaviour shape the model produces is represented (the rare ones in full), the rest sampled
    cap = 150 if ctx.quick else 3000
    per = {'error-after-delivered-result': cap // 5, 'finished-unclaimed-then-gone': cap // 6, 'error-after-result': cap // 4,
           'error-before-result': cap // 8}       # (what is left of the cap - at least a third - goes to the other behaviours)
    scs, shapes = [], {}
    for sc in sorted(allscs, key=lambda x: 'error-after-delivered-result' not in x['shapes']):
        for sh in sc['shapes']:
            if shapes.get(sh, 0) < per[sh] and sc not in scs:
                scs.append(sc)
                for s2 in sc['shapes']:
                    shapes[s2] = shapes.get(s2, 0) + 1
    for sc in allscs:
        if len(scs) >= cap:
            break
        if not sc['shapes']:
            scs.append(sc)
    cov['l2_behaviours_simulated'] = len(allscs)
    cov['l2_behaviours_as_client_scripts'] = len(scs)
    cov['l2_script_shapes'] = shapes
    return cov, scs


def simulated_scripts(ctx, num, only=None, cap=None):
    """TLC -simulate on ServerClients.tla -> behaviours -> scenarios (client scripts + programs).  `only` = keep the
    behaviours that contain one of these shapes (see script_of_behaviour)."""
    spec = os.path.join(SPEC_DIR, 'ServerClients.tla')
    cfg2 = os.path.join(ctx.scratch, 'SC_sim.cfg')
    with open(cfg2, 'w') as f:
        f.write('SPECIFICATION Spec\nCONSTANTS NC = 2\n IDS = {"a", "b", "c"}\n Record = TRUE\n Mut = "none"\nINVARIANT Dump\nCHECK_DEADLOCK FALSE\n')
    r2 = common.tlc(spec, cfg2, scratch=ctx.scratch, timeout=600, workers=1, simulate='num=%d' % num, depth=10, seed=ctx.seed + 3)
    longest = {}
    for v in r2.prints:
        if v and v[0] == 'BEHAVIOUR':
            try:
                h = json.loads(v[1])
            except Exception:
                continue
            key = json.dumps(h[:6])
            if key not in longest or len(h) > len(longest[key]):
                longest[key] = h
    allscs = [x for x in (script_of_behaviour(h, n, ctx.seed) for n, h in enumerate(longest.values())) if x is not None]
    if only:
        allscs = [x for x in allscs if set(x['shapes']) & set(only)]
    return allscs[:cap] if cap else allscs


def script_of_behaviour(h, n, seed, shapes=None):
    """One TLC behaviour of ServerClients.tla -> client scripts + task programs.
    Client actions become calls.  The compute side's actions decide the task program of each compilation and WHEN the client
    moves on: ResultIn / ErrorIn while the owner is not blocked in result() means the owner's next call comes after that event,
    so the owner lets the system settle first (['settle']); ErrorIn alone = a compilation whose root fails ('bad'), ErrorIn
    after ResultIn = a compilation whose root returns while a child nobody awaits raises ('late').  Every script that does
    not end in a disconnect gets one more request after a final settle: the only place where a late error can surface."""
    shapes = shapes if shapes is not None else {}
    res_seen, req_seen, err_kind, after_delivery = set(), set(), {}, False
    own0 = {e['i']: e['c'] for e in h if e['a'] == 'Submit'}
    for e in h:
        if e['a'] == 'ResultIn':
            res_seen.add(e['i'])
        elif e['a'] == 'Request':
            req_seen.add((e['c'], e['i']))
        elif e['a'] == 'ErrorIn':
            err_kind[e['i']] = 'late' if e['i'] in res_seen else 'bad'
            if e['i'] in res_seen and (own0.get(e['i']), e['i']) in req_seen:
                after_delivery = True
    scripts = {1: [], 2: []}
    owner, blocked, resulted, last = {}, {1: None, 2: None}, set(), {1: 'U', 2: 'U'}
    unclaimed_gone = False
    for e in h:
        c, a, i = e['c'], e['a'], e['i']
        if a == 'Submit':
            owner[i] = c
            last[c] = i
            scripts[c].append(['submit', i, err_kind.get(i, 'root')])
        elif a == 'Request':
            scripts[c].append(['result', i])
            blocked[c] = i if (owner.get(i) == c and i not in resulted) else None
        elif a == 'Status':
            scripts[c].append(['status', i])
        elif a == 'Cancel':
            scripts[c].append(['cancel', i])
        elif a == 'Disconnect':
            if any(owner.get(j) == c and j in resulted and ['result', j] not in scripts[c] for j in resulted):
                unclaimed_gone = True
            scripts[c].append(['close'])
        elif a in ('ResultIn', 'ErrorIn'):
            o = owner.get(i)
            if a == 'ResultIn':
                resulted.add(i)
            if o is None:
                continue
            if blocked[o] == i:
                blocked[o] = None               # the owner's pending result() is answered by this event
            elif scripts[o] and scripts[o][-1] not in (['settle'], ['close']):
                scripts[o].append(['settle'])   # the owner's next call comes after this event
    for c in (1, 2):
        if scripts[c] and scripts[c][-1] != ['close']:
            if scripts[c][-1] != ['settle']:
                scripts[c].append(['settle'])
            scripts[c].append(['status', last[c]])
    clients = [x for x in (scripts[1], scripts[2]) if x]
    if not clients:
        return None
    mine = (['finished-unclaimed-then-gone'] if unclaimed_gone else []) + (['error-after-delivered-result'] if after_delivery else []) + sorted(
        {'error-after-result' if k == 'late' else 'error-before-result' for k in err_kind.values()})
    for nm in mine:
        shapes[nm] = shapes.get(nm, 0) + 1
    pad = [['sleep']] * (3 + n % 9)
    progs = {'root': [['submit', 'x', 'leaf'], ['await', 'x'], ['ret']],
             'bad': [['submit', 'x', 'leaf'], ['await', 'x'], ['raise']],
             'late': [['submit', 'z', 'boom'], ['submit', 'x', 'leaf'], ['await', 'x']] + pad + [['ret']],
             'boom': [['raise']], 'leaf': [['ret']]}
    late = 'late' in err_kind.values()
    sched = ['race', seed * 7 + n, 'root-result', 'task-error'] if late and n % 4 else ['random', seed * 7 + n]
    return {'topo': ['detached', [[2], [1, 1], [1], [2, 1]][n % 4] if late else [[1], [2], [1, 1]][n % 3]], 'progs': progs, 'clients': clients,
            'sched': sched, 'lines': False, 'crash': None, 'probe': True, 'from_tlc': True, 'family': 'tlc-scripts', 'shapes': mine}


# ------------------------------------------------------------------ Shutdown.tla (C14)

def shutdown_model(ctx):
    """TLC: safety + liveness (crash ~> everyone released and down) of the shutdown cascade, flat and managed."""
    spec = os.path.join(SPEC_DIR, 'Shutdown.tla')
    cfgs = [(0, 3, 2, 2), (2, 2, 2, 2)] if ctx.quick else [(0, 3, 2, 2), (0, 4, 3, 2), (2, 2, 2, 2), (3, 2, 2, 2), (2, 3, 2, 3)]
    states = trans = 0
    per = {}
    for nm, nw, ncl, mc in cfgs:
        cfg = os.path.join(ctx.scratch, 'SD_%d_%d.cfg' % (nm, nw))
        with open(cfg, 'w') as f:
            f.write('SPECIFICATION Spec\nCONSTANTS NM = %d\n NW = %d\n NCL = %d\n MaxCrash = %d\nINVARIANT ClientsClosedOnlyWithServer\n'
                    'INVARIANT NoSpontaneousStop\nPROPERTY Released\nCHECK_DEADLOCK FALSE\n' % (nm, nw, ncl, mc))
        r = common.tlc(spec, cfg, scratch=ctx.scratch, timeout=1200, workers=4, heap='4g')
        if not r.ok:
            raise common.MachineryError('Shutdown.tla (NM=%d NW=%d): %s' % (nm, nw, r.error[:400] or r.out[-600:]))
        states += r.distinct
        trans += r.states
        per['%dm x %dw' % (nm, nw)] = [r.distinct, r.states]
    return {'l2_states': states, 'l2_transitions': trans, 'l2_shutdown_model': per}


def node_number(name, topo):
    """sim node name -> Shutdown.tla node number."""
    if name == 'server':
        return 0
    if name.startswith('man'):
        return int(name[3:]) + 1
    if name.startswith('w'):
        wid = int(name[1:])
        if topo[0] == 'attached':
            return 100 + wid + 1
        sizes = topo[1]
        step = (2 ** 30) // len(sizes)
        m = wid // step
        return 100 * (m + 2) + (wid - m * step) + 1
    return -1


def shutdown_conformance(ctx, items):
    """items = [(trace, diag, scenario)] of crash runs. Validates the recorded order of process exits against
    Shutdown.tla (ShutdownTrace.tla).  Returns (coverage, notes): a mismatch is DRIFT between code and L2, not a violation."""
    cases = []
    for tr, dg, sc in items:
        if not sc.get('crash') or sc.get('real'):
            continue
        topo = sc['topo']
        if topo[0] == 'detached' and len(set(topo[1])) > 1:
            continue                      # ShutdownTrace assumes the same number of workers under every manager
        ev = []
        for e in tr['ev']:
            if e['e'] == 'Crash':
                ev.append({'k': 'crash', 'n': node_number(e['node'], topo)})
            elif e['e'] == 'NodeExit':
                ev.append({'k': 'kill' if e.get('how') == 'kill' else 'exit', 'n': node_number(e['node'], topo)})
        if ev:
            cases.append({'nm': 0 if topo[0] == 'attached' else len(topo[1]), 'nw': topo[1] if topo[0] == 'attached' else topo[1][0], 'ev': ev})
    if not cases:
        return {}, []
    v, st, tn, _ = common.batch_validate(os.path.join(SPEC_DIR, 'ShutdownTrace.tla'), os.path.join(SPEC_DIR, 'ShutdownTrace.cfg'),
                                         cases, ctx.scratch, chunk=2000)
    notes = []
    if v:
        idx, step, clause, _ = v[0]
        notes.append('DRIFT property=C14 %d of %d crash runs end their processes in an order Shutdown.tla does not allow (first: %s at event %d of %s); '
                     'code and L2 model disagree, not a violation' % (len(v), len(cases), clause, step, json.dumps(cases[idx])[:300]))
    return {'l2_shutdown_traces_checked': len(cases), 'l2_shutdown_trace_drift': len(v), 'l2_trace_states': st}, notes


# ------------------------------------------------------------------ Managed.tla (C15, managed topologies)

def managed_model(ctx):
    """TLC exhaustive: counters in bounds, receipts always found, tasks placed once, compilation completes."""
    spec = os.path.join(SPEC_DIR, 'Managed.tla')
    cfgs = [(2, 1, 2, 1)] if ctx.quick else [(2, 1, 2, 1), (2, 1, 3, 2), (2, 2, 3, 0), (3, 1, 3, 1)]
    states = trans = 0
    per = {}
    for nm, nw, k1, k2 in cfgs:
        cfg = os.path.join(ctx.scratch, 'MG_%d_%d_%d_%d.cfg' % (nm, nw, k1, k2))
        with open(cfg, 'w') as f:
            f.write('SPECIFICATION Spec\nCONSTANTS NM = %d\n NW = %d\n K1 = %d\n K2 = %d\n' % (nm, nw, k1, k2)
                    + ''.join('INVARIANT %s\n' % i for i in ('NoError', 'ServerCountersInBounds', 'ManagerCountersInBounds', 'PlacedOnce', 'Completes'))
                    + 'CHECK_DEADLOCK FALSE\n')
        r = common.tlc(spec, cfg, scratch=ctx.scratch, timeout=3000, workers=8, heap='8g')
        if not r.ok:
            m = re.search(r'Invariant (\w+) is violated', r.out)
            raise common.MachineryError('Managed.tla (%s): %s' % ((nm, nw, k1, k2), 'invariant %s violated on the model of the current code' % m.group(1) if m else r.error[:400]))
        states += r.distinct
        trans += r.states
        per['%dm x %dw, map %d then %d' % (nm, nw, k1, k2)] = [r.distinct, r.states, r.depth]
    return {'l2_managed_states': states, 'l2_managed_transitions': trans, 'l2_managed_configs': per}
