"""Recorder / driver shared by C04, C05 (and the circuit part of C16).

* builds real bqskit objects from the call records the TLA+ specifications use (CircuitOps.tla),
* executes one public editing call on a real ``Circuit``,
* projects the circuit through its public read API only (``snap`` / ``views``),
* drives long seeded random histories and replays CircuitRef (TLC) transitions,
* hands the recordings to TLC (specs/circuit/CircuitAbs.tla) and maps VERDICT lines to Violations.

No verdict is computed here.
"""
from __future__ import annotations

import json
import os
import random

from harness import common
from harness.common import MachineryError, Violation

SPEC_REF = os.path.join(common.SPECS, 'circuit', 'CircuitRef.tla')
SPEC_ABS = os.path.join(common.SPECS, 'circuit', 'CircuitAbs.tla')
CFG_ABS = os.path.join(common.SPECS, 'circuit', 'CircuitAbs.cfg')
BARBASE = 900000
UNTAGGED = 800000
NOOP = {'tag': 0, 'kind': 'none', 'loc': [], 'np': 0, 'rad': [], 'body': []}
EMPTYX = {'nq': 0, 'radix': [], 'grid': [], 'ops': []}

ALL_CALLS = ['append', 'append_gate', 'extend', 'append_circuit', 'insert', 'insert_gate', 'insert_circuit', 'pop', 'pop_last',
             'batch_pop', 'remove', 'remove_all', 'replace', 'replace_gate', 'batch_replace', 'replace_with_circuit',
             'pop_cycle', 'append_qudit', 'extend_qudits', 'insert_qudit', 'pop_qudit', 'renumber', 'fold', 'straighten',
             'unfold', 'batch_unfold', 'unfold_all', 'compress', 'copy', 'clear', 'inverse', 'set_params', 'become',
             'add', 'iadd', 'mul', 'imul']


def mkcall(name, **kw):
    c = {'name': name, 'ci': 0, 'q': 0, 'op': NOOP, 'ops': [], 'sub': EMPTYX, 'loc': [], 'asblock': False,
         'points': [], 'perm': [], 'radixes': [], 'region': [], 'k': 0, 'via': 'op'}
    c.update(kw)
    return c


# ------------------------------------------------------------------ building real objects from records

_base_cache: dict = {}


def base_gate(rad, param):
    """A gate on qudits of the given radixes that is not its own inverse (constant: a diagonal of generic phases)."""
    import numpy as np
    from bqskit.ir.gates import ConstantUnitaryGate, U1Gate, U3Gate, RZZGate, VariableUnitaryGate
    key = (tuple(rad), bool(param))
    if key not in _base_cache:
        if param:
            if tuple(rad) == (2,):
                g = U1Gate()
            elif tuple(rad) == (2, 2):
                g = RZZGate()
            else:
                g = VariableUnitaryGate(len(rad), list(rad))
        else:
            dim = int(np.prod(rad))
            g = ConstantUnitaryGate(np.diag(np.exp(1j * 0.37 * (1 + np.arange(dim)))), list(rad))
        _base_cache[key] = g
    return _base_cache[key]


def params_for(tag, n):
    return [round(0.001 * abs(tag) + 0.01 * i, 6) for i in range(n)]


def mk_gate(rec):
    from bqskit.ir.gates import BarrierPlaceholder, CircuitGate, TaggedGate
    if rec['kind'] == 'barrier':
        return BarrierPlaceholder(len(rec['rad']), list(rec['rad']))
    if rec['kind'] == 'block':
        return CircuitGate(mk_circuit_from_ops(len(rec['rad']), rec['rad'], rec['body']), True)
    if rec['kind'] == 'iblock':
        from bqskit.ir.gates import DaggerGate
        return DaggerGate(CircuitGate(mk_circuit_from_ops(len(rec['rad']), rec['rad'], inv_body(rec['body'])), True))
    t = rec['tag']
    g = TaggedGate(base_gate(rec['rad'], rec['np'] > 0), abs(t))
    return g.get_inverse() if t < 0 else g


def inv_body(body):
    """Inverse of a block body as records (mirror of InvOp in CircuitOps.tla; only used to build arguments)."""
    out = []
    for b in reversed(body):
        b = dict(b)
        if b['kind'] in ('block', 'iblock'):
            b['body'] = inv_body(b['body'])
            b['kind'] = 'iblock' if b['kind'] == 'block' else 'block'
        elif b['kind'] == 'gate':
            b['tag'] = -b['tag']
        out.append(b)
    return out


def gate_params(rec):
    if rec['kind'] in ('block', 'iblock'):
        # an inverse block is DaggerGate(CircuitGate(inner)) and carries the INNER circuit's parameters, in the inner order
        out = []
        for b in (inv_body(rec['body']) if rec['kind'] == 'iblock' else rec['body']):
            out += gate_params(b)
        return out
    if rec['kind'] == 'barrier':
        return []
    return params_for(rec['tag'], mk_gate(rec).num_params)


def mk_op(rec):
    from bqskit.ir.operation import Operation
    return Operation(mk_gate(rec), list(rec['loc']), gate_params(rec))


def mk_circuit_from_ops(nq, radix, recs):
    from bqskit.ir.circuit import Circuit
    c = Circuit(nq, list(radix))
    for r in recs:
        c.append(mk_op(r))
    return c


def mk_circuit(X):
    """A real circuit for a snapshot whose layout is as-early-as-possible (all sub-circuit arguments are)."""
    recs = []
    for row in X['grid']:
        seen = set()
        for i in row:
            if i and i not in seen:
                seen.add(i)
                recs.append(X['ops'][i - 1])
    return mk_circuit_from_ops(X['nq'], X['radix'], recs)


# ------------------------------------------------------------------ projection through the public read API

_proj_cache: dict = {}


def proj_gate(g, inv=False):
    from bqskit.ir.gates import BarrierPlaceholder, CircuitGate, DaggerGate, TaggedGate
    key = (id(g), inv)
    hit = _proj_cache.get(key)
    if hit is not None and hit[0] is g:
        return hit[1]
    if isinstance(g, DaggerGate):
        r = proj_gate(g.gate, not inv)
    elif isinstance(g, TaggedGate) and isinstance(g.tag, int):
        r = {'tag': -g.tag if inv else g.tag, 'kind': 'gate', 'np': int(g.num_params), 'rad': [int(x) for x in g.radixes], 'body': []}
    elif isinstance(g, BarrierPlaceholder):
        r = {'tag': BARBASE + g.num_qudits, 'kind': 'barrier', 'np': 0, 'rad': [int(x) for x in g.radixes], 'body': []}
    elif isinstance(g, CircuitGate):
        body = [proj_op(op, inv) for op in g._circuit]
        if inv:
            body.reverse()
        r = {'tag': 0, 'kind': 'iblock' if inv else 'block', 'np': int(g.num_params), 'rad': [int(x) for x in g.radixes], 'body': body}
    else:
        r = {'tag': UNTAGGED + g.num_qudits, 'kind': 'gate', 'np': int(g.num_params), 'rad': [int(x) for x in g.radixes], 'body': []}
    if len(_proj_cache) > 200000:
        _proj_cache.clear()
    _proj_cache[key] = (g, r)
    return r


def proj_op(op, inv=False):
    r = dict(proj_gate(op.gate, inv))
    r['loc'] = [int(q) for q in op.location]
    return r


def snap(c):
    """The grid view: what ``c[cycle, qudit]`` returns for every cell."""
    nq = c.num_qudits
    ops, grid = [], []
    for cy in range(c.num_cycles):
        row, seen = [], {}
        for q in range(nq):
            if c.is_point_idle((cy, q)):
                row.append(0)
                continue
            rec = proj_op(c[cy, q])
            key = json.dumps(rec, sort_keys=True)
            if key not in seen:
                ops.append(rec)
                seen[key] = len(ops)
            row.append(seen[key])
        grid.append(row)
    return {'nq': nq, 'radix': [int(r) for r in c.radixes], 'grid': grid, 'ops': ops}


EMPTY_VIEWS = {'verr': '', 'num_operations': 0, 'num_cycles': 0, 'num_params': 0, 'depth': 0, 'active': [], 'edges': [],
               'gate_counts': [], 'dag': [], 'front': [], 'rear': [], 'first_on': [], 'last_on': [], 'iter': []}


def views(c):
    """Every other public view of the circuit (dependency view, counters, iteration)."""
    v = dict(EMPTY_VIEWS)
    nq = c.num_qudits

    def pt(p):
        return [] if p is None else [int(p[0]), int(p[1])]
    try:
        step = 'num_operations'
        v['num_operations'] = int(c.num_operations)
        step = 'num_cycles'
        v['num_cycles'] = int(c.num_cycles)
        step = 'num_params'
        v['num_params'] = int(c.num_params)
        step = 'iteration'
        it = [(int(cy), op) for cy, op in c.operations_with_cycles()]
        v['iter'] = [[cy, int(op.location[0])] for cy, op in it]
        step = 'next/prev'
        v['dag'] = [{'c': cy, 'q': int(op.location[0]),
                     'next': sorted(pt(p) for p in c.next((cy, op.location[0]))),
                     'prev': sorted(pt(p) for p in c.prev((cy, op.location[0])))} for cy, op in it]
        step = 'front/rear'
        v['front'] = sorted(pt(p) for p in c.front)
        v['rear'] = sorted(pt(p) for p in c.rear)
        step = 'first_on/last_on'
        v['first_on'] = [pt(c.first_on(q)) for q in range(nq)]
        v['last_on'] = [pt(c.last_on(q)) for q in range(nq)]
        step = 'gate_counts'
        gc = []
        for g, n in c.gate_counts.items():
            r = dict(proj_gate(g))
            r['loc'] = list(range(g.num_qudits))
            gc.append({'g': r, 'n': int(n)})
        v['gate_counts'] = gc
        step = 'coupling_graph'
        v['edges'] = sorted([int(min(e)), int(max(e))] for e in c.coupling_graph)
        step = 'active_qudits'
        v['active'] = [int(q) for q in c.active_qudits]
        step = 'depth'
        v['depth'] = int(c.depth)
    except Exception as e:       # a read accessor failing is itself an observation (clause view-raised)
        v['verr'] = '%s: %s: %s' % (step, type(e).__name__, e)
    return v


# ------------------------------------------------------------------ executing one call

def exec_call(c, call):
    """Execute ``call`` on circuit ``c``; returns the circuit the history continues with."""
    from bqskit.ir.circuit import Circuit  # noqa
    n = call['name']
    pt = (call['ci'], call['q'])
    if n == 'append':
        c.append(mk_op(call['op']))
    elif n == 'append_gate':
        c.append_gate(mk_gate(call['op']), list(call['op']['loc']), gate_params(call['op']))
    elif n == 'extend':
        c.extend([mk_op(o) for o in call['ops']])
    elif n == 'append_circuit':
        c.append_circuit(mk_circuit(call['sub']), list(call['loc']), call['asblock'])
    elif n == 'insert':
        c.insert(call['ci'], mk_op(call['op']))
    elif n == 'insert_gate':
        c.insert_gate(call['ci'], mk_gate(call['op']), list(call['op']['loc']), gate_params(call['op']))
    elif n == 'insert_circuit':
        c.insert_circuit(call['ci'], mk_circuit(call['sub']), list(call['loc']), call['asblock'])
    elif n == 'pop':
        c.pop(pt)
    elif n == 'pop_last':
        c.pop()
    elif n == 'batch_pop':
        c.batch_pop([tuple(p) for p in call['points']])
    elif n in ('remove', 'remove_all'):
        what = mk_gate(call['op']) if call['via'] == 'gate' else mk_op(call['op'])
        (c.remove if n == 'remove' else c.remove_all)(what)
    elif n == 'replace':
        c.replace(pt, mk_op(call['op']))
    elif n == 'replace_gate':
        c.replace_gate(pt, mk_gate(call['op']), list(call['op']['loc']), gate_params(call['op']))
    elif n == 'batch_replace':
        c.batch_replace([tuple(p) for p in call['points']], [mk_op(o) for o in call['ops']])
    elif n == 'replace_with_circuit':
        c.replace_with_circuit(pt, mk_circuit(call['sub']), call['asblock'])
    elif n == 'pop_cycle':
        c.pop_cycle(call['ci'])
    elif n == 'append_qudit':
        c.append_qudit(call['k'])
    elif n == 'extend_qudits':
        c.extend_qudits(list(call['radixes']))
    elif n == 'insert_qudit':
        c.insert_qudit(call['q'], call['k'])
    elif n == 'pop_qudit':
        c.pop_qudit(call['q'])
    elif n == 'renumber':
        c.renumber_qudits(list(call['perm']))
    elif n == 'fold':
        c.fold({r[0]: (r[1], r[2]) for r in call['region']})
    elif n == 'straighten':
        c.straighten({r[0]: (r[1], r[2]) for r in call['region']})
    elif n == 'unfold':
        c.unfold(pt)
    elif n == 'batch_unfold':
        c.batch_unfold([tuple(p) for p in call['points']])
    elif n == 'unfold_all':
        c.unfold_all()
    elif n == 'compress':
        c.compress()
    elif n == 'copy':
        return c.copy()
    elif n == 'clear':
        c.clear()
    elif n == 'inverse':
        return c.get_inverse()
    elif n == 'set_params':
        p = list(c.params)
        c.set_params(p if call['k'] == len(p) else [0.0] * call['k'])
    elif n == 'become':
        c.become(mk_circuit(call['sub']))
    elif n == 'add':
        return c + mk_circuit(call['sub'])
    elif n == 'iadd':
        c.__iadd__(mk_circuit(call['sub']))
    elif n == 'mul':
        return c * call['k']
    elif n == 'imul':
        c.__imul__(call['k'])
    else:
        raise MachineryError('unknown call %r' % n)
    return c


def run_history(nq, radix, calls, drift=False, judge_from=0):
    """Execute ``calls`` from the empty circuit; record a step (before, after, views, exception) for every call
    from index ``judge_from`` on.  The history stops at the first exception outside the documented family
    (the object may be half-updated after an internal error)."""
    import warnings
    warnings.filterwarnings('ignore')
    from bqskit.ir.circuit import Circuit
    c = Circuit(nq, list(radix))
    snaps, steps = [], []
    cur = None
    for i, call in enumerate(calls):
        rec = i >= judge_from
        if rec and cur is None:
            snaps.append(snap(c))
            cur = len(snaps)
        exc = ''
        try:
            c2 = exec_call(c, call)
        except MachineryError:
            raise
        except Exception as e:
            exc = type(e).__name__
            c2 = c
        if not rec and not exc:
            c = c2
            continue
        if not rec:             # a prefix call of a replayed path failed: judge it where it happened
            snaps.append(snap(c))   # (state after the failure; the before-state is not available any more)
            steps.append({'call': call, 'b': len(snaps), 'a': len(snaps), 'exc': exc, 'views': views(c), 'prefix': True})
            break
        c = c2
        snaps.append(snap(c))
        steps.append({'call': call, 'b': cur, 'a': len(snaps), 'exc': exc, 'views': views(c), 'prefix': False})
        cur = len(snaps)
        if exc and exc not in ('ValueError', 'IndexError', 'TypeError'):
            break
    return {'drift': drift, 'nq0': nq, 'radix0': list(radix), 'snaps': snaps, 'steps': steps,
            'prefix_calls': [x['name'] for x in calls[:judge_from]], 'prefix_calls_full': list(calls[:judge_from])}, c


# ------------------------------------------------------------------ random histories

class Gen:
    """Seeded generator of calls (valid and invalid arguments) against the current snapshot."""

    def __init__(self, rng, alphabet, max_q=7, radix_pool=(2, 2, 3, 4)):
        self.rng = rng
        self.alphabet = list(alphabet)
        self.tag = 0
        self.max_q = max_q
        self.radix_pool = radix_pool

    def fresh(self):
        self.tag += 1
        return self.tag

    def new_op(self, X, width=None, loc=None, allow_barrier=True):
        rng = self.rng
        nq = X['nq']
        if loc is None:
            w = width or rng.choice([1, 1, 2, 2, 3])
            w = min(w, nq)
            loc = rng.sample(range(nq), w)
        rad = [X['radix'][q] for q in loc]
        if allow_barrier and rng.random() < 0.08:
            loc = sorted(loc)
            return {'tag': BARBASE + len(loc), 'kind': 'barrier', 'loc': loc, 'np': 0, 'rad': [X['radix'][q] for q in loc], 'body': []}
        par = len(loc) <= 2 and rng.random() < 0.4 and (all(r == 2 for r in rad) or len(loc) == 1)
        rec = {'tag': self.fresh(), 'kind': 'gate', 'loc': loc, 'np': 0, 'rad': rad, 'body': []}
        rec['np'] = 1 if par else 0
        rec['np'] = int(mk_gate(rec).num_params)
        return rec

    def sub(self, rad, maxops=4):
        """A small real sub-circuit over the given radixes, returned as its snapshot (as-early-as-possible layout)."""
        X = {'nq': len(rad), 'radix': list(rad), 'grid': [], 'ops': []}
        recs = [self.new_op(X, allow_barrier=False) for _ in range(self.rng.randint(0, maxops))]
        if recs and self.rng.random() < 0.2 and len(rad) >= 1:      # a nested block inside the argument
            inner = recs[-1]
            blk = {'tag': 0, 'kind': 'block', 'loc': sorted(inner['loc']), 'np': inner['np'],
                   'rad': [rad[q] for q in sorted(inner['loc'])], 'body': [dict(inner, loc=[sorted(inner['loc']).index(q) for q in inner['loc']])]}
            recs[-1] = blk
        return snap(mk_circuit_from_ops(len(rad), rad, recs))

    def occupied(self, X):
        return [(cy, q) for cy, row in enumerate(X['grid']) for q, i in enumerate(row) if i]

    def idle(self, X):
        return [(cy, q) for cy, row in enumerate(X['grid']) for q, i in enumerate(row) if not i]

    def op_points(self, X, kind=None):
        out = []
        for cy, row in enumerate(X['grid']):
            seen = set()
            for i in row:
                if i and i not in seen:
                    seen.add(i)
                    o = X['ops'][i - 1]
                    if kind is None or o['kind'] == kind:
                        out.append((cy, o))
        return out

    def neg(self, X, p):
        """Sometimes spell a point with negative indices."""
        if self.rng.random() < 0.15:
            return (p[0] - len(X['grid']), p[1] - X['nq'])
        return p

    def region_of(self, X, picked):
        reg = {}
        for cy, o in picked:
            for q in o['loc']:
                lo, hi = reg.get(q, (cy, cy))
                reg[q] = (min(lo, cy), max(hi, cy))
        return [[q, lo, hi] for q, (lo, hi) in sorted(reg.items())]

    def gen(self, X):
        """One call record; None if the chosen call has no sensible argument in this state."""
        rng = self.rng
        nq, n = X['nq'], len(X['grid'])
        name = rng.choice(self.alphabet)
        bad = rng.random() < 0.12          # try an invalid argument
        occ = self.occupied(X)
        if name in ('append', 'append_gate', 'insert', 'insert_gate'):
            op = self.new_op(X)
            if bad:
                k = rng.random()
                if k < 0.5:
                    op['loc'] = op['loc'][:-1] + [nq + rng.randint(0, 2)]           # out-of-range qudit
                else:
                    op['rad'] = [r + 1 if r < 4 else 2 for r in op['rad']]           # radix mismatch
                    op['np'] = 0
            return mkcall(name, op=op, ci=rng.randint(-n - 2, n + 1))
        if name == 'extend':
            return mkcall(name, ops=[self.new_op(X) for _ in range(rng.randint(0, 3))])
        if name in ('append_circuit', 'insert_circuit'):
            w = rng.randint(1, min(3, nq))
            loc = rng.sample(range(nq), w)
            rad = [X['radix'][q] for q in loc]
            if bad:
                loc = loc + [q for q in range(nq) if q not in loc][:1] if w < nq else loc[:-1]      # size mismatch
                if not loc:
                    return None
            return mkcall(name, sub=self.sub(rad), loc=loc, asblock=rng.random() < 0.4, ci=rng.randint(-n - 2, n + 1))
        if name == 'pop':
            if bad:
                cand = self.idle(X) + [(n + rng.randint(0, 1), rng.randrange(nq)), (rng.randint(0, max(n - 1, 0)), nq)]
                p = rng.choice(cand)
            elif occ:
                p = self.neg(X, rng.choice(occ))
            else:
                return None
            return mkcall(name, ci=p[0], q=p[1])
        if name == 'pop_last':
            return mkcall(name)
        if name == 'batch_pop':
            if bad:
                pts = [rng.choice(self.idle(X))] if self.idle(X) and rng.random() < 0.5 else [(n, 0)]
            elif occ:
                pts = rng.sample(occ, min(len(occ), rng.randint(1, 4)))
                if self.idle(X) and rng.random() < 0.3:
                    pts.append(rng.choice(self.idle(X)))
            else:
                return None
            return mkcall(name, points=[list(p) for p in pts])
        if name in ('remove', 'remove_all'):
            ops = self.op_points(X)
            ops = [x for x in ops if x[1]['kind'] in ('gate', 'barrier')]      # a block operand would have to carry the
            if bad or not ops:                                                 # block's current inner parameters
                op = self.new_op(X, allow_barrier=False)          # not in the circuit
            else:
                op = rng.choice(ops)[1]
            return mkcall(name, op=op, via=rng.choice(['op', 'gate']))
        if name in ('replace', 'replace_gate'):
            if not occ:
                return None
            p = rng.choice(occ)
            old = X['ops'][X['grid'][p[0]][p[1]] - 1]
            r = rng.random()
            if bad:
                others = [q for q in range(nq) if q not in old['loc']]
                if others and rng.random() < 0.6:
                    new = self.new_op(X, loc=rng.sample(others, min(len(others), rng.randint(1, 2))), allow_barrier=False)   # disjoint
                    return mkcall(name, ci=p[0], q=p[1], op=new)
                idle = self.idle(X)
                if not idle:
                    return None
                p = rng.choice(idle)
                return mkcall(name, ci=p[0], q=p[1], op=self.new_op(X, loc=[p[1]], allow_barrier=False))
            if r < 0.5:
                loc = list(old['loc'])
                rng.shuffle(loc)
            else:
                others = [q for q in range(nq) if q not in old['loc']]
                keep = [p[1]] + [q for q in old['loc'] if q != p[1] and rng.random() < 0.5]
                loc = keep + rng.sample(others, min(len(others), rng.randint(0, 2)))
                loc = loc[:3]
                rng.shuffle(loc)
            p = self.neg(X, p)
            return mkcall(name, ci=p[0], q=p[1], op=self.new_op(X, loc=loc, allow_barrier=False))
        if name == 'batch_replace':
            ops = self.op_points(X)
            if not ops:
                return None
            pick = rng.sample(ops, min(len(ops), rng.randint(1, 3)))
            pts, new = [], []
            for cy, o in pick:
                loc = list(o['loc'])
                rng.shuffle(loc)
                pts.append([cy, rng.choice(o['loc'])])
                new.append(self.new_op(X, loc=loc, allow_barrier=False))
            if bad:
                new = new[:-1]
            return mkcall(name, points=pts, ops=new)
        if name == 'replace_with_circuit':
            if not occ:
                return None
            p = rng.choice(occ)
            old = X['ops'][X['grid'][p[0]][p[1]] - 1]
            rad = list(old['rad'])
            if bad:
                rad = rad + [2]
            p = self.neg(X, p)
            return mkcall(name, ci=p[0], q=p[1], sub=self.sub(rad), asblock=rng.random() < 0.3)
        if name == 'pop_cycle':
            if bad or n == 0:
                return mkcall(name, ci=rng.choice([n, n + 1, -n - 1]))
            return mkcall(name, ci=rng.randint(-n, n - 1))
        if name == 'append_qudit':
            if nq >= self.max_q and not bad:
                return None
            return mkcall(name, k=rng.choice([0, 1]) if bad else rng.choice(self.radix_pool))
        if name == 'extend_qudits':
            k = rng.randint(0, 2)
            if nq + k > self.max_q:
                return None
            return mkcall(name, radixes=[rng.choice(self.radix_pool) for _ in range(k)])
        if name == 'insert_qudit':
            if nq >= self.max_q and not bad:
                return None
            return mkcall(name, q=rng.randint(-nq - 1, nq + 1), k=1 if bad else rng.choice(self.radix_pool))
        if name == 'pop_qudit':
            if bad:
                return mkcall(name, q=rng.choice([nq, -nq - 1]))
            if nq < 2:
                return None
            return mkcall(name, q=rng.randint(-nq, nq - 1))
        if name == 'renumber':
            perm = list(range(nq))
            rng.shuffle(perm)
            if not bad and rng.random() < 0.7:       # mostly permutations that keep every qudit's radix
                perm = list(range(nq))
                for r in set(X['radix']):
                    idx = [q for q in range(nq) if X['radix'][q] == r]
                    img = idx[:]
                    rng.shuffle(img)
                    for a, b in zip(idx, img):
                        perm[a] = b
            if bad:
                perm = perm[:-1] if rng.random() < 0.5 or nq < 2 else [perm[0]] + perm[:-1]
            return mkcall(name, perm=perm)
        if name in ('fold', 'straighten'):
            ops = self.op_points(X)
            if not ops:
                return mkcall(name, region=[])
            r = rng.random()
            if r < 0.15:                                           # a raw rectangle
                qs = rng.sample(range(nq), rng.randint(1, min(3, nq)))
                lo = rng.randrange(n)
                hi = rng.randint(lo, min(n - 1, lo + 3))
                if bad:
                    hi = n + 1
                return mkcall(name, region=[[q, lo, hi] for q in sorted(qs)])
            # grow a set of operations from a seed along shared qudits, at most 3 qudits wide
            seed = rng.choice(ops)
            picked = [seed]
            qs = set(seed[1]['loc'])
            for _ in range(rng.randint(0, 5)):
                near = [(cy, o) for cy, o in ops if (cy, o) not in picked and set(o['loc']) & qs
                        and len(qs | set(o['loc'])) <= 3 and any(abs(cy - c2) <= 2 for c2, _ in picked)]
                if not near:
                    break
                nxt = rng.choice(near)
                picked.append(nxt)
                qs |= set(nxt[1]['loc'])
            return mkcall(name, region=self.region_of(X, picked))
        if name == 'unfold':
            blocks = self.op_points(X, 'block')
            if bad:
                gates = self.op_points(X, 'gate')
                if not gates:
                    return None
                cy, o = rng.choice(gates)
            elif blocks:
                cy, o = rng.choice(blocks)
            else:
                return None
            p = self.neg(X, (cy, rng.choice(o['loc'])))
            return mkcall(name, ci=p[0], q=p[1])
        if name == 'batch_unfold':
            blocks = self.op_points(X, 'block')
            if not blocks:
                return None
            pick = rng.sample(blocks, min(len(blocks), rng.randint(1, 3)))
            return mkcall(name, points=[[cy, rng.choice(o['loc'])] for cy, o in pick])
        if name in ('unfold_all', 'compress', 'copy', 'inverse'):
            return mkcall(name)
        if name == 'clear':
            return mkcall(name) if rng.random() < 0.3 else None
        if name == 'set_params':
            return mkcall(name, k=sum(o['np'] for _, o in self.op_points(X)) + (1 if bad else 0))
        if name in ('become', 'add', 'iadd'):
            if name == 'become' and rng.random() < 0.7:
                return None
            return mkcall(name, sub=self.sub(X['radix'], maxops=5))
        if name in ('mul', 'imul'):
            if len(self.op_points(X)) > 12:
                return None
            return mkcall(name, k=rng.randint(1, 2))
        return None


def random_history(seed, ncalls, alphabet, max_q=7):
    """Generate and execute one history; returns (recorded history, list of calls)."""
    import warnings
    warnings.filterwarnings('ignore')
    from bqskit.ir.circuit import Circuit
    rng = random.Random(seed)
    nq = rng.choice([2, 3, 3, 4, 4, 5, 6, 7])
    nq = min(nq, max_q)
    radix = [rng.choice([2, 2, 2, 3, 4]) for _ in range(nq)]
    g = Gen(rng, alphabet, max_q=max_q)
    c = Circuit(nq, radix)
    snaps = [snap(c)]
    steps, calls = [], []
    cur = 1
    tries = 0
    while len(steps) < ncalls and tries < ncalls * 6:
        tries += 1
        X = snaps[cur - 1]
        if sum(len(r) for r in X['grid']) > 600:          # keep circuits moderate: bias towards removal
            call = mkcall('pop_last')
        else:
            call = g.gen(X)
        if call is None:
            continue
        exc = ''
        try:
            c2 = exec_call(c, call)
        except MachineryError:
            raise
        except Exception as e:
            exc = type(e).__name__
            c2 = c
        c = c2
        snaps.append(snap(c))
        steps.append({'call': call, 'b': cur, 'a': len(snaps), 'exc': exc, 'views': views(c), 'prefix': False})
        calls.append(call)
        cur = len(snaps)
        if exc and exc not in ('ValueError', 'IndexError', 'TypeError'):
            break
    return {'drift': False, 'nq0': nq, 'radix0': radix, 'snaps': snaps, 'steps': steps, 'seed': seed}, calls


def _rand_worker(args):
    common.use_repo()
    seed, ncalls, alphabet, max_q = args
    h, _ = random_history(seed, ncalls, alphabet, max_q)
    return h


def _replay_worker(args):
    common.use_repo()
    out = []
    for nq, radix, calls in args:
        h, _ = run_history(nq, radix, calls, drift=True, judge_from=len(calls) - 1)
        out.append(h)
    return out


def parallel(fn, jobs, procs=14, seq=False):
    import multiprocessing as mp
    if len(jobs) <= 2 or seq:
        return [fn(j) for j in jobs]
    ctx = mp.get_context('fork')
    with ctx.Pool(min(procs, len(jobs))) as pool:
        return pool.map(fn, jobs, chunksize=max(1, len(jobs) // (procs * 4)))


# ------------------------------------------------------------------ CircuitRef: model checking and edge replay

ALL_ACTS = ALL_CALLS


def write_ref_cfg(path, **k):
    d = dict(InitQ=2, MinQ=2, MaxQ=3, MaxLive=2, MaxArity=2, MaxSub=2, MaxNest=2, Radixes='{2, 3}', AllVariants='TRUE',
             MaxDepth=3, Emit='FALSE', Acts=ALL_ACTS)
    d.update(k)
    acts = '{' + ', '.join('"%s"' % a for a in d.pop('Acts')) + '}'
    with open(path, 'w') as f:
        f.write('SPECIFICATION Spec\nCONSTANTS\n' + ''.join(' %s = %s\n' % kv for kv in d.items()) + ' Acts = %s\n' % acts +
                'CONSTRAINT Bound\nVIEW View\nINVARIANT NoEmptyCycle\nINVARIANT OpsAtLoc\nINVARIANT RadixOK\nINVARIANT Sanity\n'
                'PROPERTY ActionProperty\nCHECK_DEADLOCK FALSE\n')


def parse_edges(out):
    """EDGE lines printed by CircuitRef: (pre, call, post) as JSON strings inside a TLA+ tuple (calls stay undecoded)."""
    edges = []
    for line in out.splitlines():
        if not line.startswith('<<"EDGE", '):
            continue
        try:
            arr = json.loads('[' + line.rstrip()[2:-2] + ']')
            edges.append((arr[1], arr[2], arr[3]))
        except (ValueError, IndexError):
            raise MachineryError('unparsable EDGE line: %r' % line[:200])
    return edges


def model_check(cfg_kwargs, scratch, emit, timeout=900, simulate=None, depth=None, seed=None):
    cfg = os.path.join(scratch, 'ref-%s.cfg' % common.digest(cfg_kwargs))
    kw = dict(cfg_kwargs)
    kw['Emit'] = 'TRUE' if emit else 'FALSE'
    write_ref_cfg(cfg, **kw)
    userfile = cfg + '.edges'
    r = common.tlc(SPEC_REF, cfg, coverage=True, timeout=timeout, scratch=scratch,
                   extra=['-userFile', userfile] if emit else None)
    if not r.ok:
        raise MachineryError('CircuitRef model checking failed (%s): %s' % (cfg_kwargs, r.error or r.out[-1500:]))
    edges = []
    if emit:
        with open(userfile) as f:
            edges = parse_edges(f.read())
        os.unlink(userfile)
    return r, edges


def edge_paths(edges, init_key):
    """Shortest call path from the initial circuit to the source of every emitted transition."""
    from collections import deque
    succ = {}
    for pre, call, post in edges:
        succ.setdefault(pre, []).append((call, post))
    path = {init_key: []}
    dq = deque([init_key])
    while dq:
        s = dq.popleft()
        for call, t in succ.get(s, ()):
            if t not in path:
                path[t] = path[s] + [call]
                dq.append(t)
    return path


# ------------------------------------------------------------------ validation

def validate(histories, scratch, prop, chunk=None):
    """Run CircuitAbs over the histories; returns (violations for ``prop``, drift records, states, transitions).
    Histories are grouped so that one TLC run judges about 2500 steps (short edge replays by the thousand, long
    random histories by the dozen)."""
    viol, drifts = [], []
    states = trans = 0
    groups, cur, n = [], [], 0
    for i, h in enumerate(histories):
        cur.append(i)
        n += max(1, len(h['steps']))
        if n >= 2500 or (chunk and len(cur) >= chunk):
            groups.append(cur)
            cur, n = [], 0
    if cur:
        groups.append(cur)
    for g in groups:
        cases = [{'drift': histories[i]['drift'], 'snaps': histories[i]['snaps'], 'steps': [
            {'call': s['call'], 'b': s['b'], 'a': s['a'], 'exc': s['exc'], 'views': s['views']} for s in histories[i]['steps']]} for i in g]
        verdicts, st, tr, results = common.batch_validate(SPEC_ABS, CFG_ABS, cases, scratch, chunk=len(cases) + 1, timeout=3000, env={'PROP': prop})
        states += st
        trans += tr
        for v in results[0].prints:
            if v and v[0] == 'DRIFT':
                drifts.append((g[v[1] - 1], v[2], v[3]))
        for idx, step, clause, extra in verdicts:
            if not extra or extra[0] != prop:
                continue
            viol.append(make_violation(prop, clause, histories[g[idx]], step - 1))
    return viol, drifts, states, trans


def _prev_names(h, i):
    return [s['call']['name'] for s in h['steps'][:i]]


def make_violation(prop, clause, h, i):
    """Key = the fields a known-finding entry can match on: call, clause, and the features of the history that
    the known root causes depend on (computed from the recorded calls, not from the implementation)."""
    s = h['steps'][i]
    call = s['call']
    B = h['snaps'][s['b'] - 1]
    A = h['snaps'][s['a'] - 1]
    prev = h.get('prefix_calls', []) + _prev_names(h, i)
    n = len(B['grid'])
    def mismatch(X):
        return any(o['rad'][i] != X['radix'][q] for row in X['grid'] for x in set(row) if x
                   for o in [X['ops'][x - 1]] for i, q in enumerate(o['loc']) if q < X['nq'] and i < len(o['rad']))
    key = {'call': call['name'], 'clause': clause, 'exc': s['exc'],
           'after_renumber': 'renumber' in prev or call['name'] == 'renumber',
           'radix_mismatch_before': mismatch(B),
           'empty_cycle_before': any(not any(row) for row in B['grid'])}
    if call['name'] in ('remove', 'remove_all'):
        key['operand_kind'] = call['op']['kind']
        key['via'] = call['via']
    if call['name'] in ('pop', 'replace', 'replace_gate', 'replace_with_circuit', 'unfold'):
        key['negative_point'] = call['ci'] < 0 or call['q'] < 0
    if call['name'] in ('insert_circuit',):
        key['cycle_arg'] = 'negative' if call['ci'] < 0 else ('beyond-end' if call['ci'] >= n else 'in-range')
        key['as_block'] = bool(call['asblock'])
    if call['name'] in ('unfold', 'replace_with_circuit', 'batch_unfold', 'unfold_all') and n:
        pts = [(call['ci'], call['q'])] if call['name'] in ('unfold', 'replace_with_circuit') else [tuple(p) for p in call['points']]
        alone_last = False
        neg = False
        for ci, q in pts:
            neg = neg or ci < 0
            row = ci + n if ci < 0 else ci
            if 0 <= row < n:
                ids = {x for x in B['grid'][row] if x}
                if len(ids) == 1 and row == n - 1:
                    alone_last = True
        key['block_alone_in_last_cycle'] = alone_last
        key['negative_cycle_arg'] = neg
    if call['name'] == 'batch_unfold':
        rows = [p[0] + n if p[0] < 0 else p[0] for p in call['points']]
        key['blocks_share_a_cycle'] = len(rows) != len(set(rows))
    if clause == 'state-changed-by-rejected-call' or clause == 'view-raised':
        key['verr'] = s['views'].get('verr', '').split(':')[0]
    small = len(json.dumps(h['snaps'][s['b'] - 1])) < 4000
    detail = 'call %s(%s) -> %s\n before: %s\n after:  %s%s' % (
        call['name'], _short_args(call), s['exc'] or 'returned',
        _grid_str(B) if small else '(%d cycles)' % len(B['grid']), _grid_str(A) if small else '(%d cycles)' % len(A['grid']),
        ('\n view error: ' + s['views']['verr']) if s['views'].get('verr') else '')
    replay = {'kind': 'history', 'nq0': h.get('nq0'), 'radix0': h.get('radix0'),
              'calls': h.get('prefix_calls_full', []) + [x['call'] for x in h['steps'][:i + 1]], 'step': i, 'seed': h.get('seed')}
    return Violation(prop, clause, key, detail, replay)


def _short_args(call):
    d = {k: v for k, v in call.items() if k != 'name' and v not in (0, [], False, 'op', NOOP, EMPTYX)}
    if 'op' in d:
        d['op'] = {k: d['op'][k] for k in ('tag', 'kind', 'loc')}
    if 'ops' in d:
        d['ops'] = [{k: o[k] for k in ('tag', 'kind', 'loc')} for o in d['ops']]
    if 'sub' in d:
        d['sub'] = _grid_str(d['sub'])
    return json.dumps(d, default=str)


def _grid_str(X):
    def name(i):
        o = X['ops'][i - 1]
        return {'gate': str(o['tag']), 'barrier': 'bar', 'block': 'blk' + str(_flat(o)), 'iblock': 'iblk' + str(_flat(o))}.get(o['kind'], '?')
    return '[' + ' | '.join(','.join(name(i) if i else '.' for i in row) for row in X['grid']) + '] nq=%d' % X['nq']


def _flat(o):
    if o['kind'] not in ('block', 'iblock'):
        return o['tag']
    return [_flat(b) for b in o['body']]


# ------------------------------------------------------------------ the check shared by C04 and C05

CFG_FULL = dict(InitQ=2, MinQ=2, MaxQ=3, MaxLive=2, MaxArity=2, MaxSub=2, MaxNest=2, Radixes='{2, 3}', AllVariants='TRUE', MaxDepth=3)
CORE_ACTS = ['append', 'insert', 'pop', 'replace', 'remove', 'fold', 'unfold', 'compress', 'pop_last', 'batch_pop', 'inverse',
             'renumber', 'batch_replace', 'remove_all', 'pop_cycle', 'straighten', 'batch_unfold', 'unfold_all', 'copy', 'clear']
CFG_Q3 = dict(InitQ=3, MinQ=3, MaxQ=3, MaxLive=2, MaxArity=3, MaxSub=0, MaxNest=2, Radixes='{2}', AllVariants='FALSE', MaxDepth=3,
              Acts=CORE_ACTS)
CFG_EMIT = dict(InitQ=2, MinQ=2, MaxQ=2, MaxLive=2, MaxArity=2, MaxSub=2, MaxNest=2, Radixes='{2}', AllVariants='FALSE', MaxDepth=3)
CFG_EMIT_Q = dict(InitQ=2, MinQ=1, MaxQ=3, MaxLive=1, MaxArity=2, MaxSub=1, MaxNest=1, Radixes='{2, 3}', AllVariants='TRUE', MaxDepth=3)

ACTIONS = ['ActAppend', 'ActExtend', 'ActAppendCircuit', 'ActInsert', 'ActInsertCircuit', 'ActPop', 'ActPopLast', 'ActBatchPop',
           'ActRemove', 'ActRemoveAll', 'ActReplace', 'ActBatchReplace', 'ActReplaceWithCircuit', 'ActPopCycle', 'ActAppendQudit',
           'ActExtendQudits', 'ActInsertQudit', 'ActPopQudit', 'ActRenumber', 'ActFold', 'ActStraighten', 'ActUnfold',
           'ActBatchUnfold', 'ActUnfoldAll', 'ActCompress', 'ActCopy', 'ActClear', 'ActInverse', 'ActSetParams', 'ActBecome',
           'ActAdd', 'ActMul']


def init_radix(cfg):
    return [3 if (i == 1 and '3' in cfg['Radixes']) else 2 for i in range(cfg['InitQ'])]


def replay_jobs(edges, cfg, rng, limit):
    """One implementation run per emitted CircuitRef transition: shortest path to its source, then the call."""
    init = None
    for pre, _, _ in edges:
        X = json.loads(pre)
        if not X['grid'] and X['nq'] == cfg['InitQ'] and X['radix'] == init_radix(cfg):
            init = pre
            break
    if init is None:
        raise MachineryError('initial state not found among emitted edges')
    paths = edge_paths(edges, init)
    items = sorted({(pre, call) for pre, call, _ in edges})
    total = len(items)
    if limit and len(items) > limit:
        items = rng.sample(items, limit)
    jobs = []
    for pre, call in items:
        if pre not in paths:
            raise MachineryError('emitted edge whose source is unreachable in the emitted graph')
        jobs.append((cfg['InitQ'], init_radix(cfg), [json.loads(c) for c in paths[pre]] + [json.loads(call)]))
    return jobs, total


def nontrivial(h):
    return sum(1 for s in h['steps'] if not s['exc'] and s['a'] != s['b'] and h['snaps'][s['a'] - 1] != h['snaps'][s['b'] - 1]) >= 3


def run_check(ctx, prop):
    import time
    common.use_repo()
    out = common.Outcome(prop)
    if ctx.replay:
        rp = ctx.replay['replay']
        h, _ = run_history(rp['nq0'], rp['radix0'], rp['calls'], drift=False, judge_from=0)
        h['nq0'], h['radix0'] = rp['nq0'], rp['radix0']
        viol, _, st, tr = validate([h], ctx.scratch, prop)
        out.violations = viol
        out.coverage = {'states': st, 'transitions': tr, 'traces_validated_against_impl': 1}
        return out
    rng = random.Random(ctx.seed)
    quick = ctx.quick
    scale = float(os.environ.get('VERIF_CIRC_SCALE') or 1.0)       # shrink the sampled parts (used for mutation demos)
    t0 = time.time()
    states = trans = 0
    tlc_runs = []
    # 1. model checking of the reference state machine (invariants + action property on every transition, coverage);
    # 2. the transitions emitted by the small configurations are replayed into a real Circuit
    cov = {}
    hist = []
    edges_total = edges_replayed = 0
    plan = [('2 qudits, full alphabet except qudit calls, <= 2 live operations', CFG_EMIT, True, 4000 if quick else 40000),
            ('1-3 qudits, full alphabet with qudit calls, 1 live operation', CFG_EMIT_Q, True, 3000 if quick else 40000),
            ('3 qudits, core alphabet, operations of width <= 3, <= 2 live operations', CFG_Q3, False, 0)]
    if not quick:
        plan.append(('2-3 qudits, full alphabet, <= 2 live operations', CFG_FULL, False, 0))
        plan.append(('3 qudits, core alphabet, width <= 3, <= 2 live operations, one level deeper', dict(CFG_Q3, MaxDepth=4), False, 0))
    for name, cfg, emit, limit in plan:
        r, edges = model_check(cfg, ctx.scratch, emit=emit, timeout=6000)
        states += r.distinct
        trans += r.states
        tlc_runs.append({'config': name, 'distinct_states': r.distinct, 'transitions': r.states, 'depth': r.depth, 'wall_s': round(r.wall, 1),
                         'edges_emitted': len(edges)})
        for a, n in r.coverage.items():
            a = a.split('@')[0]
            cov[a] = cov.get(a, 0) + n
        if emit:
            if len(edges) < 100:
                raise MachineryError('CircuitRef emitted only %d edges' % len(edges))
            jobs, n = replay_jobs(edges, cfg, rng, int(limit * scale))
            edges_total += n
            edges_replayed += len(jobs)
            per = max(1, len(jobs) // 56)
            for part in parallel(_replay_worker, [jobs[i:i + per] for i in range(0, len(jobs), per)], seq=len(jobs) < 8000):
                hist += part
    missing = [a for a in ACTIONS if not cov.get(a)]
    if missing:
        raise MachineryError('CircuitRef actions never taken (vacuous model): %s' % missing)
    t1 = t2 = time.time()
    for h in hist:
        h['kind'] = 'edge'
    n_edge_hist = len(hist)
    # 3. long seeded random histories over the whole alphabet (half of them without renumber_qudits, whose
    #    known defect ends a history early and masks rarer findings)
    nh, nc = (90, 120) if quick else (800, 300)
    nh = max(4, int(nh * scale))
    no_ren = [a for a in ALL_CALLS if a != 'renumber']
    jobs = [(ctx.seed * 100003 + i, rng.randint(nc // 3, nc), ALL_CALLS if i % 2 else no_ren, 7) for i in range(nh)]
    rand = parallel(_rand_worker, jobs)
    for h in rand:
        h['kind'] = 'random'
    hist += rand
    t3 = time.time()
    # 4. TLC judges every recorded step
    viol, drifts, st, tr = validate(hist, ctx.scratch, prop)
    states += st
    trans += tr
    out.violations = viol
    drift_by = {}
    for idx, step, name in drifts:
        drift_by[name] = drift_by.get(name, 0) + 1
    if drifts:
        out.notes.append('DRIFT property=%s replayed-transitions=%d layout-differs=%d by-call=%s' % (
            prop, n_edge_hist, len(drifts), json.dumps(drift_by, sort_keys=True)))
    steps = sum(len(h['steps']) for h in hist)
    excs = sum(1 for h in hist for s in h['steps'] if s['exc'])
    callmix = {}
    for h in rand:
        for s in h['steps']:
            callmix[s['call']['name']] = callmix.get(s['call']['name'], 0) + 1
    digests = {common.digest([s['call'] for s in h['steps']]) for h in hist if nontrivial(h) or h['kind'] == 'edge'}
    sample_h = rand[0] if rand else hist[0]
    out.coverage = {
        'states': states, 'transitions': trans,
        'traces_validated_against_impl': len(hist),
        'evaluations': steps,
        'distinct_nontrivial': len(digests),
        'rule': 'one evaluation = one recorded call (call, arguments, circuit before, circuit after, every public view) judged by '
                'CircuitAbs; a case is a history: (a) one per emitted CircuitRef transition (shortest path to its source state, '
                'then the call), (b) seeded random histories of up to %d calls on up to 7 qudits, radixes 2-4, valid and invalid '
                'arguments; distinct by hash of the call sequence; non-trivial = an edge replay, or a random history with at '
                'least 3 calls that returned and changed the circuit' % nc,
        'exhaustive': False,
        'exhaustive_part': 'CircuitRef state graphs of the listed configurations (TLC, invariants + action property on every '
                           'transition)' + ('; every emitted transition of the two small configurations replayed' if not quick else
                                            '; a seeded sample of the emitted transitions replayed'),
        'tlc_model_checking': tlc_runs,
        'action_coverage': {a: cov.get(a, 0) for a in ACTIONS},
        'edges_emitted': edges_total, 'edges_replayed': edges_replayed, 'edge_replays_with_layout_drift': len(drifts),
        'drift_by_call': drift_by,
        'random_histories': len(rand), 'recorded_steps': steps, 'steps_that_raised': excs, 'random_call_mix': callmix,
        'samples': [
            {'kind': 'random history (first 12 calls)', 'seed': sample_h.get('seed'), 'nq': sample_h['nq0'], 'radixes': sample_h['radix0'],
             'calls': [[s['call']['name'], _short_args(s['call'])[:160], s['exc']] for s in sample_h['steps'][:12]]},
            {'kind': 'edge replay', 'calls': [[s['call']['name'], _short_args(s['call'])[:160], s['exc']] for s in hist[0]['steps']],
             'before': _grid_str(hist[0]['snaps'][hist[0]['steps'][0]['b'] - 1]) if hist[0]['steps'] else '',
             'after': _grid_str(hist[0]['snaps'][hist[0]['steps'][0]['a'] - 1]) if hist[0]['steps'] else ''},
        ],
        'phase_wall_s': {'model_checking_and_replay': round(t1 - t0, 1), 'random_histories': round(t3 - t2, 1),
                         'trace_validation': round(time.time() - t3, 1)},
        'checker_cmd': 'tlc CircuitRef.tla (generated cfg: constants above, VIEW st, INVARIANTS NoEmptyCycle OpsAtLoc RadixOK Sanity, '
                       'PROPERTY ActionProperty, -coverage 1); tlc -config CircuitAbs.cfg CircuitAbs.tla (batch, TRACE_FILE, PROP=%s)' % prop,
        'trusted_base': ['TLC', 'harness/circuit_rec.py: projection of a Circuit through its public read API, construction of the '
                         'call arguments from call records', 'specs/circuit/CircuitOps.tla as the reading of the docstrings'],
    }
    out.assumptions = [
        'operation identity is the TaggedGate tag; barriers are identified by width and position in each qudit timeline',
        'block contents are read through CircuitGate._circuit (no public accessor exists)',
        'where the documentation under-determines a result (replace with a different qudit set, pop() default, arguments in the '
        '"unspec" class of Validity) L1 accepts every outcome the documentation does not exclude',
        'layout differences between implementation and reference are DRIFT, never a violation',
    ]
    return out
