"""WorkerFine: the worker's two threads at shared-access granularity (specs/runtime/WorkerFine.tla), bound to the real Worker.

  model checking   TLC explores WorkerFine exhaustively for small task programs (every interleaving of the main and the
                   incoming thread between content anchors, every placement of the children, every delivery order) with the
                   wake-up / WAITING / start-once / residue invariants, deadlock freedom and termination under weak fairness;
                   per-action coverage must be non-zero.  With a fix switched off TLC must find the historical counterexample.
  spec -> code     `tlc -simulate` behaviours are replayed ACTION BY ACTION into the real `Worker` class running under the
                   SimKernel with line-level scheduling: an action of thread T is "run T until it reaches the statement the
                   specification names" (content anchors: regexes on the statement text of worker.py, never line numbers);
                   the environment's deliveries are made by a scripted boss connection.  After EVERY action the projected
                   implementation state (ready queue, delayed list, task table, mailboxes, cancelled set, receipt, lock
                   holders, mailbox counter, messages sent) is compared with the specification's: a difference is DRIFT (a note).
  adversarial      the counterexamples TLC finds with a fix switched off are replayed as SCHEDULES ONLY (no comparison): on the
                   current code the other thread simply waits at the lock; on a tree where the fix is reverted they reproduce
                   the historical failure, which the L1 specification then reports.
  code -> spec     anchor-granular random runs of the real worker are recorded (one event per anchor crossing with the projected
                   state) and validated by TLC against WorkerFineTrace.tla (EXTENDS WorkerFine).

Every execution also produces an L1 trace (RuntimeAbs alphabet) that goes through the ordinary L1 validation: violations come
only from there.
"""
from __future__ import annotations

import inspect
import json
import os
import pickle
import random
import re

from harness import common

SPEC_DIR = os.path.join(common.SPECS, 'runtime')

LEAF = [['ret']]
PROGS = {
    'SA': {'root': [['submit', 'a', 'leaf'], ['await', 'a'], ['ret']], 'leaf': LEAF},
    'SAB': {'root': [['submit', 'a', 'leaf'], ['submit', 'b', 'leaf'], ['await', 'a'], ['await', 'b'], ['ret']], 'leaf': LEAF},
    'MA': {'root': [['map', 'm', 'leaf', 2], ['await', 'm'], ['ret']], 'leaf': LEAF},
    'MA3': {'root': [['map', 'm', 'leaf', 3], ['await', 'm'], ['ret']], 'leaf': LEAF},
    'MNA': {'root': [['map', 'm', 'leaf', 2], ['next', 'm'], ['await', 'm'], ['ret']], 'leaf': LEAF},
    'MNA3': {'root': [['map', 'm', 'leaf', 3], ['next', 'm'], ['await', 'm'], ['ret']], 'leaf': LEAF},
    'NEST': {'root': [['submit', 'a', 'mid'], ['submit', 'b', 'leaf'], ['await', 'b'], ['await', 'a'], ['ret']],
             'mid': [['submit', 'x', 'leaf'], ['await', 'x'], ['ret']], 'leaf': LEAF},
    'CAN': {'root': [['submit', 'a', 'leaf'], ['submit', 'b', 'leaf'], ['cancel', 'a'], ['await', 'b'], ['ret']], 'leaf': LEAF},
    'LEFT': {'root': [['submit', 'a', 'leaf'], ['map', 'm', 'leaf', 2], ['await', 'a'], ['ret']], 'leaf': LEAF},
    'LEFT1': {'root': [['submit', 'a', 'leaf'], ['submit', 'b', 'leaf'], ['await', 'b'], ['ret']], 'leaf': LEAF},
    'CANL': {'root': [['submit', 'a', 'mid'], ['cancel', 'a'], ['submit', 'b', 'leaf'], ['await', 'b'], ['ret']],
             'mid': [['submit', 'x', 'leaf'], ['ret']], 'leaf': LEAF},
    'CANB': {'root': [['map', 'm', 'leaf', 2], ['submit', 'a', 'mid'], ['cancel', 'a'], ['await', 'm'], ['ret']],
             'mid': [['map', 'k', 'leaf', 2], ['await', 'k'], ['ret']], 'leaf': LEAF},
}
PLACES = {
    'PlaceAny': {'root': 'L', 'mid': 'L', 'leaf': 'LR'},
    'PlaceLocal': {'root': 'L', 'mid': 'L', 'leaf': 'L'},
    'PlaceRemote': {'root': 'L', 'mid': 'L', 'leaf': 'R'},
}
SWITCHES = ('MailboxLocked', 'RegisterIfNotReady', 'DelayBeforeStart', 'CancelInPlace', 'ForgetDiscarded', 'TolerantCompletion', 'DropLateBoxes')
INV = ['NoDoubleWake', 'QueuedOnce', 'WokenNotRegistered', 'NoLostWake', 'NoHang', 'WaitingOK', 'RunAtMostOnce',
       'NoStartAfterCancel', 'NoResidue', 'NoErr', 'OrphanHasNoWaiter', 'LockDiscipline']
HIST = dict(MailboxLocked=False, RegisterIfNotReady=False)


def _c(prog, place='PlaceAny', cancel=False, off=None, inv=None, live=True, expect=None):
    return dict(prog=prog, place=place, cancel=cancel, off=dict(off or {}), inv=list(INV if inv is None else inv), live=live, expect=expect)


CONFIGS = {
    # the current code: every invariant, deadlock freedom, termination under weak fairness of both threads
    'SA': _c('SA'), 'SAB': _c('SAB'), 'MA': _c('MA'), 'MNA': _c('MNA'), 'NEST': _c('NEST'), 'MA3': _c('MA3'), 'MNA3': _c('MNA3'),
    'CAN': _c('CAN'), 'LEFT': _c('LEFT'), 'LEFT1': _c('LEFT1'), 'CANB': _c('CANB', place='PlaceLocal'), 'MAX': _c('MA', cancel=True),
    # a fix switched off: TLC must find the historical counterexample (`expect` = the invariant that goes)
    'nolock_SAB': _c('SAB', place='PlaceRemote', off=HIST, inv=['NoErr'], live=False, expect='NoErr'),
    'nolock_MNA': _c('MNA', off=HIST, inv=['NoHang'], live=False, expect='NoHang'),
    'nolock_MNA3': _c('MNA3', off=HIST, inv=['NoErr'], live=False, expect='NoErr'),
    'nolock_sharp': _c('SA', off=HIST, inv=['NoDoubleWake'], live=False, expect='NoDoubleWake'),
    'nolockonly_SA': _c('SA', off=dict(MailboxLocked=False), inv=['NoHang'], live=False, expect='NoHang'),
    'nolockonly_sharp': _c('SA', off=dict(MailboxLocked=False), inv=['NoLostWake'], live=False, expect='NoLostWake'),
    'nodelay_MA': _c('MA', place='PlaceLocal', off=dict(DelayBeforeStart=False), inv=['NoHang'], live=False, expect='NoHang'),
    'nodelay_sharp': _c('MA', place='PlaceLocal', off=dict(DelayBeforeStart=False), inv=['WaitingOK'], live=False, expect='WaitingOK'),
    'norebind_CANB': _c('CANB', place='PlaceLocal', off=dict(CancelInPlace=False), inv=['RunAtMostOnce'], live=False, expect='RunAtMostOnce'),
    'noforget_CAN': _c('CAN', off=dict(ForgetDiscarded=False), inv=['NoResidue'], live=False, expect='NoResidue'),
    # a defect the model found in the code as it was when this layer was written (a task cancelled while it is executing leaves the
    # mailboxes it creates afterwards); DropLateBoxes is the repair proposed for it
    'latebox_MAX': _c('MA', cancel=True, off=dict(DropLateBoxes=False), inv=['NoLateBox'], live=False, expect='NoLateBox'),
    # 3fdf1bb (found by a random line-level scenario of C12, VERIF_SEED=2, then modelled): a CANCEL that drops a mailbox of a task
    # which is just completing made _process_task_completion raise KeyError outside every handler -> the worker loop ended
    'dieloop_CANL': _c('CANL', place='PlaceLocal', off=dict(TolerantCompletion=False), inv=['NoErr'], live=False, expect='NoErr'),
    'CANL': _c('CANL', place='PlaceLocal'),
    # the model WITH the proposed repair, whatever the tree under test looks like (model checking only)
    'fixed_MAX': _c('MA', cancel=True), 'fixed_CAN': _c('CAN'), 'fixed_CANB': _c('CANB', place='PlaceLocal'), 'fixed_LEFT1': _c('LEFT1'),
}
_REPAIRED = None


def repaired():
    """Does the tree under test contain the repair DropLateBoxes models (Worker._drop_mailboxes_if_cancelled called right after a
    step)?  Decided like every other binding question: by a content anchor."""
    global _REPAIRED
    if _REPAIRED is None:
        common.use_repo()
        anchors, _ = build_anchors()
        _REPAIRED = 'stepCheck' in anchors['main'].values()
    return _REPAIRED


def switch_value(name, s):
    c = CONFIGS[name]
    if s in c['off']:
        return c['off'][s]
    if s == 'DropLateBoxes':
        return True if name.startswith('fixed_') else repaired()
    return True


# ------------------------------------------------------------------ configuration files

def cfg_text(name, record=False, invariants=None, live=None, deadlock=None, extra=''):
    c = CONFIGS[name]
    live = c['live'] if live is None else live
    inv = c['inv'] if invariants is None else invariants
    t = 'SPECIFICATION %s\nCONSTANTS\n Prog <- P_%s\n Place <- %s\n RootFn = "root"\n EnvCancelRoot = %s\n' % (
        'FairSpec' if live else 'Spec', c['prog'], c['place'], 'TRUE' if c['cancel'] else 'FALSE')
    for s in SWITCHES:
        t += ' %s = %s\n' % (s, 'TRUE' if switch_value(name, s) else 'FALSE')
    if invariants is None and switch_value(name, 'DropLateBoxes') and c['expect'] is None and 'NoResidueStrict' not in inv:
        inv = inv + ['NoResidueStrict']
    t += ' Record = %s\n' % ('TRUE' if record else 'FALSE')
    for i in inv:
        t += 'INVARIANT %s\n' % i
    if live:
        t += 'PROPERTY Finishes\n'
    dl = (c['expect'] is None) if deadlock is None else deadlock
    t += 'CHECK_DEADLOCK %s\n' % ('TRUE' if dl and not record else 'FALSE')
    return t + extra


def tla_prog(progs):
    def ins(i):
        return '<<' + ', '.join('"%s"' % x if isinstance(x, str) else str(x) for x in i) + '>>'
    return '[' + ', '.join('%s |-> << %s >>' % (fn, ', '.join(ins(i) for i in body)) for fn, body in progs.items()) + ']'


def mc_text():
    t = '---------------------------- MODULE WorkerFineMC ----------------------------\n'
    t += '(* Model-checking instances of WorkerFine: the task programs and placements of the configurations WorkerFine_*.cfg\n'
    t += '   (same instruction language as Runtime.tla / harness/rtprog.py).  GENERATED by harness/rtfine.py (write_static). *)\n'
    t += 'EXTENDS WorkerFine\n\n'
    for n, p in PROGS.items():
        t += 'P_%s == %s\n' % (n, tla_prog(p))
    t += '\n'
    for n, p in PLACES.items():
        t += '%s == [%s]\n' % (n, ', '.join('%s |-> "%s"' % kv for kv in p.items()))
    return t + '=============================================================================\n'


def write_static():
    """(Re)generate specs/runtime/WorkerFineMC.tla and WorkerFine_<config>.cfg from the tables above."""
    with open(os.path.join(SPEC_DIR, 'WorkerFineMC.tla'), 'w') as f:
        f.write(mc_text())
    for name in CONFIGS:
        with open(os.path.join(SPEC_DIR, 'WorkerFine_%s.cfg' % name), 'w') as f:
            f.write(cfg_text(name))


def prepare(scratch):
    """The model-checking module in the scratch directory (WorkerFine itself is found through TLA-Library)."""
    p = os.path.join(scratch, 'WorkerFineMC.tla')
    if not os.path.exists(p):
        with open(p, 'w') as f:
            f.write(mc_text())
    return p


def write_cfg(scratch, name, tag='', **kw):
    p = os.path.join(scratch, 'WorkerFine_%s%s.cfg' % (name, tag))
    with open(p, 'w') as f:
        f.write(cfg_text(name, **kw))
    return p


# ------------------------------------------------------------------ content anchors

# label -> (function, [regex...], how).  how: 'first' | ('nth', n) | 'all' | 'later' (the later of the first matches of the regexes,
# searched after the line of `after`).  A pc value of the specification is the statement the thread is ABOUT to execute.
def _anchor_table():
    import bqskit.runtime.worker as W
    from bqskit.runtime.task import RuntimeTask
    Wk = W.Worker
    g, ts, at, gd, pa, pc_, hr, hc, ri = (Wk._get_next_ready_task, Wk._try_step_next_ready_task, Wk._add_task, Wk._get_desired_result,
                                          Wk._process_await, Wk._process_task_completion, Wk._handle_result, Wk._handle_cancel,
                                          Wk.recv_incoming)
    main = {
        'top': (g, [r'if self\._ready_task_ids\.empty\(\) and len\(self\._delayed_tasks\) > 0'], 'first'),
        'popDelayed': (g, [r'delayed_task = self\._delayed_tasks\.pop\(\)'], 'first'),
        'addDelayed': (g, [r'self\._add_task\(delayed_task\)'], 'first'),
        'putDelayed': (at, [r'self\._ready_task_ids\.put\(task\.return_address\)'], 'first'),
        'lockRR': (g, [r'self\.read_receipt_mutex\.acquire\(\)'], 'first'),
        'getNowait': (g, [r'addr = self\._ready_task_ids\.get_nowait\(\)'], 'first'),
        'sendWaiting': (g, [r'payload = \(1, self\.most_recent_read_submit\)'], 'first'),
        'blockGet': (g, [r'addr = self\._ready_task_ids\.get\(\)'], 'first'),
        'lookup': (g, [r'task_or_none = self\._tasks\.get\(addr\)'], 'first'),
        'checkCancelled': (g, [r'if addr in self\._cancelled_task_ids or task_or_none is None'], 'first'),
        'checkCrumbs': (g, [r'if any\(bcb in self\._cancelled_task_ids for bcb in task\.breadcrumbs\)'], 'first'),
        'gdrLock': (gd, [r'with self\.mailbox_mutex:'], 'first'),
        'gdrBody': (gd, [r'box = self\._mailboxes\[task\.desired_box_id\]'], 'first'),
        'exc': (ts, [r'for addr in self\._cancelled_task_ids:'], 'first'),
        'resume': (RuntimeTask.step, [r'to_return = self\.coro\.send\(send_val\)'], 'first'),
        'submit': (Wk.submit, [r'mailbox_id = self\._get_new_mailbox_id\(\)'], 'first'),
        'map': (Wk.map, [r'mailbox_id = self\._get_new_mailbox_id\(\)'], 'first'),
        'cancel': (Wk.cancel, [r'num_slots = self\._mailboxes\[future\.mailbox_id\]\.expected_num_results'], 'first'),
        'next': (Wk.next, [r'if future\.mailbox_id not in self\._mailboxes:'], 'first'),
        'paLock': (pa, [r'with self\.mailbox_mutex:'], 'first'),
        'paCheck': (pa, [r'if future\.mailbox_id not in self\._mailboxes:'], 'first'),
        'paReady': (pa, [r'if box\.ready:'], 'first'),
        'paAct': (pa, [r'self\._ready_task_ids\.put\(task\.return_address\)', r'box\.dest_addr = task\.return_address'], 'all'),
        'complCheck': (pc_, [r'if task\.return_address not in self\._tasks:', r'if self\._drop_mailboxes_if_cancelled\(task\):'], 'firstof'),
        'stepCheck': (ts, [r'if self\._drop_mailboxes_if_cancelled\(task\):'], 'first'),
        'complPop': (pc_, [r'self\._tasks\.pop\(task\.return_address, None\)'], 'first'),
        'complLoop': (pc_, [r'box = self\._mailboxes\.get\(mailbox_id\)', r'if mailbox_id in self\._mailboxes:'], 'firstof'),
        'die': (Wk._loop, [r'self\._running = False'], 'first'),
    }
    hrl = {
        'hrLock': (hr, [r'with self\.mailbox_mutex:'], 'first'),
        'hrDeposit': (hr, [r'box_or_none = self\._mailboxes\.get\(mailbox_id\)', r'if mailbox_id not in self\._mailboxes:'], 'firstof'),
        'hrCheck': (hr, [r'if box\.has_task_waiting:'], 'first'),
        'hrWake': (hr, [r'dest_addr = box\.dest_addr', r'self\._ready_task_ids\.put\(box\.dest_addr\)'], 'firstof'),
    }
    main.update(hrl)
    inc = dict(hrl)
    inc.update({
        'recv': (ri, [r'msg, payload = self\._conn\.recv\(\)'], 'first'),
        'subLock': (ri, [r'self\.read_receipt_mutex\.acquire\(\)|with self\.read_receipt_mutex:'], ('nth', 0)),
        'subBody': (ri, [r'task = cast\(RuntimeTask, payload\)'], 'first'),
        'batLock': (ri, [r'self\.read_receipt_mutex\.acquire\(\)|with self\.read_receipt_mutex:'], ('nth', 1)),
        'batBody1': (ri, [r'tasks = cast\(list\[RuntimeTask\], payload\)'], 'first'),
        'batBody2': (ri, [r'self\._add_task\(', r'self\._delayed_tasks\.extend\(tasks\)'], ('later', r'tasks = cast\(list\[RuntimeTask\], payload\)')),
        'hcAdd': (hc, [r'self\._cancelled_task_ids\.add\(addr\)'], 'first'),
        'hcTask': (hc, [r'task\.cancel\(\)'], 'first'),
        'hcBoxes': (hc, [r'for mailbox_id in list\(task\.owned_mailboxes\):'], 'first'),
        'hcDelayed': (hc, [r'for t in \[t for t in self\._delayed_tasks if', r'self\._delayed_tasks = \['], 'firstof'),
        'hcRemove': (hc, [r'self\._delayed_tasks\.remove\(t\)'], 'first'),
    })
    return main, inc


def traced_functions():
    import bqskit.runtime.worker as W
    from bqskit.runtime.task import RuntimeTask
    Wk = W.Worker
    return [Wk._loop, Wk._get_next_ready_task, Wk._try_step_next_ready_task, Wk._add_task, Wk._get_desired_result, Wk._process_await,
            Wk._process_task_completion, Wk._handle_result, Wk._handle_cancel, Wk.recv_incoming, Wk.submit, Wk.map, Wk.cancel,
            Wk.next, RuntimeTask.step]


OPTIONAL_ANCHORS = ('stepCheck', 'hcBoxes')      # statements only the repaired code has


def build_anchors():
    """Returns ({'main': {(co_name, lineno): label}, 'inc': {...}}, [missing 'label (regex)'])."""
    out = {'main': {}, 'inc': {}}
    missing = []
    cache = {}
    for who, table in zip(('main', 'inc'), _anchor_table()):
        for label, (fn, regs, how) in table.items():
            if fn not in cache:
                try:
                    cache[fn] = inspect.getsourcelines(fn)
                except (OSError, TypeError):
                    cache[fn] = ([], 0)
            src, start = cache[fn]
            hits = [[i for i, line in enumerate(src) if not line.lstrip().startswith('#') and re.search(r, line)] for r in regs]
            lines = []
            if how == 'first':
                lines = hits[0][:1]
            elif how == 'firstof':
                for h in hits:
                    if h:
                        lines = h[:1]
                        break
            elif how == 'all':
                lines = [h[0] for h in hits if h]
                if len(lines) < len(regs):
                    lines = []
            elif how[0] == 'nth':
                lines = hits[0][how[1]:how[1] + 1]
            elif how[0] == 'later':
                base = [i for i, line in enumerate(src) if not line.lstrip().startswith('#') and re.search(how[1], line)]
                if base:
                    firsts = [[i for i in h if i > base[0]][:1] for h in hits]
                    if all(firsts):
                        lines = [max(f[0] for f in firsts)]
            if not lines and label in OPTIONAL_ANCHORS:
                continue
            if not lines:
                missing.append('%s (%s in %s)' % (label, ' | '.join(regs), getattr(fn, '__qualname__', fn)))
                continue
            for i in lines:
                out[who][(fn.__code__.co_name, start + i)] = label
    return out, missing


# control flow of the specification: the anchors a thread can reach next from each anchor ('ret' = where _handle_result returns to)
_INS = {'submit', 'map', 'cancel', 'next', 'paLock', 'stepCheck', 'complCheck'}
SUCC_MAIN = {
    'boot': {'top'},
    'top': {'popDelayed', 'lockRR'}, 'popDelayed': {'top', 'addDelayed'}, 'addDelayed': {'putDelayed'}, 'putDelayed': {'top'},
    'lockRR': {'getNowait'}, 'getNowait': {'sendWaiting', 'lookup'}, 'sendWaiting': {'blockGet'}, 'blockGet': {'lookup'},
    'lookup': {'checkCancelled'}, 'checkCancelled': {'top', 'checkCrumbs'}, 'checkCrumbs': {'top', 'resume', 'gdrLock'},
    'gdrLock': {'gdrBody'}, 'gdrBody': {'exc', 'resume'}, 'exc': {'top'}, 'resume': {'exc'} | _INS,
    'submit': set(_INS), 'map': set(_INS), 'cancel': {'exc'} | _INS, 'next': {'exc', 'paLock', 'stepCheck'},
    'stepCheck': {'paLock', 'top'}, 'paLock': {'paCheck'}, 'paCheck': {'exc', 'paReady'}, 'paReady': {'paAct'}, 'paAct': {'top'},
    'complCheck': {'top', 'hrLock', 'complPop'}, 'complPop': {'top', 'complLoop'}, 'complLoop': {'top', 'complLoop', 'die'}, 'die': set(),
    'hrLock': {'hrDeposit'}, 'hrDeposit': {'hrCheck', 'complPop'}, 'hrCheck': {'hrWake', 'complPop'}, 'hrWake': {'complPop', 'hrClear'},
    'hrClear': {'complPop'},
}
SUCC_INC = {
    'boot': {'recv'},
    'recv': {'subLock', 'batLock', 'hrLock', 'hcAdd'},
    'subLock': {'subBody'}, 'subBody': {'recv'}, 'batLock': {'batBody1'}, 'batBody1': {'batBody2'}, 'batBody2': {'recv'},
    'hrLock': {'hrDeposit'}, 'hrDeposit': {'hrCheck', 'recv'}, 'hrCheck': {'hrWake', 'recv'}, 'hrWake': {'recv', 'hrClear'}, 'hrClear': {'recv'},
    'hcAdd': {'hcTask', 'hcDelayed'}, 'hcTask': {'hcBoxes', 'hcTask', 'hcDelayed'}, 'hcBoxes': {'hcTask', 'hcDelayed'}, 'hcDelayed': {'hcRemove', 'hcRebind', 'recv'},
    'hcRemove': {'hcRemove', 'recv'}, 'hcRebind': {'recv'},
}
SUCC = {'main': SUCC_MAIN, 'inc': SUCC_INC}


class Drift(Exception):
    pass


class Blocked(Exception):
    pass


def _addr(a):
    return [] if a is None else [int(a[0]), int(a[1]), int(a[2])]


KINDS = ('WAITING', 'SUBMIT', 'SUBMIT_BATCH', 'RESULT', 'UPDATE', 'CANCEL', 'ERROR')


class FineRun:
    """One real Worker (node w0) under the SimKernel with every line of its critical functions a scheduling point, and a
    scripted boss on the other end of its connection."""

    def __init__(self, progs, place, cancel=False, label='fine'):
        from harness import rtdrive, rtprog, sim
        common.use_repo()
        self.rtprog = rtprog
        self.rtdrive = rtdrive
        clients = [[['submit', 'H0', 'root'], ['cancel', 'H0']]] if cancel else [[['submit', 'H0', 'root'], ['result', 'H0']]]
        self.sc = {'topo': ['fine', 1], 'progs': progs, 'clients': clients, 'sched': ['replay', [], []], 'lines': True,
                   'crash': None, 'probe': False}
        self.run = rtdrive.Run(self.sc)
        self.k = self.run.k
        self.net = self.run.net
        self.progs = progs
        self.place = place
        self.cancel_cfg = cancel
        for f in traced_functions():
            self.k.trace_lines(f)
        self.anchors, self.missing = build_anchors()
        # a statement that is gone cannot be stopped at: its successors take its place
        gone = {m.split(' ')[0] for m in self.missing}
        self.succ = {}
        for who in ('main', 'inc'):
            known = set(self.anchors[who].values())
            eff = {}
            for lab, nxt in SUCC[who].items():
                todo, seen, res = list(nxt), set(), set()
                while todo:
                    x = todo.pop()
                    if x in seen:
                        continue
                    seen.add(x)
                    if x in gone or (x not in known and x in OPTIONAL_ANCHORS):
                        todo += list(SUCC[who].get(x, ()))
                    else:
                        res.add(x)
                eff[lab] = res
            self.succ[who] = eff
        self.pc = {'main': 'boot', 'inc': 'boot'}
        self.sent = {k: 0 for k in KINDS}
        self.store = {}          # address tuple -> RuntimeTask as received from the worker (or the root)
        self.pool = []           # submitted, not yet assigned: (kind, [addresses])
        self.remote = []         # running elsewhere
        self.echo = []           # CANCELs to broadcast back
        self.cseen = set()
        self.rootc = False
        self.answered = False
        self.result_called = False
        self.events = []         # anchor-crossing events (code -> spec direction)
        self.nactions = 0
        import bqskit.runtime.worker as W
        self.bconn, wconn = self.net.pipe('boss', 'w0')

        def wmain():
            w = W.Worker(0, wconn)
            w._loop()
        self.net.spawn_process('w0', wmain)
        self.th = {'main': [t for t in self.k.threads if t.name == 'w0.main'][0], 'inc': None}

    # ---- stepping
    def enabled(self, t):
        return t.state == 'ready' or (t.state == 'blocked' and t.cond())

    def label_at(self, who):
        why = self.th[who].why
        if why and why[0] == 'line':
            return self.anchors[who].get((why[1], why[2]))
        return None

    def advance(self, who, succ=None, limit=4000):
        """Run thread `who` alone until it reaches one of the anchors that can follow its current one."""
        t = self.th[who]
        self.resync(who)
        succ = self.succ[who].get(self.pc[who], set()) if succ is None else succ
        n = 0
        start = self.pc[who]
        while True:
            if t.state == 'done':
                raise Drift('thread %s ended (%r)' % (who, t.exc))
            if not self.enabled(t):
                self.resync(who)
                raise Blocked('%s blocked at %s after %s' % (who, t.why, start))
            self.k.step(t)
            n += 1
            lab = self.label_at(who)
            if lab is not None:
                self.pc[who] = lab          # where the thread really is, expected or not
                if lab in succ:
                    self.nactions += 1
                    self.pump()
                    return lab
            if n > limit:
                raise Drift('%s reached none of %s from %s' % (who, sorted(succ), start))

    def resync(self, who):
        """A thread that waits for a message / a ready task IS at that statement, whatever the bookkeeping says (the code may
        have taken a path the specification does not have)."""
        t = self.th[who]
        if t is None or t.state != 'blocked' or not t.why:
            return
        if who == 'inc' and t.why[0] == 'recv':
            self.pc['inc'] = 'recv'
        elif who == 'main' and t.why[0] == 'qget':
            self.pc['main'] = 'blockGet'

    def inc_at_recv(self):
        self.resync('inc')
        return self.pc['inc'] == 'recv'

    def boot(self):
        rtprog = self.rtprog
        self.advance('main', {'top'})
        self.th['inc'] = [t for t in self.k.threads if t.node == 'w0' and t.name != 'w0.main'][0]
        self.advance('inc', {'recv'})
        self.nactions = 0
        # the client submits the compilation; the server hands the root task to this worker's boss
        from bqskit.runtime.address import RuntimeAddress
        from bqskit.runtime.task import RuntimeTask
        self.run.pending[0] = None
        rtprog.ev('ClientCall', c=1, call='submit', cid=1)
        rtprog.ev('ClientReturn', c=1, call='submit', cid=1, kind='ok')
        if not self.cancel_cfg:
            self._call_result()
        root = RuntimeTask((rtprog.body, ('root', (1, 'root')), {}), RuntimeAddress(-1, 0, 0), 0, (), 30, -1)
        self.store[(-1, 0, 0)] = root
        self.pool.append(('B', [(-1, 0, 0)]))

    def _call_result(self):
        if not self.result_called:
            self.result_called = True
            self.run.pending[0] = ('result', 1)
            self.rtprog.ev('ClientCall', c=1, call='result', cid=1)

    # ---- the boss side
    def pump(self):
        q = self.bconn.rx.q
        while q:
            obj = pickle.loads(q.popleft())
            self.on_up(obj)

    def on_up(self, obj):
        rtprog = self.rtprog
        msg, payload = obj
        name = msg.name
        if name in self.sent:
            self.sent[name] += 1
        if name == 'SUBMIT':
            a = tuple(payload.return_address)
            self.store[a] = payload
            self.pool.append(('S', [a]))
        elif name == 'SUBMIT_BATCH':
            for t in payload:
                self.store[tuple(t.return_address)] = t
            self.pool.append(('B', [tuple(t.return_address) for t in payload]))
        elif name == 'CANCEL':
            self.echo.append(tuple(payload))
            self.cseen.add(tuple(payload))
        elif name == 'RESULT':
            if payload.return_address.worker_id == -1 and not self.rootc and not self.answered:
                self._call_result()
                self.answered = True
                v = payload.result if isinstance(payload.result, int) else -1
                rtprog.ev('ClientReturn', c=1, call='result', cid=1, kind='result', v=v)
                self.run.pending[0] = None
        elif name == 'ERROR':
            if not self.rootc and not self.answered:
                text = payload[1] if isinstance(payload, tuple) else str(payload)
                self._call_result()
                self.answered = True
                booms = sorted({int(x) for x in re.findall(r'boom-(\d+)', text)})
                cause = 'task' if booms else ('await-cancelled' if 'Cannot await on a canceled task' in text else 'other')
                rtprog.ev('ClientReturn', c=1, call='result', cid=1, kind='error', cause=cause, boom=booms, text=text[-400:])
                self.run.pending[0] = None

    def _fn_of(self, a):
        return self.store[a].fnargs[1][0]

    def _cancelled_for_env(self, a):
        t = self.store[a]
        return a in self.cseen or any(tuple(b) in self.cseen for b in t.breadcrumbs)

    def _take_from_pool(self, addrs):
        """Remove the group holding `addrs` from the pool; the tasks of it that are not in `addrs` run remotely."""
        for g in self.pool:
            if all(a in g[1] for a in addrs):
                self.pool.remove(g)
                self.remote += [a for a in g[1] if a not in addrs]
                return g
        raise Drift('environment: %s is not an unassigned group' % (addrs,))

    def deliver(self, msg):
        """Make the delivery the specification chose: msg = {t, addr, ts:[{fn, addr, crumbs}]}."""
        from bqskit.runtime.address import RuntimeAddress
        from bqskit.runtime.message import RuntimeMessage
        from bqskit.runtime.result import RuntimeResult
        t = msg['t']
        if t in ('SUBMIT', 'SUBMIT_BATCH'):
            addrs = [tuple(d['addr']) for d in msg['ts']]
            for a in addrs:
                if a not in self.store:
                    raise Drift('environment: task %s was never submitted' % (a,))
            self._take_from_pool(addrs)
            tasks = [self.store[a] for a in addrs]
            self.bconn.send((RuntimeMessage.SUBMIT, tasks[0]) if t == 'SUBMIT' else (RuntimeMessage.SUBMIT_BATCH, tasks))
        elif t == 'RESULT':
            a = tuple(msg['addr'])
            if a in self.remote:
                self.remote.remove(a)
            else:
                self._take_from_pool([a])
                self.remote.remove(a) if a in self.remote else None
            child = self.store[a]
            tid = self.rtdrive._task_id_of(child)
            fn = self._fn_of(a)
            if [i[0] for i in self.progs[fn]] != ['ret']:
                raise Drift('environment: only leaf tasks run remotely (%s)' % fn)
            self.rtprog.ev('TaskStart', t=tid)
            self.rtprog.ev('TaskEnd', t=tid)
            self.bconn.send((RuntimeMessage.RESULT, RuntimeResult(RuntimeAddress(*a), tid, 1)))
        elif t == 'CANCEL':
            a = tuple(msg['addr'])
            if a == (-1, 0, 0):
                self.client_cancel()
            elif a in self.echo:
                self.echo.remove(a)
            else:
                raise Drift('environment: CANCEL %s was never sent up' % (a,))
            self.bconn.send((RuntimeMessage.CANCEL, RuntimeAddress(*a)))
        else:
            raise Drift('environment: unknown message %r' % (t,))

    def client_cancel(self):
        self.rootc = True
        self.cseen.add((-1, 0, 0))
        self.rtprog.ev('ClientCall', c=1, call='cancel', cid=1)
        self.rtprog.ev('ClientReturn', c=1, call='cancel', cid=1, kind='ok')

    # ---- projection of the implementation state (the same shape as Proj in WorkerFine.tla)
    def proj(self):
        w = self.net.workers['w0']

        def holder(lock):
            h = lock.holder
            return 'main' if h is self.th['main'] else 'inc' if h is self.th['inc'] else 'none'
        return {
            'rq': [_addr(a) for a in w._ready_task_ids.q],
            'dl': [_addr(t.return_address) for t in w._delayed_tasks],
            'tasks': [{'a': _addr(k), 'desired': -1 if t.desired_box_id is None else int(t.desired_box_id), 'won': bool(t.wake_on_next),
                       'owned': sorted(int(x) for x in t.owned_mailboxes)} for k, t in list(w._tasks.items())],
            'boxes': [{'id': int(i), 'expected': int(b.expected_num_results), 'num': int(b.num_results), 'dest': _addr(b.dest_addr),
                       'fresh': sorted(int(s) for s, _ in (b.fresh_results or []))} for i, b in sorted(w._mailboxes.items())],
            'cancelled': sorted(_addr(a) for a in w._cancelled_task_ids),
            'receipt': _addr(w.most_recent_read_submit),
            'ctr': int(w._mailbox_counter),
            'rr': holder(w.read_receipt_mutex),
            'mb': holder(w.mailbox_mutex) if hasattr(w, 'mailbox_mutex') else 'none',
            'sent': dict(self.sent),
        }

    # ---- autonomous fair driver (after a guided prefix, or for the recorded anchor-granular runs)
    def env_options(self, rng):
        opts = []
        for g in self.pool:
            opts.append(('assign', g))
        for a in self.remote:
            opts.append(('result', a))
        for a in self.echo:
            opts.append(('cancel', a))
        if self.cancel_cfg and not self.rootc and not self.answered and rng.random() < 0.08:
            opts.append(('ccancel', None))
        return opts

    def _all_remote(self, g):
        return all(self.place.get(self._fn_of(a), 'L') == 'R' for a in g[1])

    def do_env(self, opt, rng):
        """Returns the message delivered (spec shape) or None for a pure environment step."""
        kind, x = opt
        if kind == 'assign':
            k, addrs = x
            local = []
            for a in addrs:
                pl = self.place.get(self._fn_of(a), 'L')
                if pl == 'L' or (pl == 'LR' and rng.random() < 0.5):
                    local.append(a)
            if not local:
                self.pool.remove(x)
                self.remote += list(addrs)
                return None
            return {'t': 'SUBMIT' if k == 'S' else 'SUBMIT_BATCH', 'addr': [], 'ts': [{'addr': list(a)} for a in local]}
        if kind == 'result':
            if self._cancelled_for_env(x) and rng.random() < 0.5:
                self.remote.remove(x)       # discarded by the worker it was sent to
                return None
            return {'t': 'RESULT', 'addr': list(x), 'ts': []}
        if kind == 'cancel':
            return {'t': 'CANCEL', 'addr': list(x), 'ts': []}
        return {'t': 'CANCEL', 'addr': [-1, 0, 0], 'ts': []}

    def auto(self, rng, record=False, max_actions=4000):
        """Random anchor-granular execution until nothing can move.  Returns 'quiescent' | 'maxsteps'."""
        n = 0
        while n < max_actions:
            cands = ['main']
            if not self.inc_at_recv():
                cands.append('inc')
                cands += [o for o in self.env_options(rng) if o[0] == 'assign' and self._all_remote(o[1])]
            else:
                cands += self.env_options(rng)       # a delivery and the incoming thread's recv are one action
            rng.shuffle(cands)
            moved = False
            for c in cands:
                try:
                    if c == 'main' or c == 'inc':
                        lab = self.advance(c)
                        if record:
                            self.events.append({'th': c, 'pc': lab, 'msg': {'t': '', 'addr': [], 'ts': []}, 'p': self.proj()})
                    else:
                        msg = self.do_env(c, rng)
                        if msg is not None:
                            self.deliver(msg)
                            lab = self.advance('inc')
                            if record:
                                self.events.append({'th': 'inc', 'pc': lab, 'msg': msg, 'p': self.proj()})
                    moved = True
                    n += 1
                    break
                except Blocked:
                    continue
            if not moved:
                self.pump()
                if any(self.enabled(self.th[w]) for w in ('main', 'inc')) and not (self.inc_at_recv() and not self.enabled(self.th['main'])):
                    # bookkeeping and code disagree about where a thread is: finish without anchors
                    self.run.note('HARNESS-NOTE WorkerFine driver lost track of the worker threads (code path unknown to the model); run finished line by line')
                    return self.raw(rng)
                if self.inc_at_recv() and (self.bconn.tx.q or self.env_options(random.Random(0))):
                    return self.raw(rng)
                return 'quiescent'
        return 'maxsteps'

    def raw(self, rng, max_steps=200000):
        """Line-level random execution that does not rely on anchors at all (used when the code left the model's paths)."""
        n = 0
        while n < max_steps:
            self.pump()
            opts = [w for w in ('main', 'inc') if self.th[w].state != 'done' and self.enabled(self.th[w])]
            ti = self.th['inc']
            if ti.state == 'blocked' and ti.why and ti.why[0] == 'recv' and not self.bconn.tx.q:
                opts += self.env_options(rng)
            if not opts:
                return 'quiescent'
            c = opts[rng.randrange(len(opts))]
            n += 1
            if c == 'main' or c == 'inc':
                self.k.step(self.th[c])
                lab = self.label_at(c)
                if lab is not None:
                    self.pc[c] = lab
            else:
                try:
                    msg = self.do_env(c, rng)
                    if msg is not None:
                        self.deliver(msg)
                except Drift:
                    return 'quiescent'
        return 'maxsteps'

    def finish(self, rng, record=False):
        """Let the run end under the fair driver, take the idle snapshots, stop the worker; returns (trace, diag)."""
        try:
            status = self.auto(rng, record=record)
        except Drift as e:
            self.run.note('HARNESS-NOTE fine run stopped: %s' % str(e)[:200])
            status = 'quiescent'
        self.pump()
        self.run.snapshot(final=False, settled=status == 'quiescent')
        self.run.snapshot(final=True, settled=False)
        trace, diag = self.run.finish(status)
        try:
            w = self.net.workers['w0']
            for t in list(w._tasks.values()) + list(w._delayed_tasks) + list(self.store.values()):
                if getattr(t, 'coro', None) is not None:
                    t.coro.close()
        except Exception:
            pass
        self.net.crash('w0')
        for t in list(self.k.threads):
            if t.state != 'done':
                try:
                    self.k.step(t)
                except Exception:
                    pass
        return trace, diag


# ------------------------------------------------------------------ spec -> code: guided replay of a behaviour

CMP_KEYS = ('rq', 'dl', 'tasks', 'boxes', 'cancelled', 'receipt', 'ctr', 'rr', 'mb', 'sent')


def _spec_proj(p):
    q = {k: p[k] for k in CMP_KEYS}
    q['cancelled'] = sorted(q['cancelled'])
    return q


def replay(name, beh, mode='compare', seed=0, record=False):
    """Replay one behaviour of configuration `name` into the real Worker.
    mode 'compare': every action must be enabled, end at the anchor the specification names and leave the projected state
    the specification predicts (else DRIFT); mode 'schedule': the behaviour is only a schedule (actions that are not
    enabled are skipped, nothing is compared).  After the behaviour (or the drift) a fair random driver finishes the run.
    Returns dict(verdict, index, detail, actions, trace, diag, missing)."""
    c = CONFIGS[name]
    fr = FineRun(PROGS[c['prog']], PLACES[c['place']], cancel=c['cancel'])
    out = {'verdict': 'ok', 'index': len(beh), 'detail': '', 'actions': 0, 'skipped': 0, 'missing': list(fr.missing), 'labels': []}
    rng = random.Random(seed)
    if fr.missing and mode == 'compare':
        mode = 'schedule'          # an anchor is gone: the behaviour still serves as a schedule
        out['verdict'] = 'unobservable'
    try:
        fr.boot()
        for idx, st in enumerate(beh):
            a, th, p = st['a'], st['th'], st['p']
            if a == 'I_shutdown':
                break
            if th == 'env':
                continue             # a task discarded elsewhere: nothing happens at this worker
            want = p['mpc'] if th == 'main' else p['ipc']
            try:
                if mode == 'schedule' and fr.pc[th] == want and not a.startswith('I_recv') and want not in SUCC[th].get(want, ()):
                    out['skipped'] += 1
                    continue
                if a.startswith('I_recv'):
                    if not fr.inc_at_recv():
                        if mode == 'compare':
                            raise Drift('incoming thread is at %s, not at recv' % fr.pc['inc'])
                        out['skipped'] += 1
                        continue
                    fr.deliver(p['msg'])
                got = fr.advance(th)
            except Blocked as e:
                if mode == 'compare':
                    raise Drift('%s: not enabled in the implementation (%s)' % (a, e))
                out['skipped'] += 1
                continue
            except Drift:
                if mode == 'compare':
                    raise
                out['skipped'] += 1
                continue
            out['labels'].append((a, got))
            if mode == 'compare':
                if got != want:
                    raise Drift('%s: thread %s reached %s, the specification says %s' % (a, th, got, want))
                have, exp = fr.proj(), _spec_proj(p)
                if have != exp:
                    diff = {k: {'spec': exp[k], 'code': have[k]} for k in CMP_KEYS if have[k] != exp[k]}
                    out['index'] = idx
                    raise Drift('%s: field(s) %s differ: %s' % (a, sorted(diff), json.dumps(diff)[:400]))
            out['actions'] += 1
    except Drift as e:
        if out['verdict'] != 'unobservable':
            out['verdict'] = 'drift'
        if out['index'] == len(beh):
            out['index'] = out['actions']
        out['detail'] = str(e)
    trace, diag = fr.finish(rng, record=record)
    out['trace'], out['diag'] = trace, diag
    out['events'] = fr.events
    sc = dict(fr.sc)
    sc['fine'] = {'cfg': name, 'mode': mode, 'seed': seed, 'beh': beh}
    out['scenario'] = sc
    return out


# ------------------------------------------------------------------ TLC runs

def _key(a):
    return '<<%s>>' % ', '.join(str(x) for x in a)


def _state_to_p(s):
    """A state of a TLC JSON error trace -> the projection record of a recorded behaviour."""
    tobj, box = s['tobj'] or {}, s['box'] or {}
    if isinstance(box, list):        # a function whose domain happens to be 1..n is printed as a sequence
        box = {str(k + 1): v for k, v in enumerate(box)}
    return {
        'mpc': s['m']['pc'], 'ipc': s['i']['pc'], 'msg': s['i']['msg'],
        'rq': [e[0] for e in s['readyq']], 'dl': [d['addr'] for d in s['delayed']],
        'tasks': [{'a': a, 'desired': tobj[_key(a)]['desired'], 'won': tobj[_key(a)]['won'], 'owned': sorted(tobj[_key(a)]['owned'])}
                  for a in s['tasks']],
        'boxes': [{'id': i, 'expected': box[str(i)]['expected'], 'num': box[str(i)]['num'], 'dest': box[str(i)]['dest'],
                   'fresh': sorted(box[str(i)]['fresh'])} for i in sorted(s['mboxes'])],
        'cancelled': s['cancelled'], 'receipt': s['receipt'], 'ctr': s['ctr'], 'rr': s['rrHolder'], 'mb': s['mbHolder'],
        'sent': s['h']['sent'],
    }


def trace_to_behaviour(path):
    """TLC `-dumpTrace json` file -> behaviour [{a, th, p}] in the format of the recorded simulations."""
    with open(path) as f:
        d = json.load(f)
    beh = []
    for pre, act, post in d['counterexample']['action']:
        s0, s1 = pre[1], post[1]
        name = act['name']
        if name.startswith('M_'):
            th = 'main'
        elif name.startswith('I_'):
            th = 'inc'
        elif name.startswith('HR_'):
            th = 'main' if s0['m'] != s1['m'] else 'inc'
        elif name == 'IncNext':
            th, name = 'inc', 'I_recv'
        elif name == 'MainNext':
            th = 'main'
        else:
            th = 'env'
        beh.append({'a': name, 'th': th, 'p': _state_to_p(s1)})
    return beh


def action_names():
    """Line number of each disjunct of MainNext / IncNext / EnvNext -> the action it calls (TLC reports parameterised
    actions by the position of the disjunct)."""
    out = {}
    with open(os.path.join(SPEC_DIR, 'WorkerFine.tla')) as f:
        for n, line in enumerate(f, 1):
            m = re.search(r'\\/ .*?\b((?:I_|EnvDrop|M_|HR_)\w*)\(', line)
            if m:
                out[n] = m.group(1)
    return out


def tlc_exhaustive(scratch, name, coverage=True, workers=4, timeout=1500):
    spec = prepare(scratch)
    cfg = write_cfg(scratch, name)
    c = CONFIGS[name]
    extra = []
    tr = None
    if c['expect']:
        tr = os.path.join(scratch, 'cex_%s.json' % name)
        extra = ['-dumpTrace', 'json', tr]
    r = common.tlc(spec, cfg, scratch=scratch, workers=workers, cwd=scratch, coverage=coverage, timeout=timeout,
                   extra=extra, heap='4g')
    res = {'name': name, 'ok': r.ok, 'states': r.states, 'distinct': r.distinct, 'depth': r.depth, 'wall': round(r.wall, 1),
           'violated': None, 'coverage': {}, 'behaviour': None, 'error': ''}
    m = re.search(r'Invariant (\w+) is violated', r.out)
    if m:
        res['violated'] = m.group(1)
    elif 'Deadlock reached' in r.out:
        res['violated'] = 'Deadlock'
    elif 'Temporal properties were violated' in r.out:
        res['violated'] = 'Finishes'
    elif not r.ok:
        res['error'] = (r.error or r.out[-600:])[:600]
    if r.coverage:
        names = action_names()
        cov = {}
        for k, v in r.coverage.items():
            if '@' in k:
                base, line = k.split('@')
                if base in ('IncNext', 'EnvNext', 'MainNext'):
                    k = names.get(int(line), k)
                else:
                    continue
            if re.match(r'(M_|I_|HR_|EnvDrop)', k):
                cov[k] = cov.get(k, 0) + v
        res['coverage'] = cov
    if tr and os.path.exists(tr) and res['violated']:
        res['behaviour'] = trace_to_behaviour(tr)
    return res


def tlc_simulate(scratch, name, num, seed, depth=900):
    spec = prepare(scratch)
    cfg = write_cfg(scratch, name, tag='_sim', record=True, invariants=['Dump'], live=False)
    r = common.tlc(spec, cfg, scratch=scratch, simulate='num=%d' % num, depth=depth, seed=seed, workers=1, cwd=scratch, timeout=900, heap='2g')
    if not r.ok:
        raise common.MachineryError('TLC simulation of WorkerFine (%s) failed: %s' % (name, (r.error or r.out[-500:])[:500]))
    behs, seen = [], set()
    for v in r.prints:
        if v and v[0] == 'BEHAVIOUR':
            try:
                b = json.loads(v[1])
            except ValueError:
                continue
            h = common.digest([(e['a'], e['th'], e['p']['msg']) for e in b])
            if h not in seen:
                seen.add(h)
                behs.append(b)
    return behs


# ------------------------------------------------------------------ code -> spec: recorded anchor-granular runs, WorkerFineTrace.tla

def record_run(name, seed):
    """One random anchor-granular run of the real worker on configuration `name`; returns dict(events, trace, diag, scenario)."""
    c = CONFIGS[name]
    fr = FineRun(PROGS[c['prog']], PLACES[c['place']], cancel=c['cancel'])
    rng = random.Random(seed)
    fr.boot()
    trace, diag = fr.finish(rng, record=True)
    sc = dict(fr.sc)
    sc['fine'] = {'cfg': name, 'mode': 'random', 'seed': seed, 'beh': None}
    return {'events': fr.events, 'trace': trace, 'diag': diag, 'scenario': sc, 'missing': list(fr.missing)}


def validate_recorded(scratch, name, traces, timeout=900):
    """Batch-validate anchor traces of one configuration against WorkerFineTrace.  Returns (rejected indices, states, transitions)."""
    prepare(scratch)
    mod = os.path.join(scratch, 'WorkerFineTraceMC.tla')
    if not os.path.exists(mod):
        with open(mod, 'w') as f:
            f.write('---- MODULE WorkerFineTraceMC ----\nEXTENDS WorkerFineTrace, WorkerFineMC\n====\n')
    cfg = os.path.join(scratch, 'WorkerFineTrace_%s.cfg' % name)
    with open(cfg, 'w') as f:
        f.write(cfg_text(name, invariants=[], live=False, deadlock=False).replace('SPECIFICATION Spec', 'SPECIFICATION TraceSpec'))
    path = os.path.join(scratch, 'finetraces_%s.json' % name)
    with open(path, 'w') as f:
        json.dump(traces, f)
    r = common.tlc(mod, cfg, scratch=scratch, env={'TRACE_FILE': path}, workers=2, cwd=scratch, timeout=timeout, heap='3g')
    if not r.ok:
        raise common.MachineryError('TLC failed on WorkerFineTrace (%s): %s' % (name, (r.error or r.out[-600:])[:600]))
    accepted = {v[1] for v in r.prints if v and v[0] == 'ACCEPT'}
    rejected = [i for i in range(len(traces)) if (i + 1) not in accepted]
    return rejected, r.distinct, r.states


# ------------------------------------------------------------------ orchestration (called from checks/c07.py and c12.py)

def _plan(prop, quick):
    if prop == 'C07':
        if quick:
            return dict(exh=['SA', 'MA', 'MNA'], sim=[('MA', 20), ('MNA', 20), ('NEST', 20)],
                        cex=['nolock_SAB', 'nolock_MNA', 'nolockonly_SA', 'nodelay_MA'], adv=[('nolock_MNA', 12), ('nodelay_MA', 8)],
                        rec=[('SA', 10), ('MNA', 15), ('NEST', 15)])
        allc = ['SA', 'SAB', 'MA', 'MNA', 'NEST', 'MA3', 'MNA3']
        return dict(exh=allc, sim=[(c, 300) for c in allc],
                    cex=['nolock_SAB', 'nolock_MNA', 'nolock_MNA3', 'nolock_sharp', 'nolockonly_SA', 'nolockonly_sharp', 'nodelay_MA', 'nodelay_sharp'],
                    adv=[('nolock_SAB', 100), ('nolock_MNA', 100), ('nolock_MNA3', 100), ('nolockonly_SA', 60), ('nodelay_MA', 60)],
                    rec=[(c, 200) for c in allc])
    if quick:
        return dict(exh=['CAN', 'MAX', 'LEFT1'], sim=[('CAN', 20), ('MAX', 30), ('CANB', 20), ('LEFT1', 10), ('CANL', 15)],
                    cex=['noforget_CAN', 'latebox_MAX', 'dieloop_CANL'],
                    adv=[('noforget_CAN', 10)], rec=[('CAN', 15), ('MAX', 15), ('CANB', 15), ('LEFT1', 10), ('CANL', 10)])
    allc = ['CAN', 'LEFT', 'LEFT1', 'CANB', 'CANL', 'MAX']
    if not repaired():
        # the model WITH the repair proposed for the mailbox leak is checked as well (model checking only, nothing to bind it to yet)
        return dict(exh=allc + ['fixed_MAX', 'fixed_CAN', 'fixed_CANB', 'fixed_LEFT1'], sim=[(c, 300) for c in allc],
                    cex=['noforget_CAN', 'norebind_CANB', 'latebox_MAX', 'dieloop_CANL'], adv=[('noforget_CAN', 100), ('norebind_CANB', 100)],
                    rec=[(c, 200) for c in allc])
    return dict(exh=allc, sim=[(c, 300) for c in allc], cex=['noforget_CAN', 'norebind_CANB', 'latebox_MAX', 'dieloop_CANL'],
                adv=[('noforget_CAN', 100), ('norebind_CANB', 100)], rec=[(c, 200) for c in allc])


# actions every tier of a property must exercise in its current-code configurations (an action TLC never takes makes the
# model-checking evidence vacuous: exit 2).  HR_clear and I_hcRebind exist only with a fix switched off.
_COMMON = ['M_top', 'M_lockRR', 'M_getNowait', 'M_sendWaiting', 'M_blockGet', 'M_lookup', 'M_checkCancelled', 'M_checkCrumbs',
           'M_gdrLock', 'M_gdrBody', 'M_resume', 'M_paLock', 'M_paCheck', 'M_paReady', 'M_paAct', 'M_complCheck', 'M_complPop',
           'HR_lock', 'HR_deposit', 'HR_check', 'HR_wake', 'I_recvTasks', 'I_recvResult', 'I_recvResultOfGroup',
           'I_batLock', 'I_batBody1', 'I_batBody2', 'I_shutdown']
REQUIRED = {
    'C07': _COMMON + ['M_popDelayed', 'M_addDelayed', 'M_putDelayed', 'M_submit', 'M_map', 'M_next', 'I_subLock', 'I_subBody'],
    'C12': _COMMON + ['M_submit', 'M_cancel', 'M_exc', 'I_subLock', 'I_subBody', 'I_recvCancel', 'I_recvClientCancel', 'I_hcAdd', 'I_hcTask',
                      'I_hcDelayed', 'EnvDrop', 'M_complLoop'],
}


def _job(job):
    """Runs in a forked worker process."""
    import logging
    import traceback
    import warnings
    logging.disable(logging.CRITICAL)
    warnings.filterwarnings('ignore')
    try:
        kind = job[0]
        if kind == 'replay':
            _, name, beh, mode, seed = job
            o = replay(name, beh, mode=mode, seed=seed)
            o.pop('events', None)
            o['kind'], o['name'], o['mode'], o['nbeh'] = 'replay', name, mode, len(beh)
            return o
        _, name, seed = job
        o = record_run(name, seed)
        o['kind'], o['name'] = 'record', name
        return o
    except Exception:
        return {'kind': 'error', 'name': job[1], 'error': traceback.format_exc()[-1500:]}


class Handle:
    """The TLC jobs of the WorkerFine layer run in background threads (JVM subprocesses) while the check does its other work;
    result() then replays / records on the real worker (forked processes) and returns (coverage, extra L1 traces, notes)."""

    def __init__(self, prop, ctx):
        from concurrent.futures import ThreadPoolExecutor
        self.prop, self.ctx = prop, ctx
        self.plan = _plan(prop, ctx.quick)
        os.makedirs(ctx.scratch, exist_ok=True)
        prepare(ctx.scratch)
        self.ex = ThreadPoolExecutor(6 if ctx.quick else 8)
        w = 2 if ctx.quick else 4
        self.f_exh = {n: self.ex.submit(tlc_exhaustive, ctx.scratch, n, True, w) for n in self.plan['exh']}
        # one TLC worker: breadth-first search then returns the same (shortest) counterexample every time
        self.f_cex = {n: self.ex.submit(tlc_exhaustive, ctx.scratch, n, True, 1) for n in self.plan['cex']}
        self.f_sim = {n: self.ex.submit(tlc_simulate, ctx.scratch, n, k, ctx.seed + 11) for n, k in self.plan['sim'] + self.plan['adv']}

    def result(self):
        import multiprocessing as mp
        from harness import rtcheck
        prop, ctx = self.prop, self.ctx
        notes, cov = [], {}
        per, actions, actions_off, states, trans = {}, {}, {}, 0, 0
        jobs = []
        cexs = {}
        for n, f in list(self.f_exh.items()) + list(self.f_cex.items()):
            r = f.result()
            expect = CONFIGS[n]['expect']
            if r['error']:
                raise common.MachineryError('TLC failed on WorkerFine configuration %s: %s' % (n, r['error']))
            states += r['distinct']
            trans += r['states']
            per[n] = [r['distinct'], r['states'], r['depth'], r['wall']]
            tgt = actions_off if CONFIGS[n]['off'] else actions
            for a, v in r['coverage'].items():
                tgt[a] = tgt.get(a, 0) + v
            if expect:
                if r['violated'] != expect:
                    raise common.MachineryError('WorkerFine is not sharp: with %s TLC should find %s violated, found %s' % (
                        CONFIGS[n]['off'] or n, expect, r['violated']))
                cexs[n] = {'violated': expect, 'trace_length': len(r['behaviour'] or []), 'distinct_states_until_found': r['distinct']}
                # does this configuration describe the tree under test after all (a defect that is still there)?
                current = all(v == (repaired() if s == 'DropLateBoxes' else True) for s, v in CONFIGS[n]['off'].items())
                if r['behaviour']:
                    # a fix switched off: the counterexample is a schedule for the real code; a defect of the current code
                    # is replayed exactly
                    jobs.append(('replay', n, r['behaviour'], 'compare' if current else 'schedule', ctx.seed))
                if current:
                    notes.append('L2-COUNTEREXAMPLE layer=WorkerFine config=%s invariant=%s (the model of the CURRENT code breaks it; the '
                                 'behaviour is replayed on the real worker and judged by L1)' % (n, expect))
            elif r['violated']:
                notes.append('L2-COUNTEREXAMPLE layer=WorkerFine config=%s invariant=%s (TLC found a behaviour of the implementation-shaped '
                             'model that breaks it; replayed on the real worker and judged by L1)' % (n, r['violated']))
                if r['behaviour']:
                    jobs.append(('replay', n, r['behaviour'], 'compare', ctx.seed))
        dead = [a for a in REQUIRED[prop] if actions.get(a, 0) == 0]
        if dead:
            raise common.MachineryError('WorkerFine actions never taken (vacuous model checking): %s' % dead)
        nsim = 0
        for (n, k), mode in [(x, 'compare') for x in self.plan['sim']] + [(x, 'schedule') for x in self.plan['adv']]:
            behs = self.f_sim[n].result()
            nsim += len(behs)
            for j, b in enumerate(behs):
                jobs.append(('replay', n, b, mode, ctx.seed * 1000 + j))
        for n, k in self.plan['rec']:
            for j in range(k):
                jobs.append(('record', n, ctx.seed * 100003 + j))
        self.ex.shutdown(wait=False)
        if not jobs:
            raise common.MachineryError('WorkerFine: nothing to replay')
        cx = mp.get_context('fork')
        with cx.Pool(12, initializer=rtcheck._init_worker) as pool:
            res = pool.map(_job, jobs, chunksize=2)
        errors = [r for r in res if r['kind'] == 'error']
        if len(errors) > max(2, len(res) // 10):
            raise common.MachineryError('WorkerFine replay failed: %s' % errors[0]['error'])
        traces, recorded = [], {}
        nrep = nact = ndrift = nadv = nskip = 0
        first_drift = {}
        missing = set()
        for r in res:
            if r['kind'] == 'error':
                continue
            for mm in r.get('missing', []):
                missing.add(mm)
            traces.append((r['trace'], r['diag'], r['scenario']))
            if r['kind'] == 'record':
                recorded.setdefault(r['name'], []).append(r['events'])
                continue
            if r['mode'] == 'schedule' or r['verdict'] == 'unobservable':
                nadv += 1
                nskip += r['skipped']
                continue
            nrep += 1
            nact += r['actions']
            if r['verdict'] == 'drift':
                ndrift += 1
                first_drift.setdefault(r['name'], 'DRIFT property=%s layer=WorkerFine config=%s step=%d of %d: %s (code and L2 model disagree; '
                                       'not a violation)' % (prop, r['name'], r['index'], r['nbeh'], r['detail'][:500]))
        for mm in sorted(missing):
            notes.append('UNOBSERVABLE anchor=%s (statement not found in the worker\'s source; guided replays run as schedules only)' % mm)
        notes += list(first_drift.values())
        nrec = nev = nrej = tst = 0
        if not missing:
            from concurrent.futures import ThreadPoolExecutor
            recorded = {n: [t for t in trs if t] for n, trs in recorded.items()}
            recorded = {n: trs for n, trs in recorded.items() if trs}
            with ThreadPoolExecutor(4) as ex:
                vals = list(ex.map(lambda n: validate_recorded(ctx.scratch, n, recorded[n]), list(recorded)))
            for (n, trs), (rej, st, tn) in zip(recorded.items(), vals):
                nrec += len(trs)
                nev += sum(len(t) for t in trs)
                nrej += len(rej)
                tst += st
                states += st
                trans += tn
                if rej:
                    notes.append('DRIFT property=%s layer=WorkerFineTrace config=%s: %d of %d recorded executions of the real worker are not '
                                 'behaviours of the L2 model (first: trace %d); not a violation' % (prop, n, len(rej), len(trs), rej[0]))
        cov = {
            'fine_states': states, 'fine_transitions': trans, 'fine_configs': per, 'fine_action_counts': dict(sorted(actions.items())),
            'fine_action_counts_with_fix_switched_off': dict(sorted((a, v) for a, v in actions_off.items() if v)),
            'fine_invariants': INV + ['deadlock freedom', 'Finishes (termination under weak fairness of both threads and the environment)'],
            'fine_counterexamples_with_fix_switched_off': cexs,
            'fine_simulated_behaviours': nsim, 'fine_behaviours_replayed': nrep, 'fine_actions_replayed_with_equal_projection': nact,
            'fine_replay_drift': ndrift, 'fine_adversarial_schedules_replayed': nadv, 'fine_adversarial_actions_not_enabled': nskip,
            'fine_recorded_traces_validated': nrec, 'fine_recorded_events': nev, 'fine_recorded_traces_rejected': nrej,
            'fine_trace_states': tst, 'fine_unobservable_anchors': sorted(missing),
            'fine_model_variant': 'DropLateBoxes=%s (chosen by the content anchor of Worker._drop_mailboxes_if_cancelled)' % repaired(),
        }
        return cov, traces, notes


def start(prop, ctx):
    return Handle(prop, ctx)


def merge(model_cov, fcov):
    """Fold the WorkerFine numbers into the L2 totals of the check's evidence."""
    model_cov.update(fcov)
    model_cov['l2_states'] = model_cov.get('l2_states', 0) + fcov['fine_states']
    model_cov['l2_transitions'] = model_cov.get('l2_transitions', 0) + fcov['fine_transitions']
    return model_cov


def _late_mailbox_residue(tr, step):
    """Did the owner task of the left-over mailbox the L1 verdict at event `step` (1-based, a Quiescent event) is about go on
    executing (any event of its body) after it had become cancelled work?  Computed from the L1 trace alone, for the
    known-finding key: the known defect needs a task that is executing when its cancellation is handled."""
    ev = tr['ev']
    parent = tr['parent']

    def anc(k):
        out = set()
        while k:
            out.add(k)
            k = parent[k - 1]
        return out
    futs = {}                 # f -> dict(owner, kids, consumed, cancelled_at, submit_at)
    comp_cancel_at = {}
    for n, e in enumerate(ev[:step], 1):
        k = e['e']
        if k == 'Submit':
            futs[e['f']] = {'owner': e['t'], 'kids': list(e['kids']), 'consumed': False, 'cancelled_at': None, 'submit_at': n}
        elif k == 'AwaitReturn' and e['f'] in futs:
            futs[e['f']]['consumed'] = True
        elif k == 'Cancel' and e['f'] in futs and futs[e['f']]['cancelled_at'] is None:
            futs[e['f']]['cancelled_at'] = n
        elif k == 'TaskEnd':
            for f in futs.values():
                if f['owner'] == e['t'] and not f['consumed'] and f['cancelled_at'] is None:
                    f['cancelled_at'] = n
        elif k == 'ClientCall' and e['call'] in ('cancel', 'close'):
            for c in range(1, tr['nc'] + 1):
                if tr['cowner'][c - 1] == e['c'] and (e['call'] == 'close' or e['cid'] == c):
                    comp_cancel_at.setdefault(c, n)
        elif k == 'ClientReturn' and e['kind'] == 'error':
            for c in range(1, tr['nc'] + 1):
                if tr['cowner'][c - 1] == e['c']:
                    comp_cancel_at.setdefault(c, n)

    def cancelled_at(task):
        times = [f['cancelled_at'] for f in futs.values() if f['cancelled_at'] is not None and set(f['kids']) & anc(task)]
        c = tr['tcomp'][task - 1]
        if c in comp_cancel_at:
            times.append(comp_cancel_at[c])
        return min(times) if times else None
    for r in ev[step - 1]['residue']:
        if r['kind'] == 'task':
            if 1 <= r['id'] <= tr['nt'] and cancelled_at(r['id']) is not None:
                return False
        elif r['kind'] == 'future' and r['id'] in futs:
            f = futs[r['id']]
            own = cancelled_at(f['owner'])
            if f['cancelled_at'] is not None or own is not None:
                body = ('TaskStart', 'Submit', 'AwaitCall', 'AwaitReturn', 'NextReturn', 'Cancel', 'TaskEnd', 'TaskRaise')
                return bool(r['tab'] == 'worker.mailboxes' and own is not None
                            and any(x['e'] in body and x['t'] == f['owner'] for x in ev[own:step]))
        elif r['kind'] == 'comp' and r['id'] in comp_cancel_at:
            return False
    return False


def annotate_residue(out):
    """Key field for known-finding matching: a left-over mailbox of cancelled work whose owner went on executing after its
    cancellation (the owner was running when the CANCEL was handled) - needs rtcheck.validate(keep_items=True)."""
    items = getattr(out, 'items', None) or []
    by_clients = {id(sc.get('clients')): tr for tr, dg, sc in items}
    for v in out.violations:
        f = v.replay.get('scenario', {}).get('fine')
        if f:                        # say where a WorkerFine execution came from
            v.key['fine_config'], v.key['fine_mode'] = f['cfg'], f['mode']
            v.detail += '\nWorkerFine execution: configuration %s, mode %s (guided = TLC behaviour replayed action by action, schedule = TLC ' \
                        'counterexample of a model with a fix switched off used as a schedule, random = anchor-granular random run)' % (f['cfg'], f['mode'])
        if not v.clause.startswith('residue-of-cancelled-work:worker.mailboxes'):
            continue
        tr = by_clients.get(id(v.replay.get('scenario', {}).get('clients')))
        m = re.search(r'at event (\d+)', v.detail)
        if tr is None or not m:
            continue
        try:
            v.key['owner_ran_after_its_cancellation'] = _late_mailbox_residue(tr, int(m.group(1)))
        except (KeyError, IndexError, TypeError):
            pass
    out.items = None


def replay_outcome(prop, ctx, also=()):
    """--replay of a violation that came from a WorkerFine execution."""
    from harness import rtcheck
    common.use_repo()
    import logging
    logging.disable(logging.CRITICAL)
    sc = ctx.replay['replay']['scenario']
    f = sc['fine']
    if f['mode'] == 'random':
        o = record_run(f['cfg'], f['seed'])
    else:
        o = replay(f['cfg'], f['beh'], mode=f['mode'], seed=f['seed'])
    out = rtcheck.validate(prop, [], ctx, also=also, extra_traces=[(o['trace'], o['diag'], o['scenario'])], keep_items=True)
    annotate_residue(out)
    return out


if __name__ == '__main__':
    import sys
    if sys.argv[1:] == ['--write-static']:
        write_static()
        print('wrote WorkerFineMC.tla and %d configuration files' % len(CONFIGS))
