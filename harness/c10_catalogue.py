"""C10: the pass catalogue (how to construct each pass, which inputs it gets, how it is run) and the observation of one run.

The contract of every entry lives in specs/exact/PassContracts.tla; this module only builds inputs, runs the real pass and
serialises what came out.  A case spec (JSON-able) is
    {pass, ctor: {...}, opt: {a: [...], b: [...]}, r: radixes, ops: Monomial op records of the input, build: how to build the
     real input circuit from ops, run: 'direct' | 'sim', tol, workers, sched, src}
"""
from __future__ import annotations

import itertools
import math
import random

import numpy as np

from harness import exact

TOL_EXACT = 1e-7
TOL_NUM = 1e-5


# ------------------------------------------------------------------ names / signatures
def gname(g):
    n = type(g).__name__
    if n in ('VariableUnitaryGate', 'ConstantUnitaryGate', 'MPRYGate', 'MPRZGate', 'PauliGate', 'DiagonalGate', 'IdentityGate') \
            and g.num_qudits > 1:
        return '%s/%d' % (n, g.num_qudits)
    return n


def gate_names(circ):
    """Gate class names of a circuit, CircuitGates looked into (their own name is kept too)."""
    from bqskit.ir.gates import CircuitGate
    out = []
    for op in circ:
        out.append(gname(op.gate))
        if isinstance(op.gate, CircuitGate):
            out += gate_names(op.gate._circuit)
    return sorted(set(out))


def per_qudit(circ, loc_map=None, acc=None):
    """Per-qudit sequences of operation signatures with CircuitGates unfolded."""
    from bqskit.ir.gates import CircuitGate
    n = circ.num_qudits
    top = acc is None
    if top:
        acc = [[] for _ in range(n)]
        loc_map = list(range(n))
    for op in circ:
        loc = [loc_map[q] for q in op.location]
        if isinstance(op.gate, CircuitGate):
            inner = op.gate._circuit.copy()
            inner.set_params(op.params)
            per_qudit(inner, loc, acc)
        else:
            sig = '%s%s%s' % (gname(op.gate), loc, [round(float(p), 6) for p in op.params])
            for q in loc:
                acc[q].append(sig)
    return acc


def count_ops(circ):
    from bqskit.ir.gates import CircuitGate
    k = 0
    for op in circ:
        k += count_ops(op.gate._circuit) if isinstance(op.gate, CircuitGate) else 1
    return k


# ------------------------------------------------------------------ inputs
def build_input(spec):
    """Real Circuit from a case spec."""
    from bqskit.ir.circuit import Circuit
    from bqskit.ir.gates import CHGate
    from bqskit.ir.gates import CircuitGate
    from bqskit.ir.gates import ConstantUnitaryGate
    from bqskit.ir.gates import VariableUnitaryGate
    r = spec['r']

    def table_matrix(t):
        dim = len(t)
        U = np.zeros((dim, dim), dtype=complex)
        for b, e in enumerate(t):
            U[e['idx'], b] = np.exp(2j * np.pi * e['ph'] / exact.PH)
        return U

    def add(c, o, radixes):
        lr = [radixes[q] for q in o['loc']]
        if o['g'] == 'BLOCK':
            inner = Circuit(len(lr), lr)
            for x in o['ops']:
                add(inner, x, lr)
            c.append_gate(CircuitGate(inner, True), o['loc'], inner.params)
        elif o['g'] == 'TABLE':
            U = table_matrix(o['t'])
            if spec['build'].get('table_as') == 'variable':
                c.append_gate(VariableUnitaryGate(len(lr), lr), o['loc'], VariableUnitaryGate.get_params(U))
            else:
                c.append_gate(ConstantUnitaryGate(U, lr), o['loc'])
        else:
            g = exact.bq_gate(o['g'], o['p'], lr[0], lr)
            c.append_gate(g, o['loc'], exact.real_params(o['g'], o['p']))
    c = Circuit(len(r), r)
    pads = {int(k): v for k, v in spec['build'].get('ch_pairs', {}).items()}       # position -> location of a CH CH pair (= identity)
    for i, o in enumerate(spec['ops'] + [None]):
        if i in pads:
            c.append_gate(CHGate(), pads[i])
            c.append_gate(CHGate(), pads[i])
        if o is not None:
            add(c, o, r)
    for i, o in enumerate(spec['build'].get('pop', [])):          # ops that are appended and popped again: leave idle cycles behind
        pass
    return c


def build_with_holes(spec):
    """For CompressPass: build ops + extra ops, then pop the extra ones so that idle cycles / late positions remain."""
    from bqskit.ir.circuit import Circuit
    r = spec['r']
    c = Circuit(len(r), r)
    marks = []
    seq = spec['build']['interleaved']            # list of [is_extra, op]
    for extra, o in seq:
        lr = [r[q] for q in o['loc']]
        g = exact.bq_gate(o['g'], o['p'], lr[0], lr)
        cyc = c.append_gate(g, o['loc'], exact.real_params(o['g'], o['p']))
        if extra:
            marks.append((cyc, o['loc'][0]))
    for pt in sorted(marks, reverse=True):
        c.pop(pt)
    return c


# ------------------------------------------------------------------ pass construction
def make_pass(spec):
    import bqskit.passes as P
    from bqskit.compiler.workflow import Workflow
    from bqskit.ir import gates as G
    name, k = spec['pass'], spec.get('ctor', {})

    def gate(n):
        return getattr(G, n)()
    simple = {'CNOTToCZPass', 'CZToCNOTPass', 'CNOTToCYPass', 'CYToCNOTPass', 'CNOTToCHPass', 'CHToCNOTPass', 'SwapToCNOTPass',
              'U3Decomposition', 'CompressPass', 'UnfoldPass', 'GroupSingleQuditGatePass', 'FillSingleQuditGatesPass',
              'GeneralSQDecomposition'}
    if name == 'CZToCNOTPass':
        from bqskit.passes.rules.cz2cnot import CZToCNOTPass
        return [CZToCNOTPass()]
    if name in simple:
        return [getattr(P, name)()]
    if name == 'ZXZXZDecomposition':
        return [P.ZXZXZDecomposition(bool(k.get('rx')), bool(k.get('u1')))]
    if name == 'ToU3Pass':
        return [P.ToU3Pass(bool(k.get('all')))]
    if name == 'ToVariablePass':
        return [P.ToVariablePass(bool(k.get('all')))]
    if name == 'BlockConversionPass':
        return [P.BlockConversionPass(k['target'], bool(k.get('variable', True)), bool(k.get('constant', True)),
                                      bool(k.get('circuitgates', True)))]
    if name == 'QuickPartitioner':
        return [P.QuickPartitioner(k.get('size', 3))]
    if name == 'QuickPartitioner+UnfoldPass':
        return [P.QuickPartitioner(k.get('size', 3)), P.UnfoldPass()]
    if name == 'GroupSingleQuditGatePass+UnfoldPass':
        return [P.GroupSingleQuditGatePass(), P.UnfoldPass()]
    if name == 'ExtendBlockSizePass':
        return [P.ExtendBlockSizePass(k.get('min'))]
    if name == 'ScanningGateRemovalPass':
        return [P.ScanningGateRemovalPass(bool(k.get('left', True)), k.get('thr', 1e-8))]
    if name == 'IterativeScanningGateRemovalPass':
        return [P.IterativeScanningGateRemovalPass(start_from_left=bool(k.get('left', True)), success_threshold=k.get('thr', 1e-8))]
    if name == 'TreeScanningGateRemovalPass':
        return [P.TreeScanningGateRemovalPass(bool(k.get('left', True)), k.get('thr', 1e-8), tree_depth=k.get('depth', 1))]
    if name == 'ExhaustiveGateRemovalPass':
        return [P.ExhaustiveGateRemovalPass(k.get('thr', 1e-8))]
    if name == 'ExtractDiagonalPass':
        from bqskit.passes.processing.extract_diagonal import ExtractDiagonalPass
        return [ExtractDiagonalPass(k.get('size', 2))]
    if name == 'WalshDiagonalSynthesisPass':
        return [P.WalshDiagonalSynthesisPass()]
    if name == 'QSDPass':
        return [P.QSDPass(k.get('min', 2))]
    if name == 'FullQSDPass':
        return [P.FullQSDPass(k.get('min', 2), bool(k.get('scan')), bool(k.get('left', True)))]
    if name == 'BlockZXZPass':
        return [P.BlockZXZPass(k.get('min', 2))]
    if name == 'FullBlockZXZPass':
        return [P.FullBlockZXZPass(k.get('min', 2), bool(k.get('scan')), bool(k.get('left', True)), perform_extract=bool(k.get('extract', True)))]
    if name == 'MGDPass':
        return [P.MGDPass(bool(k.get('twice', True)))]
    if name == 'Rebase2QuditGatePass':
        return [P.Rebase2QuditGatePass(gate(k['src']), gate(k['dst']), k.get('depth', 3))]
    if name == 'AutoRebase2QuditGatePass':
        return [P.AutoRebase2QuditGatePass(k.get('depth', 3))]
    raise KeyError(name)


def gate_set_for(spec):
    """data.gate_set for the run (the model's gate set is an input of several passes)."""
    from bqskit.compiler.gateset import GateSet
    from bqskit.ir import gates as G
    names = spec.get('gate_set')
    if not names:
        return None
    gs = []
    for n in names:
        if n == 'VariableUnitaryGate/q3':
            gs.append(G.VariableUnitaryGate(1, [3]))
        elif n == 'CSUMGate/3':
            gs.append(G.CSUMGate(3))
        elif n == 'VariableUnitaryGate':
            gs.append(G.VariableUnitaryGate(1))
        else:
            gs.append(getattr(G, n)())
    return GateSet(gs)


# ------------------------------------------------------------------ one run
def observe(spec):
    """Run the pass of ``spec`` on its input; returns the validation record (module level: used from a forked pool)."""
    from bqskit.compiler.passdata import PassData
    from bqskit.compiler.workflow import Workflow
    if 'interleaved' in spec['build']:
        circ = build_with_holes(spec)
    else:
        circ = build_input(spec)
    rec = {'pass': spec['pass'], 'opt': {'a': list(spec['opt'].get('a', [])), 'b': list(spec['opt'].get('b', []))},
           'r': spec['r'], 'ops': spec['ops'], 'raised': False,
           'gin': gate_names(circ), 'nin': count_ops(circ), 'qin': per_qudit(circ)}
    inp_cycles = circ.num_cycles
    passes = make_pass(spec)
    gs = gate_set_for(spec)
    err = ''
    out = circ.copy()
    try:
        if spec.get('run') == 'sim':
            from harness.simcompile import SimCompiler
            wf = passes
            if gs is not None:
                from bqskit.compiler.machine import MachineModel
                from bqskit.passes import SetModelPass
                wf = [SetModelPass(MachineModel(circ.num_qudits, None, gs, list(circ.radixes)))] + passes
            with SimCompiler(num_workers=spec.get('workers', 2), sched_seed=spec.get('sched', 0)) as sc:
                out = sc.compile(out, wf)
        else:
            data = PassData(out)
            if gs is not None:
                data.gate_set = gs
            if spec.get('seed') is not None:
                data.seed = spec['seed']
            co = Workflow(passes).run(out, data)
            try:
                co.send(None)
                raise RuntimeError('MACHINERY: pass awaited the runtime; catalogue entry must use run=sim')
            except StopIteration:
                pass
    except Exception as e:           # noqa
        if 'MACHINERY' in str(e):
            return {'machinery': str(e)}
        rec['raised'] = True
        err = '%s: %s' % (type(e).__name__, (str(e) + ' | ' + str(e.__cause__))[-500:])
    rec['err_text'] = err
    if rec['raised']:
        rec.update({'obs': [{'idx': 0, 'ph': 0, 'within': False}], 'gout': [], 'nout': 0, 'qout': []})
        return rec
    U = exact.own_unitary(out)
    rec['obs'] = exact.table_of(U, tol=spec.get('tol', TOL_EXACT), absolute=False)
    rec['gout'] = gate_names(out)
    rec['nout'] = count_ops(out)
    rec['qout'] = per_qudit(out)
    rec['cycles'] = [inp_cycles, out.num_cycles]
    return rec


# ------------------------------------------------------------------ case generators
def op(g, loc, p=()):
    return exact.op_record(g, list(p), list(loc))


def table_op(U, loc):
    return exact.op_record('TABLE', [], list(loc), t=exact.strip(exact.table_of(U)))


ALPHA2 = [('X', 1), ('Z', 1), ('S', 1), ('T', 1), ('CX', 2), ('CY', 2), ('CZ', 2), ('SWAP', 2)]


def enum2(maxops=3):
    """All circuits of <= maxops ops over the two-qubit alphabet of specs/exact/PassRewriteMC.tla (same finite set)."""
    alpha = [op(g, [q]) for g, k in ALPHA2 if k == 1 for q in (0, 1)] + \
            [op(g, l) for g, k in ALPHA2 if k == 2 for l in ([0, 1], [1, 0])]
    for n in range(maxops + 1):
        for combo in itertools.product(alpha, repeat=n):
            yield list(combo)


GNAME = {'X': 'XGate', 'Y': 'YGate', 'Z': 'ZGate', 'S': 'SGate', 'Sdg': 'SdgGate', 'T': 'TGate', 'Tdg': 'TdgGate', 'SqrtT': 'SqrtTGate',
         'CX': 'CNOTGate', 'CY': 'CYGate', 'CZ': 'CZGate', 'CS': 'CSGate', 'CT': 'CTGate', 'SWAP': 'SwapGate', 'ISWAP': 'ISwapGate',
         'Sycamore': 'SycamoreGate', 'ZZ': 'ZZGate', 'CCX': 'ToffoliGate', 'RZ': 'RZGate', 'U1': 'U1Gate', 'RX': 'RXGate', 'RY': 'RYGate',
         'U3': 'U3Gate', 'CP': 'CPGate', 'CRZ': 'CRZGate', 'RZZ': 'RZZGate', 'CRX': 'CRXGate', 'CRY': 'CRYGate', 'CCP': 'CCPGate',
         'Clock': 'ClockGate', 'Shift': 'ShiftGate', 'CSUM': 'CSUMGate'}


def rand_ops(rng, n, nops, arities=(1, 2, 3), with_params=True, radix=2, force=None):
    """Random monomial op records on n qudits (the circuit is built later by build_input)."""
    radixes = [radix] * n
    ops = []
    tries = 0
    while len(ops) < nops and tries < nops * 30:
        tries += 1
        k = rng.choice([a for a in arities if a <= n])
        loc = rng.sample(range(n), k)
        names = exact.names_for([radixes[q] for q in loc], loc)
        if not with_params:
            names = [x for x in names if x not in exact.PARAM_ARITY]
        if force and rng.random() < 0.45:
            cand = [f for f in force if exact.ARITY.get(f, 1) == k and (f in names or f == 'SWAP')]
            if cand:
                names = cand
        if not names:
            continue
        name = rng.choice(names)
        ops.append(op(name, loc, exact.random_params(rng, name)))
    return ops


def base(passname, r, ops, src, **kw):
    d = {'pass': passname, 'ctor': {}, 'opt': {'a': [], 'b': []}, 'r': list(r), 'ops': ops, 'build': {}, 'run': 'direct',
         'tol': TOL_EXACT, 'src': src}
    d.update(kw)
    return d


RULES = {'CNOTToCZPass': 'CX', 'CZToCNOTPass': 'CZ', 'CNOTToCYPass': 'CX', 'CYToCNOTPass': 'CY', 'CNOTToCHPass': 'CX',
         'SwapToCNOTPass': 'SWAP'}


def monomial_table(rng, radixes):
    dim = int(np.prod(radixes))
    perm = list(range(dim))
    rng.shuffle(perm)
    U = np.zeros((dim, dim), dtype=complex)
    for b in range(dim):
        U[perm[b], b] = np.exp(2j * np.pi * rng.randrange(0, exact.PH, 6) / exact.PH)
    return U


def diagonal_table(rng, n):
    dim = 2 ** n
    U = np.zeros((dim, dim), dtype=complex)
    for b in range(dim):
        U[b, b] = np.exp(2j * np.pi * rng.randrange(0, exact.PH, 6) / exact.PH)
    return U


def block_ops(rng, n, nblocks):
    """Input with CircuitGate blocks (BLOCK records), some nested."""
    ops = []
    for _ in range(nblocks):
        k = rng.randint(1, min(3, n))
        loc = sorted(rng.sample(range(n), k)) if rng.random() < 0.6 else rng.sample(range(n), k)
        if rng.random() < 0.7:
            inner = rand_ops(rng, k, rng.randint(1, 4), with_params=rng.random() < 0.5)
            if k >= 2 and rng.random() < 0.3:
                k2 = rng.randint(1, k)
                inner.append(exact.op_record('BLOCK', [], sorted(rng.sample(range(k), k2)), ops=rand_ops(rng, k2, 2)))
            ops.append(exact.op_record('BLOCK', [], loc, ops=inner))
        else:
            ops += [o for o in rand_ops(rng, n, 1)]
    return ops


def generate(seed, quick=True):
    """The list of case specs of a run (deterministic in seed)."""
    rng = random.Random(seed * 104729 + 5)
    cases = []
    W = (1, 2, 3) if quick else (1, 2, 3, 4, 5)

    def widths(lo=1):
        return [w for w in W if w >= lo]
    # ---- rule passes on the TLC alphabet circuits (every circuit <= 3 ops that contains the source gate; quick: sampled)
    e2 = list(enum2(3))
    for pname, srcg in RULES.items():
        withsrc = [c for c in e2 if any(o['g'] == srcg for o in c)]
        pick = withsrc if not quick else rng.sample(withsrc, 220)
        for ops in pick:
            cases.append(base(pname, [2, 2], ops, 'enum2'))
    # ---- rule passes on random monomial circuits
    nrand = 40 if quick else 400
    for pname, srcg in RULES.items():
        for i in range(nrand):
            n = rng.choice(widths(2))
            cases.append(base(pname, [2] * n, rand_ops(rng, n, rng.randint(1, 9), force=[srcg]), 'random'))
    # CHToCNOT: the source gate is not monomial; CH CH pairs (= identity) are padded into monomial circuits
    for i in range(nrand):
        n = rng.choice(widths(2))
        ops = rand_ops(rng, n, rng.randint(0, 6))
        pads = {str(p): rng.sample(range(n), 2) for p in rng.sample(range(len(ops) + 1), min(len(ops) + 1, rng.randint(1, 3)))}
        cases.append(base('CHToCNOTPass', [2] * n, ops, 'random+CHCH', build={'ch_pairs': pads}))
    # ---- single-qubit circuits
    for i in range(60 if quick else 600):
        ops = rand_ops(rng, 1, rng.randint(1, 6))
        cases.append(base('U3Decomposition', [2], ops, 'random-1q'))
        rx, u1 = rng.random() < 0.5, rng.random() < 0.5
        cases.append(base('ZXZXZDecomposition', [2], ops, 'random-1q', ctor={'rx': rx, 'u1': u1},
                          opt={'a': [], 'b': ['RXGate' if rx else 'SqrtXGate', 'U1Gate' if u1 else 'RZGate']}))
        cases.append(base('GeneralSQDecomposition', [2], ops, 'random-1q', opt={'a': [], 'b': ['U3Gate']}, gate_set=['U3Gate', 'CNOTGate']))
    for i in range(12 if quick else 100):      # qutrit circuits, gate set with a general qutrit gate
        ops = rand_ops(rng, 1, rng.randint(1, 4), radix=3)
        cases.append(base('GeneralSQDecomposition', [3], ops, 'random-1qutrit', opt={'a': [], 'b': ['VariableUnitaryGate']},
                          gate_set=['VariableUnitaryGate/q3', 'CSUMGate/3']))
    # ---- conversions
    for i in range(50 if quick else 500):
        n = rng.choice(widths())
        ops = rand_ops(rng, n, rng.randint(1, 8))
        sq = sorted({GNAME[o['g']] for o in ops if len(o['loc']) == 1 and o['g'] in GNAME})
        allq = rng.random() < 0.6
        general = {'U3Gate'}
        cases.append(base('ToU3Pass', [2] * n, ops, 'random', ctor={'all': allq},
                          opt={'a': [g for g in sq if g != 'U3Gate'] if allq else [], 'b': []}))
        cases.append(base('ToVariablePass', [2] * n, ops, 'random', ctor={'all': allq},
                          opt={'a': sq if allq else [g for g in sq if g in general], 'b': []}))
    # ---- structure passes
    for i in range(60 if quick else 600):
        n = rng.choice(widths())
        ops = rand_ops(rng, n, rng.randint(1, 10))
        cases.append(base('GroupSingleQuditGatePass', [2] * n, ops, 'random'))
        cases.append(base('GroupSingleQuditGatePass+UnfoldPass', [2] * n, ops, 'random'))
        if n >= 2:
            size = rng.randint(2, 3)
            cases.append(base('QuickPartitioner', [2] * n, ops, 'random', ctor={'size': size}))
            cases.append(base('QuickPartitioner+UnfoldPass', [2] * n, ops, 'random', ctor={'size': size}))
        bops = block_ops(rng, n, rng.randint(1, 4))
        cases.append(base('UnfoldPass', [2] * n, bops, 'blocks'))
        # CompressPass: extra ops are appended and popped again
        seq = [[False, o] for o in ops]
        for _ in range(rng.randint(1, 4)):
            seq.insert(rng.randrange(len(seq) + 1), [True, rand_ops(rng, n, 1, with_params=False)[0]])
        cases.append(base('CompressPass', [2] * n, ops, 'holes', build={'interleaved': seq}))
    # ---- FillSingleQuditGatesPass
    for i in range(50 if quick else 500):
        n = rng.choice(widths())
        ops = rand_ops(rng, n, rng.randint(1, 8))
        sq = sorted({GNAME[o['g']] for o in ops if len(o['loc']) == 1 and o['g'] in GNAME})
        cases.append(base('FillSingleQuditGatesPass', [2] * n, ops, 'random', opt={'a': [g for g in sq if g != 'U3Gate'], 'b': ['U3Gate']},
                          gate_set=['U3Gate', 'CNOTGate']))
    # ---- block conversion
    for i in range(30 if quick else 300):
        n = rng.choice(widths(2))
        ops = block_ops(rng, n, rng.randint(1, 3))
        k = rng.randint(1, min(2, n))
        ops.append(table_op(monomial_table(rng, [2] * k), rng.sample(range(n), k)))
        tgt = rng.choice(['variable', 'constant'])
        tas = rng.choice(['variable', 'constant'])
        gone = ['CircuitGate'] + ([('VariableUnitaryGate' if tas == 'variable' else 'ConstantUnitaryGate') + ('/2' if k == 2 else '')]
                                  if tas != tgt else [])
        new = [('VariableUnitaryGate' if tgt == 'variable' else 'ConstantUnitaryGate') + s for s in ('', '/2', '/3')]
        cases.append(base('BlockConversionPass', [2] * n, ops, 'blocks+table', ctor={'target': tgt}, build={'table_as': tas},
                          opt={'a': gone, 'b': new}))
    # ---- removal passes (numerical): redundant pairs make removals possible
    for i in range(24 if quick else 300):
        n = rng.choice([1, 2] if quick else [1, 2, 3])
        ops = rand_ops(rng, n, rng.randint(1, 4))
        for _ in range(rng.randint(0, 2)):
            o = rand_ops(rng, n, 1, with_params=False)[0]
            if o['g'] in ('X', 'Y', 'Z', 'CX', 'CY', 'CZ', 'SWAP', 'CCX'):
                j = rng.randrange(len(ops) + 1)
                ops[j:j] = [o, o]
        left = rng.random() < 0.5
        thr = rng.choice([1e-8, 1e-10])
        tol = max(TOL_NUM, 10 * math.sqrt(thr))        # the threshold bounds a squared distance
        cases.append(base('ScanningGateRemovalPass', [2] * n, ops, 'random+pairs', ctor={'left': left, 'thr': thr}, tol=tol, seed=i))
        if i % 2 == 0:
            cases.append(base('IterativeScanningGateRemovalPass', [2] * n, ops, 'random+pairs', ctor={'left': left, 'thr': thr},
                              tol=tol, seed=i))
    # ---- diagonal synthesis
    for i in range(40 if quick else 400):
        n = rng.choice(widths())
        U = diagonal_table(rng, n)
        cases.append(base('WalshDiagonalSynthesisPass', [2] * n, [table_op(U, list(range(n)))], 'diagonal-table', tol=1e-6))
    # ---- runtime-awaiting decompositions, through the simulated runtime
    nsim = 6 if quick else 60
    for i in range(nsim):
        U = monomial_table(rng, [2, 2, 2])
        ops3 = [table_op(U, rng.sample(range(3), 3))]
        w, s = rng.randint(1, 3), rng.randrange(1 << 16)
        cases.append(base('QSDPass', [2, 2, 2], ops3, 'monomial-unitary', ctor={'min': 2}, run='sim', tol=TOL_NUM, workers=w, sched=s,
                          build={'table_as': 'variable'},
                          opt={'a': ['VariableUnitaryGate/3'], 'b': ['VariableUnitaryGate/2', 'MPRZGate/3', 'MPRYGate/3']}))
        cases.append(base('BlockZXZPass', [2, 2, 2], ops3, 'monomial-unitary', ctor={'min': 2}, run='sim', tol=TOL_NUM, workers=w, sched=s,
                          build={'table_as': 'variable'},
                          opt={'a': ['VariableUnitaryGate/3'], 'b': ['VariableUnitaryGate/2', 'MPRZGate/3', 'MPRYGate/3', 'HGate', 'CNOTGate', 'RZGate', 'CZGate']}))
        cases.append(base('FullQSDPass', [2, 2, 2], ops3, 'monomial-unitary', ctor={'min': 2}, run='sim', tol=TOL_NUM, workers=w, sched=s,
                          build={'table_as': 'variable'},
                          opt={'a': ['VariableUnitaryGate/3', 'MPRZGate/3', 'MPRYGate/3'],
                               'b': ['VariableUnitaryGate/2', 'VariableUnitaryGate', 'CNOTGate', 'RZGate', 'RYGate', 'MPRZGate/2', 'MPRYGate/2']}))
    for i in range(4 if quick else 40):
        n = 2
        ops = rand_ops(rng, n, rng.randint(2, 5), arities=(1, 2), with_params=False, force=['CZ'])
        if not any(o['g'] == 'CZ' for o in ops):
            ops.append(op('CZ', [0, 1]))
        ops = [o for o in ops if len(o['loc']) == 1 or o['g'] == 'CZ']
        cases.append(base('Rebase2QuditGatePass', [2] * n, ops, 'random', ctor={'src': 'CZGate', 'dst': 'CNOTGate'}, run='sim', tol=TOL_NUM,
                          workers=rng.randint(1, 3), sched=rng.randrange(1 << 16), opt={'a': ['CZGate'], 'b': ['CNOTGate', 'U3Gate']}))
    # ---- multiplexed-rotation decomposition (monomial points of MPRZ / MPRY)
    for i in range(16 if quick else 160):
        kind = ('MPRZ', 'MPRY')[i % 2]
        n = rng.choice([2, 3])
        ps = [rng.randint(-8, 8) for _ in range(2 ** (n - 1))] if kind == 'MPRZ' else [4 * rng.randint(-2, 2) for _ in range(2 ** (n - 1))]
        ops = rand_ops(rng, n, rng.randint(0, 2), with_params=False) + [exact.op_record(kind, [rng.randrange(n)] + ps, list(range(n)))]
        twice = rng.random() < 0.5
        cases.append(base('MGDPass', [2] * n, ops, 'random+mpr', ctor={'twice': twice}, tol=1e-6,
                          opt={'a': ['%sGate/3' % kind] if n == 3 else [], 'b': ['CNOTGate', 'RZGate', 'RYGate', 'MPRZGate/2', 'MPRYGate/2']}))
    # ---- diagonal extraction (numerical) and the full Block-ZXZ flow that uses it by default
    for i in range(3 if quick else 40):
        ops = [table_op(monomial_table(rng, [2, 2]), [0, 1]) for _ in range(rng.randint(2, 3))]
        cases.append(base('ExtractDiagonalPass', [2, 2], ops, 'monomial-unitaries', build={'table_as': 'variable'}, tol=TOL_NUM,
                          opt={'a': [], 'b': []}))
    for i in range(4 if quick else 40):
        U = monomial_table(rng, [2, 2, 2])
        extract = i % 2 == 0
        cases.append(base('FullBlockZXZPass', [2, 2, 2], [table_op(U, [0, 1, 2])], 'monomial-unitary', ctor={'min': 2, 'extract': extract},
                          run='sim', tol=TOL_NUM, workers=rng.randint(1, 3), sched=rng.randrange(1 << 16), build={'table_as': 'variable'},
                          opt={'a': ['VariableUnitaryGate/3', 'MPRZGate/3', 'MPRYGate/3'],
                               'b': ['VariableUnitaryGate/2', 'VariableUnitaryGate', 'CNOTGate', 'RZGate', 'RYGate', 'HGate', 'CZGate',
                                     'DiagonalGate/2', 'MPRZGate/2', 'MPRYGate/2']}))
    for i in range(3 if quick else 30):
        ops = rand_ops(rng, 2, rng.randint(2, 4), arities=(1, 2), with_params=False, force=['CZ'])
        ops = [o for o in ops if len(o['loc']) == 1 or o['g'] == 'CZ'] + [op('CZ', [0, 1])]
        cases.append(base('AutoRebase2QuditGatePass', [2, 2], ops, 'random', ctor={'depth': 3}, run='sim', tol=TOL_NUM,
                          gate_set=['CNOTGate', 'U3Gate'], workers=rng.randint(1, 3), sched=rng.randrange(1 << 16),
                          opt={'a': ['CZGate'], 'b': ['CNOTGate', 'U3Gate']}))
    if not quick:
        for i in range(30):
            n = rng.choice([1, 2])
            ops = rand_ops(rng, n, rng.randint(2, 4))
            cases.append(base('TreeScanningGateRemovalPass', [2] * n, ops, 'random', ctor={'left': rng.random() < 0.5, 'thr': 1e-8, 'depth': rng.randint(1, 2)},
                              run='sim', tol=1e-3, workers=2, sched=i))
            cases.append(base('ExhaustiveGateRemovalPass', [2] * n, ops, 'random', ctor={'thr': 1e-8}, run='sim', tol=1e-3, workers=2, sched=i))
    return cases
