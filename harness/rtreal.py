"""Real-process mode: the same task programs and client scripts on a REAL detached runtime (bqskit-manager +
bqskit-server child processes on private ports, real sockets, OS scheduling), traces validated by the same L1
specification.  Used for OS-scheduled conformance traces (C07) and real process-death runs (C14).

Only observable events are recorded (no internal tables): task events from the interpreter, client calls, Crash,
and an idle snapshot holding the blocked clients and the runtime processes still alive.
"""
from __future__ import annotations

import json
import os
import random
import signal
import socket
import subprocess
import sys
import tempfile
import threading
import time

from harness import common


def _free_ports(n):
    socks, ports = [], []
    for _ in range(n):
        s = socket.socket()
        s.bind(('127.0.0.1', 0))
        socks.append(s)
        ports.append(s.getsockname()[1])
    for s in socks:
        s.close()
    return ports


def _children(pid):
    try:
        out = subprocess.run(['pgrep', '-P', str(pid)], capture_output=True, text=True).stdout.split()
        return [int(x) for x in out]
    except Exception:
        return []


def run_real(sc, scratch, call_timeout=40.0):
    """sc: as in rtdrive (topo must be ['detached', [n]] - one manager); crash = [victim, delay_seconds] with victim
    'worker' or 'manager'.  Returns (trace, diag)."""
    from harness import rtdrive, rtprog
    tdir = tempfile.mkdtemp(prefix='rtreal', dir=scratch)
    os.environ['VERIF_RT_TRACE'] = tdir
    rtprog.TRACE_DIR = tdir
    progs = dict(sc['progs'])
    rtprog.reset({k: [tuple(i) for i in v] for k, v in progs.items()})
    handles, cowner, cfn, _ = rtdrive.static_ids(sc)
    croot = [rtprog.preregister(c + 1, fn) for c, fn in enumerate(cfn)]
    rtprog.dump_static(tdir)
    nw = sc['topo'][1][0]
    mp, wp, sp = _free_ports(3)
    env = dict(os.environ)
    env['PYTHONPATH'] = common.REPO + os.pathsep + common.VERIF
    env['VERIF_RT_TRACE'] = tdir
    env.pop('BQSKIT_VERIF', None)
    log = open(os.path.join(tdir, 'procs.log'), 'w')
    man = subprocess.Popen([sys.executable, '-c', 'from bqskit.runtime.manager import start_manager; start_manager()',
                            '-n', str(nw), '-p', str(mp), '-w', str(wp)], env=env, stdout=log, stderr=log, cwd=tdir)
    time.sleep(0.3)
    srv = subprocess.Popen([sys.executable, '-c', 'from bqskit.runtime.detached import start_server; start_server()',
                            'localhost:%d' % mp, '-p', str(sp)], env=env, stdout=log, stderr=log, cwd=tdir)
    # wait until the server listens for clients (imports dominate start-up on a busy machine)
    t_end = time.time() + 120
    while time.time() < t_end:
        out = subprocess.run(['ss', '-ltn'], capture_output=True, text=True).stdout
        if (':%d ' % sp) in out:
            break
        if srv.poll() is not None or man.poll() is not None:
            break
        time.sleep(0.3)
    pending = {}
    uuid2cid, cid2uuid = {}, {}
    first_submit = threading.Event()

    import bqskit.compiler.compiler as CC

    class _Sig:      # Compiler installs a SIGINT handler; clients run on threads here, where that is not allowed
        def __getattr__(self, n):
            return getattr(signal, n)

        def signal(self, *a):
            if threading.current_thread() is threading.main_thread():
                return signal.signal(*a)
            return None
    if not isinstance(CC.signal, _Sig) and CC.signal is signal:
        CC.signal = _Sig()

    def client(ci, script):
        from bqskit.compiler.compiler import Compiler
        from bqskit.ir.circuit import Circuit
        c = ci + 1
        comp = None
        for _ in range(60):
            try:
                comp = Compiler('localhost', sp)
                break
            except Exception:
                time.sleep(0.25)
        if comp is None:
            rtprog.ev('ClientCall', c=c, call='connect', cid=0)
            rtprog.ev('ClientReturn', c=c, call='connect', cid=0, kind='error', cause='closed', boom=[], text='connect failed')
            return
        alive = True

        def call(name, cid, fn):
            nonlocal alive
            pending[ci] = (name, cid)
            rtprog.ev('ClientCall', c=c, call=name, cid=cid)
            try:
                kind, extra = fn()
                rtprog.ev('ClientReturn', c=c, call=name, cid=cid, kind=kind, **extra)
            except Exception as e:
                cause, booms, text = rtdrive.classify_error(e)
                rtprog.ev('ClientReturn', c=c, call=name, cid=cid, kind='error', cause=cause, boom=booms, text=text[-300:])
                alive = False
            pending[ci] = None
        for item in script:
            if not alive or comp.conn is None:
                break
            op = item[0]
            if op == 'submit':
                cid = handles[item[1]]

                def do(cid=cid, fn=item[2]):
                    u = comp.submit(Circuit(1), [rtprog.RootPass(fn, cid)], request_data=True)
                    uuid2cid[u] = cid
                    cid2uuid[cid] = u
                    first_submit.set()
                    return 'ok', {}
                call('submit', cid, do)
            elif op in ('result', 'status', 'cancel'):
                cid = handles.get(item[1], 0)
                u = cid2uuid.get(cid)
                if u is None:
                    import uuid as _u
                    u, cid = _u.uuid4(), 0

                def do(op=op, u=u):
                    if op == 'result':
                        r = comp.result(u)
                        return 'result', {'v': r[1]['out'] if isinstance(r, tuple) else -1}
                    if op == 'status':
                        return 'status', {'s': comp.status(u).name}
                    comp.cancel(u)
                    return 'ok', {}
                call(op, cid, do)
        if comp.conn is not None:
            call('close', 0, lambda: (comp.close(), ('ok', {}))[1])

    threads = []
    for ci, script in enumerate(sc['clients']):
        pending[ci] = None
        t = threading.Thread(target=client, args=(ci, script), daemon=True)
        t.start()
        threads.append(t)
    crashed = []
    if sc.get('crash'):
        victim, delay = sc['crash']
        if first_submit.wait(30):
            time.sleep(delay)
            pid = None
            if victim == 'manager':
                pid = man.pid
            else:
                kids = _children(man.pid)
                if kids:
                    pid = kids[int(delay * 1000) % len(kids)]
            if pid:
                rtprog.ev('Crash', node=victim)
                try:
                    os.kill(pid, signal.SIGKILL)
                    crashed.append(victim)
                except ProcessLookupError:
                    pass
    deadline = time.time() + call_timeout
    for t in threads:
        t.join(max(0.1, deadline - time.time()))
    blocked = sorted(ci + 1 for ci, t in enumerate(threads) if t.is_alive())
    # give the runtime a moment to fall silent, then see what is still alive
    alive_nodes = []
    if crashed:
        t_end = time.time() + 8
        while time.time() < t_end:
            alive_nodes = [n for n, p in (('manager', man), ('server', srv)) if p.poll() is None]
            if not alive_nodes:
                break
            time.sleep(0.2)
    rtprog.ev('Quiescent', blocked=blocked, alive=alive_nodes, residue=[], srv=[0, 0, 0], final=True, settled=False)
    for p in (srv, man):
        if p.poll() is None:
            p.send_signal(signal.SIGINT)
    time.sleep(0.3)
    for p in (srv, man):
        for k in _children(p.pid):
            try:
                os.kill(k, signal.SIGKILL)
            except Exception:
                pass
        if p.poll() is None:
            p.kill()
    log.close()
    os.environ.pop('VERIF_RT_TRACE', None)
    rtprog.TRACE_DIR = None
    evs = []
    defaults = {'t': 0, 'f': 0, 'v': [], 'kids': [], 'w': 0, 'c': 0, 'call': '', 'cid': 0, 'kind': '', 's': '', 'cause': '',
                'boom': [], 'text': '', 'node': '', 'total': 0, 'idle': 0, 'emps': [], 'blocked': [], 'alive': [],
                'residue': [], 'srv': [0, 0, 0], 'final': False, 'settled': False, 'ok': False, 'how': ''}
    with open(os.path.join(tdir, 'events.ndjson')) as f:
        for line in f:
            d = dict(defaults)
            d.update(json.loads(line))
            if d['e'] == 'ClientReturn' and d['kind'] == 'result' and not isinstance(d['v'], int):
                d['v'] = -1
            evs.append(d)
    nt = max(len(rtprog.IDS), 1)
    trace = {'nt': nt, 'nf': max(len(rtprog.FUTS), 1), 'nc': max(len(cowner), 1), 'ncl': len(sc['clients']),
             'parent': [rtprog.PARENT.get(i, 0) for i in range(1, nt + 1)], 'tcomp': [rtprog.TCOMP.get(i, 1) for i in range(1, nt + 1)],
             'croot': croot or [1], 'cowner': cowner or [1], 'flat': False, 'ev': evs}
    diag = {'status': 'real', 'steps': len(evs), 'thread_errors': [], 'blocked_threads': [('client%d' % (b - 1), 'call pending after %ss' % call_timeout) for b in blocked],
            'picks': [], 'choices': [], 'crashed': crashed, 'notes': []}
    return trace, diag
