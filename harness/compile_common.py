"""Shared machinery of the whole-compiler checks C01 / C02 / C03.

Nothing here decides anything.  This module
  * builds inputs (circuits over the exact library of specs/exact/Monomial.tla plus placeholders, machine models,
    monomial unitaries / basis states / basis state systems) from JSON-able case records,
  * runs ``bqskit.compile`` through the REAL runtime inside one process (harness/simcompile.py), one forked process
    per case with a wall-clock bound,
  * records, from the harness side (monkey-patched ``Workflow.run`` / ``PassPredicate.__call__``; /repo is not edited),
    the sequence of passes and predicate decisions of the top-level workflow with a summary of the circuit after each,
  * serialises what was observed (output operations by gate name and location, mappings, discretised action on
    embedded basis states, measurement positions) for the TLA+ specifications under specs/compile/.
"""
from __future__ import annotations

import itertools
import math
import os
import random
import re
import time
import traceback

import numpy as np

from harness import exact

# --------------------------------------------------------------------------- process pool with a bound per case


def _child(fn, case, conn):
    try:
        res = fn(case)
    except BaseException as e:      # noqa  (reported as a harness failure of this case, never as acceptance)
        res = {'status': 'harness-error', 'exc': '%s: %s' % (type(e).__name__, str(e)[-600:]), 'tb': traceback.format_exc()[-1500:]}
    try:
        conn.send(res)
    finally:
        conn.close()
        os._exit(0)


def _cpu_of(pid):
    """CPU seconds (user + system, all threads) a live child has used so far; None if it cannot be read."""
    try:
        with open('/proc/%d/stat' % pid) as f:
            rest = f.read().rsplit(')', 1)[1].split()
        return (int(rest[11]) + int(rest[12])) / os.sysconf('SC_CLK_TCK')
    except Exception:       # noqa
        return None


def run_cases(fn, cases, procs=12, timeout=240):
    """Run fn(case) for every case, each in its own forked process, at most ``procs`` at a time.  A case is bounded by
    the CPU time it may use (case['timeout'] or ``timeout`` CPU seconds: on a shared machine a wall-clock bound would
    turn starved cases into undecided ones; CPU time still grows somewhat under heavy oversubscription -- the handoffs of
    the deterministic scheduler get more expensive -- so the bounds are several times the typical cost) and, as a
    backstop, by 4x that in wall-clock seconds; a case over either bound is killed and reported as status 'timeout'."""
    import multiprocessing as mp
    from multiprocessing.connection import wait
    ctx = mp.get_context('fork')
    pending = list(enumerate(cases))
    running = {}
    results = [None] * len(cases)
    while pending or running:
        while pending and len(running) < procs:
            i, c = pending.pop(0)
            pr, pw = ctx.Pipe(duplex=False)
            p = ctx.Process(target=_child, args=(fn, c, pw))
            p.start()
            pw.close()
            running[i] = (p, pr, time.time(), c.get('timeout', timeout))
        ready = wait([r for _, r, _, _ in running.values()], timeout=0.5)
        for i, (p, r, t0, lim) in list(running.items()):
            if r in ready:
                try:
                    results[i] = r.recv()
                except EOFError:
                    results[i] = {'status': 'harness-error', 'exc': 'child died without a result', 'tb': ''}
                p.join()
                r.close()
                del running[i]
                continue
            used = _cpu_of(p.pid)
            if (used is not None and used > lim) or time.time() - t0 > 4 * lim:
                p.kill()
                p.join()
                r.close()
                results[i] = {'status': 'timeout', 'exc': 'no result within %d CPU seconds (or %d s wall)' % (lim, 4 * lim), 'where': '',
                              'wall': round(time.time() - t0, 1), 'cpu': round(used or 0, 1)}
                del running[i]
    return results


# --------------------------------------------------------------------------- gates, models, circuits

def mk_gate(name, radix=2):
    """Model gate sets are written with these names."""
    from bqskit.ir import gates as G
    m = {'CNOT': G.CNOTGate, 'CZ': G.CZGate, 'U3': G.U3Gate, 'RZ': G.RZGate, 'SX': G.SXGate, 'ISWAP': G.ISwapGate,
         'RX': G.RXGate, 'RY': G.RYGate, 'H': G.HGate, 'X': G.XGate, 'T': G.TGate, 'CCX': G.CCXGate, 'U1': G.U1Gate,
         'SQISW': G.SqrtISwapGate, 'RZZ': G.RZZGate, 'CY': G.CYGate, 'U2': G.U2Gate, 'S': G.SGate, 'Z': G.ZGate}
    if name == 'SWAP':
        return G.SwapGate(radix)
    if name == 'CSUM':
        return G.CSUMGate(radix)
    if name == 'VU1':
        return G.VariableUnitaryGate(1, [radix])
    if name == 'U8':
        return G.U8Gate()
    if name == 'SHIFT':
        return G.ShiftGate(radix)
    return m[name]()


GATESETS = {
    'cx_u3': ['CNOT', 'U3'],
    'cz_rz_sx': ['CZ', 'RZ', 'SX'],
    'iswap_u3': ['ISWAP', 'U3'],
    'cx_rz_sx': ['CNOT', 'RZ', 'SX'],
    'cz_u3_swap': ['CZ', 'U3', 'SWAP'],
    'cx_rz_rx': ['CNOT', 'RZ', 'RX'],
    'cx_ry_rz': ['CNOT', 'RY', 'RZ'],
    'cx_h_t': ['CNOT', 'H', 'T'],
    'cx': ['CNOT'],
    'csum_vu1': ['CSUM', 'VU1'],          # the default qutrit gate set
}


def cname(g):
    """Name of a gate for Compat.tla: equal names <=> equal gates (cross-checked by NameRegistry)."""
    from bqskit.ir.gates import BarrierPlaceholder, CircuitGate, MeasurementPlaceholder, Reset
    if isinstance(g, MeasurementPlaceholder):
        return 'measurement'
    if isinstance(g, BarrierPlaceholder):
        return 'barrier'
    if isinstance(g, Reset):
        return 'reset'
    if isinstance(g, CircuitGate):
        return 'CircuitGate'
    r = tuple(g.radixes)
    return '%s/%s%s' % (type(g).__name__, g.name, '' if all(x == 2 for x in r) else '/' + ','.join(map(str, r)))


def is_placeholder(g):
    from bqskit.ir.gates import BarrierPlaceholder, MeasurementPlaceholder, Reset
    return isinstance(g, (MeasurementPlaceholder, BarrierPlaceholder, Reset))


class NameRegistry:
    """Trusted-base self check: two gates get the same Compat name iff the implementation says they are equal."""

    def __init__(self):
        self.by_name = {}

    def name(self, g):
        from bqskit.ir.gates import CircuitGate
        n = cname(g)
        if is_placeholder(g) or isinstance(g, CircuitGate):
            return n
        for m, h in self.by_name.items():
            if (m == n) != (h == g):
                from harness.common import MachineryError
                raise MachineryError('gate naming is not faithful: %r/%r named %s/%s' % (g, h, n, m))
        self.by_name.setdefault(n, g)
        return n


def topo_edges(topo, n, rng=None):
    """Edge lists written out here (not taken from CouplingGraph's constructors, which are C20's subject)."""
    if topo == 'all':
        return [[a, b] for a in range(n) for b in range(a + 1, n)]
    if topo == 'line':
        return [[i, i + 1] for i in range(n - 1)]
    if topo == 'ring':
        return [[i, i + 1] for i in range(n - 1)] + ([[0, n - 1]] if n > 2 else [])
    if topo == 'star':
        return [[0, i] for i in range(1, n)]
    if topo == 'grid':          # 2 x ceil(n/2), the last column may be short
        cols = (n + 1) // 2
        e = []
        for q in range(n):
            r, c = divmod(q, cols)
            if c + 1 < cols and q + 1 < n:
                e.append([q, q + 1])
            if r == 0 and q + cols < n:
                e.append([q, q + cols])
        return e
    if topo == 'tree':
        return [[(i - 1) // 2, i] for i in range(1, n)]
    if topo == 'random':        # random spanning tree + a few chords, vertices relabelled
        lab = list(range(n))
        rng.shuffle(lab)
        es = set()
        for v in range(1, n):
            u = rng.randrange(v)
            es.add((min(lab[u], lab[v]), max(lab[u], lab[v])))
        for _ in range(rng.randint(0, max(0, n - 2))):
            a, b = rng.sample(range(n), 2)
            es.add((min(a, b), max(a, b)))
        return [list(e) for e in sorted(es)]
    raise ValueError(topo)


def mk_model(m):
    """m = dict(n, edges, gates=[names], radix)."""
    from bqskit.compiler.machine import MachineModel
    from bqskit.qis.graph import CouplingGraph
    radix = m.get('radix', 2)
    return MachineModel(m['n'], CouplingGraph([tuple(e) for e in m['edges']], m['n']),
                        {mk_gate(g, radix) for g in m['gates']}, [radix] * m['n'])


# ops of an input circuit: Monomial.tla op records (exact.op_record) plus
#   g = 'BARRIER' (loc), 'MEASURE' (loc, p = classical bit per measured qudit, register 'c'),
#   and, for C02 only, gates outside the exact library: 'H', 'SXG', 'RXF', 'RYF', 'RZF' (p = [angle in 1/1000 rad]), 'CH'
NONEXACT = {'H', 'SXG', 'RXF', 'RYF', 'RZF', 'CH', 'U3F'}
CREG_SIZE = 8


def append_ops(circ, ops, radix):
    from bqskit.ir import gates as G
    from bqskit.ir.circuit import Circuit
    for op in ops:
        g = op['g']
        loc = list(op['loc'])
        if g == 'BARRIER':
            circ.append_gate(G.BarrierPlaceholder(len(loc), [radix] * len(loc)), loc)
        elif g == 'MEASURE':
            circ.append_gate(G.MeasurementPlaceholder([('c', CREG_SIZE)], {q: ('c', b) for q, b in zip(loc, op['p'])}), loc)
        elif g == 'BLOCK':
            inner = Circuit(len(loc), [radix] * len(loc))
            append_ops(inner, op['ops'], radix)
            # a pre-blocked operation carries its angles twice: in the gate's stored circuit and in op.params, and only op.params
            # count.  The template is given STALE angles so that a pass that reads the stored ones (instead of the operation's)
            # changes the program
            own = [float(x) for x in inner.params]
            template = inner.copy()
            if own:
                template.set_params([0.0] * len(own))
            circ.append_gate(G.CircuitGate(template), loc, own)
        elif g in NONEXACT:
            gate = {'H': G.HGate, 'SXG': G.SXGate, 'RXF': G.RXGate, 'RYF': G.RYGate, 'RZF': G.RZGate, 'CH': G.CHGate, 'U3F': G.U3Gate}[g]()
            circ.append_gate(gate, loc, [x / 1000.0 for x in op['p']][:gate.num_params])
        else:
            gate = exact.bq_gate(g, op['p'], radix, [radix] * len(loc))
            circ.append_gate(gate, loc, exact.real_params(g, op['p']))


def mk_circuit(n, radix, ops):
    from bqskit.ir.circuit import Circuit
    c = Circuit(n, [radix] * n)
    append_ops(c, ops, radix)
    return c


def random_ops(rng, n, radix, nops, *, wide=True, barriers=True, measure=True, blocks=True, nonexact=False, params=True):
    """A random input circuit over the exact library (+ placeholders, pre-blocked CircuitGates)."""
    ops = []
    radixes = [radix] * n
    for _ in range(nops):
        r = rng.random()
        if barriers and n >= 2 and r < 0.08:
            k = rng.randint(2, n)
            ops.append(exact.op_record('BARRIER', [], sorted(rng.sample(range(n), k))))
            continue
        if blocks and radix == 2 and r < 0.18 and n >= 2:
            k = rng.randint(1, min(3, n))
            loc = rng.sample(range(n), k)
            inner = random_ops(rng, k, radix, rng.randint(1, 3), wide=wide, barriers=False, measure=False, blocks=False, params=params)
            ops.append(exact.op_record('BLOCK', [], loc, ops=inner))
            continue
        ar = [1, 1, 2, 2, 2] + ([3] if wide else [])
        k = rng.choice([a for a in ar if a <= n])
        loc = rng.sample(range(n), k)
        names = exact.names_for([radixes[q] for q in loc], loc)
        names = [x for x in names if x not in ('CCP',)]
        if not params:
            names = [x for x in names if x not in exact.PARAM_ARITY]
        if nonexact and radix == 2 and rng.random() < 0.3:
            if k == 1:
                g = rng.choice(['H', 'SXG', 'RXF', 'RYF', 'RZF', 'U3F'])
                ops.append(exact.op_record(g, [rng.randint(-3000, 3000) for _ in range(3)], loc))
                continue
            if k == 2:
                ops.append(exact.op_record('CH', [], loc))
                continue
        if not names:
            continue
        name = rng.choice(names)
        ops.append(exact.op_record(name, exact.random_params(rng, name), loc))
    if measure and radix == 2 and rng.random() < 0.5:
        k = rng.randint(1, n)
        qs = sorted(rng.sample(range(n), k))
        bits = rng.sample(range(CREG_SIZE), k)
        if rng.random() < 0.5 and k >= 2:       # two separate placeholders
            ops.append(exact.op_record('MEASURE', bits[:1], qs[:1]))
            ops.append(exact.op_record('MEASURE', bits[1:], qs[1:]))
        else:
            ops.append(exact.op_record('MEASURE', bits, qs))
    return ops


def has_feature(ops, pred):
    return any(pred(o) or (o['g'] == 'BLOCK' and has_feature(o['ops'], pred)) for o in ops)


def input_features(case):
    ops = case.get('ops', [])
    return {
        'wide': has_feature(ops, lambda o: len(o['loc']) >= 3 and o['g'] not in ('BARRIER', 'MEASURE', 'BLOCK')),
        'barrier': has_feature(ops, lambda o: o['g'] == 'BARRIER'),
        'measure': has_feature(ops, lambda o: o['g'] == 'MEASURE'),
        'block': has_feature(ops, lambda o: o['g'] == 'BLOCK'),
    }


# --------------------------------------------------------------------------- targets for C03

def table_matrix(tab):
    dim = len(tab)
    U = np.zeros((dim, dim), dtype=complex)
    for b, e in enumerate(tab):
        U[e['idx'], b] = np.exp(2j * np.pi * e['ph'] / exact.PH)
    return U


def random_table(rng, dim, kind):
    """A monomial operator as a table [idx, ph] (units of 2*pi/48): permutation / diagonal / identity / monomial."""
    perm = list(range(dim))
    if kind in ('perm', 'mono'):
        rng.shuffle(perm)
    ph = [0] * dim
    if kind in ('diag', 'mono'):
        ph = [rng.choice([0, 6, 12, 24, 36, 16, 32, 42]) for _ in range(dim)]
    return [{'idx': perm[b], 'ph': ph[b]} for b in range(dim)]


def basis_vec(dim, idx, ph):
    v = np.zeros(dim, dtype=complex)
    v[idx] = np.exp(2j * np.pi * ph / exact.PH)
    return v


def mk_input(case):
    """The object handed to bqskit.compile for a case (kind circuit / unitary / state / system / list)."""
    from bqskit.qis.state.state import StateVector
    from bqskit.qis.state.system import StateSystem
    from bqskit.qis.unitary.unitarymatrix import UnitaryMatrix
    kind = case['kind']
    radix, n = case['radix'], case['n']
    radixes = [radix] * n
    dim = radix ** n
    if kind == 'circuit':
        return mk_circuit(n, radix, case['ops'])
    if kind == 'unitary':
        return UnitaryMatrix(table_matrix(case['table']), radixes)
    if kind == 'state':
        return StateVector(basis_vec(dim, case['state']['idx'], case['state']['ph']), radixes)
    if kind == 'system':
        return StateSystem({StateVector(basis_vec(dim, p['i'], 0), radixes): StateVector(basis_vec(dim, p['o'], p['ph']), radixes)
                            for p in case['pairs']})
    if kind == 'list':
        return [mk_input(dict(sub, radix=sub.get('radix', radix))) for sub in case['items']]
    raise ValueError(kind)


# --------------------------------------------------------------------------- recording the workflow from outside

CONTROL = ('Workflow', 'IfThenElsePass', 'WhileLoopPass', 'DoWhileLoopPass', 'DoThenDecide', 'ParallelDo', 'PassGroup')


def pred_str(p):
    """Printable structure of a predicate object (class names and the width / kind arguments only)."""
    cls = type(p).__name__
    if cls == 'NotPredicate':
        return 'Not(%s)' % pred_str(p.predicate)
    if cls == 'WidthPredicate':
        return 'Width<%d' % p.width
    if cls == 'GateCountPredicate':
        return 'GateCount'
    return cls.replace('Predicate', '') if cls.endswith('Predicate') and cls != 'Predicate' else cls


def program_of(workflow):
    """The workflow compile() built, as a tree: nested Workflows are spliced into their parent (a Workflow in a Workflow is
    sequential composition); IfThenElsePass / WhileLoopPass / ForEachBlockPass keep their structure."""
    out = []
    for p in workflow:
        cls = type(p).__name__
        if cls in ('Workflow', 'PassGroup'):
            out += program_of(p if cls == 'Workflow' else p.passes)
        elif cls == 'IfThenElsePass':
            out.append({'t': 'if', 'pred': pred_str(p.condition), 'then': program_of(p.on_true),
                        'else': program_of(p.on_false) if p.on_false is not None else []})
        elif cls == 'WhileLoopPass':
            out.append({'t': 'while', 'pred': pred_str(p.condition), 'body': program_of(p.workflow)})
        elif cls == 'ForEachBlockPass':
            rf = p.replace_filter if isinstance(p.replace_filter, str) else getattr(p.replace_filter, '__name__', 'callable')
            out.append({'t': 'foreach', 'filter': 'always' if rf == 'default_replace_filter' else rf, 'body': program_of(p.workflow)})
        else:
            out.append({'t': 'pass', 'name': cls})
    return out


def built_program(kind, level, model=None, radix=2, n=3):
    """program_of(build_workflow(...)) for an input of the given kind: the tree bqskit.compile() would run."""
    from bqskit.compiler.compile import build_workflow
    from bqskit.compiler.machine import MachineModel
    case = {'kind': kind, 'radix': radix, 'n': n, 'ops': [], 'table': [{'idx': b, 'ph': 0} for b in range(radix ** n)],
            'state': {'idx': 0, 'ph': 0}, 'pairs': [{'i': 0, 'o': 0, 'ph': 0}]}
    inp = mk_input(case)
    model = model or MachineModel(n, radixes=[radix] * n)
    return program_of(build_workflow(inp, model, level))


class Recorder:
    """Harness-side tap on the top-level workflow of a compilation task (no hook in /repo)."""

    def __init__(self, names):
        self.names = names
        self.tops = []          # one dict(data=PassData, ev=[...]) per top-level compilation task, in start order
        self.orig_run = None
        self.orig_call = None
        self.pdepth = 0

    def top_of(self, data):
        for t in self.tops:
            if t['data'] is data:
                return t
        return None

    def install(self):
        import bqskit.compiler.workflow as W
        import bqskit.passes.control.predicate as P
        from bqskit.utils.random import seed_random_sources
        rec = self
        self.orig_run = W.Workflow.run
        self.orig_call = P.PassPredicate.__call__

        async def run(wf, circuit, data):
            top = rec.top_of(data)
            if top is None and wf.name.startswith('Off-the-Shelf'):
                top = {'data': data, 'ev': [], 'depth': 0, 'workflow': wf.name, 'start': rec.snapshot(circuit, data)}
                rec.tops.append(top)
            for p in wf._passes:          # same loop as Workflow.run (bqskit/compiler/workflow.py)
                if data.seed is not None:
                    seed_random_sources(data.seed)
                if top is None:
                    await p.run(circuit, data)
                    continue
                n0 = len(top['ev'])
                await p.run(circuit, data)
                cls = type(p).__name__
                if cls not in CONTROL:
                    if len(top['ev']) != n0:
                        cls = cls + '+nested'
                    top['ev'].append({'k': 'pass', 'name': cls, 'val': False, 'rec': rec.snapshot(circuit, data)})

        def call(pred, circuit, data):
            rec.pdepth += 1
            try:
                v = rec.orig_call(pred, circuit, data)
            finally:
                rec.pdepth -= 1
            top = rec.top_of(data)
            if top is not None and rec.pdepth == 0:       # a NotPredicate calls its operand: only the outermost is an event
                top['ev'].append({'k': 'pred', 'name': pred_str(pred), 'val': bool(v), 'rec': rec.snapshot(circuit, data)})
            return v
        W.Workflow.run = run
        P.PassPredicate.__call__ = call

    def uninstall(self):
        import bqskit.compiler.workflow as W
        import bqskit.passes.control.predicate as P
        W.Workflow.run = self.orig_run
        P.PassPredicate.__call__ = self.orig_call

    def snapshot(self, circuit, data):
        """Summary of (circuit, data) from which PipelineTrace.tla computes the abstract record: the distinct
        [gate name, arity, placeholder] triples of the unfolded circuit, the distinct locations of its multi-qudit
        operations, whether CircuitGates are present (and single-qudit ones), width, placement, the model's current
        edges, and which data keys exist."""
        gates, locs = set(), set()
        folded = blk1 = False
        meas_in = False

        def walk(c, tr):
            nonlocal meas_in
            for op in c:
                g = op.gate
                loc = [tr[q] for q in op.location]
                if type(g).__name__ == 'CircuitGate':
                    walk(g._circuit, loc)
                    continue
                ph = is_placeholder(g)
                if type(g).__name__ == 'MeasurementPlaceholder':
                    meas_in = True
                gates.add((self.names.name(g), len(loc), ph))
                if len(loc) >= 2 and not ph:
                    locs.add(tuple(sorted(loc)))
        for op in circuit:
            if type(op.gate).__name__ == 'CircuitGate':
                folded = True
                if op.num_qudits == 1:
                    blk1 = True
        walk(circuit, list(range(circuit.num_qudits)))
        try:
            model = data.model
            medges = [list(e) for e in model.coupling_graph]
            mwidth = model.num_qudits
        except Exception:       # noqa
            medges, mwidth = [], 0
        return {
            'width': circuit.num_qudits,
            'gates': [{'gate': g, 'ar': a, 'ph': p} for g, a, p in sorted(gates)],
            'locs': [list(l) for l in sorted(locs)],
            'folded': folded, 'blk1': blk1, 'meas_in': meas_in,
            'meas_stored': '__measurement_data__' in data,
            'placement': [int(x) for x in data.placement],
            'medges': medges, 'mwidth': mwidth,
            'a2a': '_ExtractModelConnectivityPass_connectivity' in data,
            'pi': [int(x) for x in data.initial_mapping], 'pf': [int(x) for x in data.final_mapping],
        }


# --------------------------------------------------------------------------- observing an output

def summarize_circuit(circ, names):
    """Operations of a circuit by gate name and location, CircuitGates kept as (non-native) gates named 'CircuitGate'."""
    ops = []
    for op in circ:
        ops.append({'gate': names.name(op.gate), 'loc': [int(q) for q in op.location], 'placeholder': is_placeholder(op.gate)})
    return ops


def strip_placeholders(circ):
    """Copy of circ without measurement / barrier / reset placeholders (they have no matrix)."""
    from bqskit.ir.circuit import Circuit
    c = Circuit(circ.num_qudits, circ.radixes)
    for op in circ:
        if not is_placeholder(op.gate):
            c.append(op)
    return c


def digits(b, radixes):
    d = []
    for r in reversed(radixes):
        d.append(b % r)
        b //= r
    return d[::-1]


def index(d, radixes):
    x = 0
    for v, r in zip(d, radixes):
        x = x * r + v
    return x


DEV_UNIT = 1e-6       # deviations and budgets go to TLC as integers, in units of 1e-6 (2-norm of a column difference)


def observe_columns(U, cols):
    """Discretise the given columns of U: physical index of the peak, phase class relative to the first listed column
    (one global phase is divided out before quantising), and ``dev`` = the 2-norm distance of the column from that
    basis vector times that phase class, in units of DEV_UNIT (the specification compares it with the budget)."""
    g0 = 1.0
    if cols:
        c0 = U[:, cols[0]]
        j0 = int(np.argmax(abs(c0)))
        if abs(c0[j0]) > 1e-9:
            g0 = c0[j0] / abs(c0[j0])
    out = []
    for b in cols:
        col = U[:, b] / g0
        j = int(np.argmax(abs(col)))
        ph = exact.phase_class(col[j])
        ideal = np.zeros(U.shape[0], dtype=complex)
        ideal[j] = np.exp(2j * np.pi * ph / exact.PH)
        out.append({'idx': j, 'ph': ph, 'dev': int(min(3.0, float(np.linalg.norm(col - ideal))) / DEV_UNIT)})
    return out


def budget(eps, dim_block, nblocks):
    """Column-norm tolerance derived from synthesis_epsilon: a block accepted at Hilbert-Schmidt cost c <= eps differs
    from its target by a Frobenius norm of sqrt(2 d c) (one global phase removed); errors of successive blocks add.
    Far below the smallest distance between two different members of the exact domain (2 sin(pi/48) = 0.13)."""
    return min(0.05, max(1e-6, (nblocks + 2) * math.sqrt(2 * dim_block * max(eps, 1e-16)) * 4))


def measurements_of(circ):
    """[[qudit, register, bit]] of every measurement placeholder and the classical registers [[name, size]]."""
    meas, cregs = [], []
    for op in circ:
        if type(op.gate).__name__ == 'MeasurementPlaceholder':
            for q, (r, b) in op.gate.measurements.items():
                meas.append([int(q), str(r), int(b)])
            for name, size in op.gate.classical_regs:
                if [str(name), int(size)] not in cregs:
                    cregs.append([str(name), int(size)])
            if sorted(op.gate.measurements.keys()) != sorted(op.location):
                meas.append([-1, 'location-differs-from-keys', 0])
    return sorted(meas), sorted(cregs)


def parse_remote_exc(e):
    """(exception class, innermost bqskit frame 'relative/path.py:function', the exception line, rejected) of an error
    raised by compile().  ``rejected`` = the error was raised by compile()'s own argument checks on the client side
    (bqskit/compiler/compile.py, before anything was submitted to the runtime) as a ValueError / TypeError: that is a
    documented refusal of the input (see the Raises section of compile()), not a failure of a compilation."""
    txt = ''
    cur = e
    while cur is not None:
        txt = str(cur) + '\n' + txt
        cur = cur.__cause__
    full = ''.join(traceback.format_exception(type(e), e, e.__traceback__))
    txt += full
    remote = txt.split('The above exception was the direct cause')[0]
    frames = re.findall(r'File "[^"]*?/bqskit/([^"]+)", line \d+, in (\w+)', remote)
    last = [ln for ln in remote.strip().split('\n') if re.match(r'^[A-Za-z_.]+(Error|Exception|Exit)\b', ln)]
    allframes = re.findall(r'File "[^"]*?/bqskit/([^"]+)", line \d+, in (\w+)', full)
    rejected = (isinstance(e, (ValueError, TypeError)) and e.__cause__ is None and bool(allframes)
                and all(f[0] == 'compiler/compile.py' for f in allframes))
    # the innermost frame inside a pass (control-flow passes aside); failing that, the innermost bqskit frame
    inpass = [f for f in frames if f[0].startswith('passes/') and not f[0].startswith('passes/control/')]
    frames = inpass or frames
    where = '%s:%s' % frames[-1] if frames else ''
    line = last[-1] if last else '%s: %s' % (type(e).__name__, str(e)[:200])
    line = re.sub(r'^(TypeError: )(?=AttributeError)', '', line)
    return line.split(':')[0].strip(), where, line[:300], rejected


def exc_msg(excline):
    """The message of an exception line without its class and without numbers (a key field of a known finding)."""
    msg = excline.split(':', 1)[1].strip() if ':' in excline else excline
    return re.sub(r'\d+', '#', msg)[:90]


def prefix_connected(model, n):
    """Input-class descriptor: do the model's first n physical qudits induce a connected subgraph?"""
    if not model or n <= 1:
        return True
    adj = {q: set() for q in range(n)}
    for a, b in model['edges']:
        if a < n and b < n and a != b:
            adj[a].add(b)
            adj[b].add(a)
    seen, todo = {0}, [0]
    while todo:
        for y in adj[todo.pop()]:
            if y not in seen:
                seen.add(y)
                todo.append(y)
    return len(seen) == n


SYNTH_EPS = 1e-8
# JVM options for the (many, short) TLC runs of these checks: by default every JVM starts one GC thread and one JIT
# compiler thread per core, which costs more CPU than the model checking itself on a shared 16-core machine.
# (Not -XX:TieredStopAtLevel=1: the deep recursion of the trace specs overflows the stack under the C1-only compiler.)
JVM_ENV = {'JAVA_TOOL_OPTIONS': '-Xss128m -XX:ParallelGCThreads=2 -XX:CICompilerCount=2'}


def run_compile_case(case):
    """Run one compile() through SimCompiler and observe.  Runs in a forked child (see run_cases)."""
    from harness.simcompile import SimCompiler, quiet
    quiet()
    import bqskit.compiler.workflow  # noqa
    names = NameRegistry()
    rec = Recorder(names)
    want_trace = case.get('trace', True)
    if want_trace:
        rec.install()
    t0 = time.time()
    c0 = time.process_time()
    res = {'status': 'ok', 'exc': '', 'where': '', 'excline': ''}
    model = mk_model(case['model']) if case.get('model') else None
    inp = mk_input(case)
    kw = {'optimization_level': case['level']}
    if model is not None:
        kw['model'] = model
    if case.get('cseed') is not None:
        kw['seed'] = case['cseed']
    if case.get('mss'):
        kw['max_synthesis_size'] = case['mss']
    islist = case['kind'] == 'list'
    try:
        with SimCompiler(num_workers=case.get('workers', 2), sched_seed=case.get('sched', 0)) as sc:
            ret = sc.bq_compile(inp, with_mapping=True, **kw)
    except BaseException as e:      # noqa
        cls, where, line, rejected = parse_remote_exc(e)
        res.update(status='rejected' if rejected else 'raised', exc=cls, where=where, excline=line)
        ret = None
    finally:
        if want_trace:
            rec.uninstall()
    res['wall'] = round(time.time() - t0, 2)
    res['cpu'] = round(time.process_time() - c0, 2)       # CPU seconds of this compilation (all threads): load-independent cost
    if ret is None:
        return res
    rets = ret if islist else [ret]
    subs = case['items'] if islist else [case]
    res['nresults'] = len(rets)
    res['results'] = []
    for k, (out, pi, pf) in enumerate(rets):
        sub = subs[min(k, len(subs) - 1)]
        res['results'].append(observe_output(sub, case, out, pi, pf, model, names))
    if want_trace:
        res['traces'] = [{'workflow': t['workflow'], 'start': t['start'], 'ev': t['ev']} for t in rec.tops]
    return res


def observe_output(sub, case, out, pi, pf, model, names):
    radix = case['radix']
    n = sub['n'] if 'n' in sub else case['n']
    o = {'width': int(out.num_qudits), 'radixes': [int(r) for r in out.radixes], 'ops': summarize_circuit(out, names),
         'pi': [int(x) for x in pi], 'pf': [int(x) for x in pf]}
    o['nops'] = len(o['ops'])
    o['gate_counts'] = {}
    for x in o['ops']:
        o['gate_counts'][x['gate']] = o['gate_counts'].get(x['gate'], 0) + 1
    if model is not None:
        try:
            o['is_compatible'] = bool(model.is_compatible(out))
        except Exception as e:      # noqa
            o['is_compatible'] = False
            o['is_compatible_exc'] = repr(e)[:200]
    o['meas_out'], o['cregs_out'] = measurements_of(out)
    # the action on embedded basis states
    N = out.num_qudits
    oradixes = list(out.radixes)
    lradixes = [radix] * n
    ok_embed = (len(pi) == n and len(pf) == n and all(0 <= p < N for p in pi) and all(0 <= p < N for p in pf)
                and len(set(pi)) == n and all(oradixes[p] == radix for p in pi))
    o['obs'] = [{'idx': 0, 'ph': 0, 'dev': 0}]
    o['obs_ok'] = False
    o['tol'] = 0
    kind = sub['kind']
    bs = [0] if kind == 'state' else [p['i'] for p in sub['pairs']] if kind == 'system' else list(range(radix ** n))
    o['bs'] = bs
    if ok_embed and N <= 9:
        U = exact.own_unitary(strip_placeholders(out))
        cols = []
        for b in bs:
            ld = digits(b, lradixes)
            pd = [0] * N
            for i, p in enumerate(pi):
                pd[p] = ld[i]
            cols.append(index(pd, oradixes))
        nblocks = max(1, o['nops'] // 4)
        o['tol'] = int(budget(SYNTH_EPS, radix ** 3, min(nblocks, 60)) / DEV_UNIT)
        o['obs'] = observe_columns(U, cols)
        o['obs_ok'] = True
    return o


# --------------------------------------------------------------------------- records for the specs

def compat_case_of_output(case, o):
    """(output circuit, model) pair for Compat.tla, kind 'out'."""
    m = case['model']
    names = NameRegistry()
    return {'kind': 'out', 'width': o['width'], 'radixes': o['radixes'], 'mwidth': m['n'], 'mradixes': [m.get('radix', 2)] * m['n'],
            'edges': m['edges'] or [[0, 0]], 'gateset': [names.name(mk_gate(g, m.get('radix', 2))) for g in m['gates']],
            'ops': o['ops'] or [{'gate': 'none', 'loc': [0], 'placeholder': True}],
            'placement': list(range(o['width'])), 'has_placement': False, 'verdict': bool(o.get('is_compatible', False))}


def tree_hash():
    """Content hash of the BQSKit tree under test (used to key the on-disk compile cache)."""
    import hashlib
    from harness import common
    h = hashlib.sha1()
    root = os.path.join(common.REPO, 'bqskit')
    for d, _, fs in sorted(os.walk(root)):
        if '__pycache__' in d:
            continue
        for f in sorted(fs):
            if f.endswith('.py'):
                p = os.path.join(d, f)
                h.update(p.encode())
                with open(p, 'rb') as fh:
                    h.update(fh.read())
    return h.hexdigest()[:16]


def all_pairs(loc):
    return list(itertools.combinations(sorted(loc), 2))


def sem_item(sub, radix):
    """Item record of CompileSem.tla for one input."""
    kind = sub['kind']
    it = {'kind': kind, 'r': [radix] * sub['n']}
    if kind == 'circuit':
        it['ops'] = sub['ops']
    elif kind == 'unitary':
        it['table'] = sub['table']
    elif kind == 'state':
        it['state'] = sub['state']
    elif kind == 'system':
        it['pairs'] = sub['pairs']
    return it


def sem_case(case, res):
    """Case record of CompileSem.tla for one compile() call and what it returned."""
    subs = case['items'] if case['kind'] == 'list' else [case]
    items = [sem_item(dict(s, n=s.get('n', case['n'])), case['radix']) for s in subs]
    if res['status'] != 'ok':
        return {'status': res['status'], 'items': items, 'results': [], 'creg_size': CREG_SIZE}
    results = [{'mr': o['radixes'], 'pi': o['pi'], 'pf': o['pf'], 'bs': o['bs'], 'obs': o['obs'], 'obs_ok': o['obs_ok'], 'tol': o['tol'],
                'meas_out': o['meas_out'], 'cregs_out': o['cregs_out']} for o in res['results']]
    return {'status': 'ok', 'items': items, 'results': results, 'creg_size': CREG_SIZE}


def model_spec(rng, n_circ, radix=2, topos=('line', 'ring', 'star', 'grid', 'tree', 'random'), gatesets=('cx_u3', 'cz_rz_sx', 'iswap_u3'),
               extra=(0, 0, 1, 1, 2)):
    """A random machine model at least as wide as the circuit."""
    N = n_circ + rng.choice(extra)
    topo = rng.choice(topos) if N >= 2 else 'line'
    gs = rng.choice(gatesets)
    return {'n': N, 'edges': topo_edges(topo, N, rng), 'gates': GATESETS[gs], 'radix': radix, 'topo': topo, 'gs': gs}


def short_result(res):
    """A result without the bulky parts (for details / samples)."""
    out = {k: res.get(k) for k in ('status', 'exc', 'where', 'excline', 'wall', 'cpu') if k in res}
    if res.get('results'):
        out['results'] = [{'width': o['width'], 'pi': o['pi'], 'pf': o['pf'], 'gate_counts': o['gate_counts'],
                           'meas_out': o['meas_out']} for o in res['results']]
    return out


# --------------------------------------------------------------------------- oracle self-test (corrupted observations)

def corrupted_sem_cases(sem_cases):
    """Corrupted copies of real, accepted observations, each with the clause CompileSem.tla must answer for it.  They are
    validated in the same TLC batch as the real cases; a corrupted observation that is not rejected with its clause
    is a machinery failure (the oracle would have lost a clause).  Returns [(name, case, expected clause)]."""
    import copy
    out = []
    have = set()

    def add(name, case, clause):
        if name not in have:
            have.add(name)
            out.append((name, case, clause))
    for c in sem_cases:
        if c['status'] != 'ok' or not c['results']:
            continue
        it, r = c['items'][0], c['results'][0]
        if not r['obs_ok']:
            continue
        differ = 'semantics-differ' if it['kind'] == 'circuit' else 'target-not-reached'
        n, N = len(it['r']), len(r['mr'])
        if len(c['items']) == 1:
            k = copy.deepcopy(c)
            k['status'] = 'raised'
            k['results'] = []
            add('status-raised', k, 'compile-raised')
            k = copy.deepcopy(c)
            k['results'][0]['pi'][0] = N
            add('initial-mapping-outside-the-circuit', k, 'mapping-out-of-range')
            k = copy.deepcopy(c)
            k['results'][0]['pf'] = k['results'][0]['pf'][:-1]
            add('final-mapping-too-short', k, 'mapping-out-of-range')
            if n >= 2:
                k = copy.deepcopy(c)
                k['results'][0]['pf'][1] = k['results'][0]['pf'][0]
                add('final-mapping-repeats-a-qudit', k, 'mapping-not-injective')
            dim = 1
            for x in r['mr']:
                dim *= x
            if dim >= 2:
                k = copy.deepcopy(c)
                o = k['results'][0]['obs'][-1]
                o['idx'] = (o['idx'] + 1) % dim
                add('%s:one-column-moved' % it['kind'], k, differ)
            k = copy.deepcopy(c)
            k['results'][0]['obs'][0]['dev'] = k['results'][0]['tol'] + 1
            add('%s:column-outside-the-budget' % it['kind'], k, differ)
            if len(r['obs']) >= 2:
                k = copy.deepcopy(c)
                k['results'][0]['obs'][-1]['ph'] = (k['results'][0]['obs'][-1]['ph'] + 6) % exact.PH
                add('%s:relative-phase-changed' % it['kind'], k, differ)
            if it['kind'] == 'circuit' and r['meas_out']:
                k = copy.deepcopy(c)
                m = k['results'][0]['meas_out'][0]
                m[0] = (m[0] + 1) % N
                if N >= 2:
                    add('measurement-on-another-qudit', k, 'measurement-misplaced')
                k = copy.deepcopy(c)
                k['results'][0]['meas_out'][0][2] = (k['results'][0]['meas_out'][0][2] + 1) % CREG_SIZE
                add('measurement-into-another-bit', k, 'measurement-misplaced')
                k = copy.deepcopy(c)
                k['results'][0]['meas_out'] = []
                add('measurement-dropped', k, 'measurement-misplaced')
        else:
            k = copy.deepcopy(c)
            k['results'] = k['results'][:-1]
            add('list:one-result-missing', k, 'list-order')
            if c['items'][0] != c['items'][1] and c['items'][0]['kind'] == c['items'][1]['kind'] and c['items'][0]['r'] == c['items'][1]['r']:
                k = copy.deepcopy(c)
                k['results'][0], k['results'][1] = k['results'][1], k['results'][0]
                add('list:two-results-exchanged', k, 'list-order')
    return out


def validate_with_selftest(spec, cfg, sem, scratch, groups, prop):
    """par_validate of the real cases, then of corrupted copies of observations the oracle ACCEPTED (a second, small TLC
    run); returns (verdicts of the real cases, states, transitions, selftest report).  Raises MachineryError if a
    corrupted observation is accepted or answered with another clause than the one it violates."""
    from harness.common import MachineryError
    verdicts, states, trans, _ = exact.par_validate(spec, cfg, sem, scratch, groups=groups, chunk=400, env=JVM_ENV)
    rejected = {v[0] for v in verdicts}
    bad = corrupted_sem_cases([c for i, c in enumerate(sem) if i not in rejected])
    report = {}
    if bad:
        v2, s2, t2, _ = exact.par_validate(spec, cfg, [c for _, c, _ in bad], scratch, groups=1, chunk=400, env=JVM_ENV)
        states += s2
        trans += t2
        got = {v[0]: v[2] for v in v2}
        for i, (name, _c, want) in enumerate(bad):
            report[name] = got.get(i, 'ACCEPTED')
            if got.get(i) != want:
                raise MachineryError('%s oracle self-test: corrupted observation %r was judged %r, expected %r' % (prop, name, got.get(i, 'accepted'), want))
    return verdicts, states, trans, report


def run_compile_cases(cases, procs=12):
    """run_cases(run_compile_case, ...).  With VERIF_COMPILE_CACHE=<dir> (a development aid, off by default) results are
    kept on disk keyed by (case, content hash of the BQSKit tree under test): a compilation under SimCompiler is a
    deterministic function of both."""
    import json
    from harness import common
    cdir = os.environ.get('VERIF_COMPILE_CACHE')
    if not cdir:
        return run_cases(run_compile_case, cases, procs=procs)
    os.makedirs(cdir, exist_ok=True)
    th = tree_hash()
    paths = [os.path.join(cdir, '%s-%s.json' % (th, common.digest({k: v for k, v in c.items() if k not in ('id', 'timeout', 'cex')}))) for c in cases]
    results = [None] * len(cases)
    todo = []
    for i, p in enumerate(paths):
        if os.path.exists(p):
            with open(p) as f:
                results[i] = json.load(f)
        else:
            todo.append(i)
    fresh = run_cases(run_compile_case, [cases[i] for i in todo], procs=procs)
    for i, r in zip(todo, fresh):
        results[i] = r
        if r['status'] in ('ok', 'raised', 'rejected'):
            with open(paths[i], 'w') as f:
                json.dump(r, f)
    return results
