"""Entry point:  python -m harness.main <Cnn> [--tier quick|thorough] [--replay path]."""
from __future__ import annotations

import argparse
import importlib
import json
import os
import shutil
import sys
import tempfile
import time
import traceback

from harness import common
from harness.common import Ctx, MachineryError, Outcome

MODULES = {
    'C01': 'harness.checks.c01', 'C02': 'harness.checks.c02', 'C03': 'harness.checks.c03',
    'C04': 'harness.checks.c04', 'C05': 'harness.checks.c05', 'C06': 'harness.checks.c06',
    'C07': 'harness.checks.c07', 'C08': 'harness.checks.c08', 'C09': 'harness.checks.c09',
    'C10': 'harness.checks.c10', 'C11': 'harness.checks.c11', 'C12': 'harness.checks.c12',
    'C13': 'harness.checks.c13', 'C14': 'harness.checks.c14', 'C15': 'harness.checks.c15',
    'C16': 'harness.checks.c16', 'C17': 'harness.checks.c17', 'C18': 'harness.checks.c18',
    'C19': 'harness.checks.c19', 'C20': 'harness.checks.c20',
}


def main(argv=None) -> int:
    ap = argparse.ArgumentParser()
    ap.add_argument('prop')
    ap.add_argument('--tier', default=os.environ.get('VERIF_TIER') or 'quick', choices=['quick', 'thorough'])
    ap.add_argument('--replay', default=None)
    a = ap.parse_args(argv)
    seed = int(os.environ.get('VERIF_SEED') or 0)
    scratch = tempfile.mkdtemp(prefix='verif-%s-' % a.prop)
    t0 = time.time()
    rc = 2
    try:
        replay = None
        if a.replay:
            with open(a.replay) as f:
                replay = json.load(f)
        ctx = Ctx(a.prop, a.tier, seed, scratch, replay)
        mod = importlib.import_module(MODULES[a.prop])
        out: Outcome = mod.run(ctx)
        known = common.load_known()
        seen_known = {}
        fresh = []
        for v in out.violations:
            k = common.match_known(v, known)
            if k is not None:
                seen_known.setdefault(k['id'], [k, 0])[1] += 1
            else:
                fresh.append(v)
        for n in out.notes:
            print(n)
        for kid, (k, n) in sorted(seen_known.items()):
            print('KNOWN-FINDING: property=%s %s [%s; observed %d time(s) this run]' % (a.prop, k['summary'], kid, n))
        # report each distinct (clause,key) once
        reported = set()
        for v in fresh:
            sig = (v.clause, json.dumps(v.key, sort_keys=True, default=str))
            if sig in reported:
                continue
            reported.add(sig)
            path = common.save_replay(v)
            print('VIOLATION property=%s replay=%s' % (a.prop, path))
            print('  clause=%s key=%s' % (v.clause, json.dumps(v.key, sort_keys=True, default=str)))
            print('  ' + v.detail[:1500].replace('\n', '\n  '))
        out.coverage.setdefault('known_findings_observed', {k: n for k, (_, n) in seen_known.items()})
        if not a.replay:
            common.write_evidence(ctx, out, time.time() - t0, len(fresh), getattr(mod, 'LEVEL', 'model_checking'))
        rc = 1 if fresh else 0
        print('%s %s tier=%s seed=%d wall=%.1fs violations=%d known=%d' % (
            a.prop, 'FAIL' if fresh else 'ok', a.tier, seed, time.time() - t0, len(fresh), sum(n for _, n in seen_known.values())))
    except MachineryError as e:
        print('MACHINERY-FAILURE property=%s: %s' % (a.prop, e))
        rc = 2
    except Exception:
        print('MACHINERY-FAILURE property=%s (unexpected exception)' % a.prop)
        traceback.print_exc()
        rc = 2
    finally:
        shutil.rmtree(scratch, ignore_errors=True)
    return rc


if __name__ == '__main__':
    sys.stdout.reconfigure(line_buffering=True)
    rc = main()
    sys.stdout.flush()
    os._exit(rc)
