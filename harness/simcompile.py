"""Run BQSKit compilations through the REAL runtime (AttachedServer + Workers + Compiler) inside one process.

No sockets, no ports, no child processes: everything runs under the deterministic SimKernel (harness/sim.py), so
many compilations can run side by side in different processes and every run is reproducible from its seed.
The message schedule is an input: `sched_seed` picks one of the interleavings of workers / server / client.

    from harness.simcompile import SimCompiler
    with SimCompiler(num_workers=2, sched_seed=7) as c:
        out, data = c.compile(circuit, workflow_or_passes, request_data=True)
        out2 = c.bq_compile(circuit, model=model, optimization_level=1)     # bqskit.compile(...) through this runtime
"""
from __future__ import annotations

import logging


class SimCompileError(Exception):
    pass


class SimCompiler:
    def __init__(self, num_workers=2, sched_seed=0, max_steps=5_000_000):
        from harness import sim
        self.sim = sim
        self.num_workers = num_workers
        self.max_steps = max_steps
        self.net = sim.Net(sim.RandomSched(sched_seed))
        self.k = self.net.k
        self.jobs = []
        self.results = []
        self.done = False
        self.quit = False
        self.error = None
        import bqskit.runtime.attached as A
        nw = num_workers
        self.net.spawn_process('server', lambda: A.start_attached_server(nw, port=7472, worker_port=7474))
        self.k.spawn('client0.main', self._client, node='client0')
        self._run_until(lambda: self.ready)

    ready = False

    def _client(self):
        import bqskit.compiler.compiler as C
        comp = C.Compiler(ip='sim', port=7472)
        comp.p = self.sim.FakePopen(self.net, 'server')
        self.comp = comp
        self.ready = True
        while True:
            self.k.yield_(('jobs',), lambda: bool(self.jobs) or self.quit)
            if self.quit:
                break
            fn = self.jobs.pop(0)
            try:
                self.results.append(('ok', fn(comp)))
            except BaseException as e:      # noqa
                if isinstance(e, self.sim.SimKilled):
                    raise
                self.results.append(('exc', e))
        try:
            comp.close()
        except Exception:
            pass

    def _run_until(self, pred):
        st = self.k.run(self.max_steps, until=pred)
        if st != 'until':
            errs = [(t.name, repr(t.exc)[:300]) for t in self.k.threads if t.exc is not None]
            raise SimCompileError('runtime %s before the job finished; thread errors: %s; blocked: %s' % (
                st, errs, [(t.name, str(t.why)) for t in self.k.threads if t.state != 'done'][:8]))

    def call(self, fn):
        """Run fn(compiler) on the client thread inside the simulation and return its value."""
        n = len(self.results)
        self.jobs.append(fn)
        self._run_until(lambda: len(self.results) > n)
        kind, val = self.results[n]
        if kind == 'exc':
            raise val
        return val

    def compile(self, circuit, workflow, request_data=False, data=None):
        return self.call(lambda comp: comp.compile(circuit, workflow, request_data=request_data, data=data))

    def bq_compile(self, input, **kwargs):
        """bqskit.compile(input, ..., compiler=<this runtime>)."""
        from bqskit.compiler.compile import compile as bq_compile
        return self.call(lambda comp: bq_compile(input, compiler=comp, **kwargs))

    def close(self):
        if not self.quit:
            self.quit = True
            try:
                self.k.run(self.max_steps)
            except Exception:
                pass

    def __enter__(self):
        return self

    def __exit__(self, *a):
        self.close()


def quiet():
    logging.disable(logging.CRITICAL)
    import warnings
    warnings.filterwarnings('ignore')
