"""Python side of the exact (monomial) domain: discretise observed matrices, name gates for Monomial.tla.

Nothing here decides anything: it turns numerical observations of the implementation into
integer records (index, phase class in units of 2*pi/48, within-tolerance flag) that TLC compares
against the TLA+ definitions.  This discretisation is trusted code.
"""
from __future__ import annotations

import math
import random

import numpy as np

PH = 48


def phase_class(a: complex) -> int:
    return int(round(np.angle(a) / (2 * np.pi / PH))) % PH


def table_of(U, tol: float = 1e-7, absolute: bool = True):
    """Discretise a matrix: per column b -> dict(idx, ph, within).

    ``absolute`` keeps the absolute phase (needed for base tables of controlled gates); otherwise
    the phase of column 0's peak is divided out *before* quantising (global phase is arbitrary
    and generally not a multiple of 2*pi/48).
    """
    U = np.asarray(U)
    n = U.shape[1]
    g0 = 1.0
    if not absolute:
        j0 = int(np.argmax(abs(U[:, 0])))
        if abs(U[j0, 0]) > 1e-12:
            g0 = U[j0, 0] / abs(U[j0, 0])
    out = []
    for b in range(n):
        col = U[:, b] / g0
        j = int(np.argmax(abs(col)))
        a = col[j]
        ph = phase_class(a)
        ideal = np.zeros(U.shape[0], dtype=complex)
        ideal[j] = np.exp(2j * np.pi * ph / PH)
        within = bool(np.linalg.norm(col - ideal) <= tol)
        out.append({'idx': j, 'ph': ph, 'within': within})
    return out


def vec_obs(v, tol: float = 1e-7):
    """Discretise a state vector: dict(idx, ph, within) (absolute phase)."""
    v = np.asarray(v).reshape(-1)
    j = int(np.argmax(abs(v)))
    ph = phase_class(v[j])
    ideal = np.zeros(len(v), dtype=complex)
    ideal[j] = np.exp(2j * np.pi * ph / PH)
    return {'idx': j, 'ph': ph, 'within': bool(np.linalg.norm(v - ideal) <= tol)}


def is_monomial(U, tol=1e-7):
    return all(e['within'] for e in table_of(U, tol))


def quarter(x: float):
    """Return p if x == p*pi/4 (numerically), else None."""
    p = x / (math.pi / 4)
    r = round(p)
    return int(r) if abs(p - r) < 1e-9 else None


# ------------------------------------------------------------------ gate naming
def gate_name(gate, params=()):
    """Map a BQSKit gate (+ params) to (name, p) of Monomial.tla, or None if outside the library.

    Only *names* and constructor arguments are read from the implementation (class identity,
    radixes, documented constructor attributes), never matrices.  For the names with constructor
    arguments (PERM, SUBSWAP, MPRZ, MPRY) those come first in p, then the parameters.
    """
    cls = type(gate).__name__
    consts = {
        'XGate': 'X', 'YGate': 'Y', 'ZGate': 'Z', 'SGate': 'S', 'SdgGate': 'Sdg', 'TGate': 'T', 'TdgGate': 'Tdg',
        'SqrtTGate': 'SqrtT', 'CXGate': 'CX', 'CNOTGate': 'CX', 'CYGate': 'CY', 'CZGate': 'CZ', 'CSGate': 'CS',
        'CTGate': 'CT', 'ISwapGate': 'ISWAP', 'SycamoreGate': 'Sycamore', 'ZZGate': 'ZZ',
        'CCXGate': 'CCX', 'ToffoliGate': 'CCX', 'CPIGate': 'CPI',
        'IToffoliGate': 'IToffoli', 'RCCXGate': 'RCCX', 'MargolusGate': 'RCCX', 'RC3XGate': 'RC3X',
    }
    if cls in consts:
        if all(r == 2 for r in gate.radixes) or cls == 'CPIGate':
            return consts[cls], []
        return None
    if cls == 'SwapGate':
        return 'SWAP', []
    if cls == 'IdentityGate':
        return ('I', []) if gate.num_qudits == 1 else ('IDN', [])
    if cls == 'ShiftGate':
        return 'Shift', []
    if cls == 'ClockGate' and gate.radixes[0] in (2, 3, 4):
        return 'Clock', []
    if cls == 'CSUMGate':
        return 'CSUM', []
    if cls == 'PermutationGate':
        return 'PERM', [int(q) for q in gate.location]
    if cls == 'SubSwapGate':
        return None          # constructor arguments are not kept on the object: named through bq_gate only
    par = {'RZGate': ('RZ', 1), 'U1Gate': ('U1', 1), 'CPGate': ('CP', 1), 'CRZGate': ('CRZ', 1), 'RZZGate': ('RZZ', 1),
           'CCPGate': ('CCP', 1), 'ArbitraryCPhaseGate': ('ACP', 1), 'DiagonalGate': ('DIAG', 0)}
    if cls in par:
        ps = [quarter(float(x)) for x in params]
        if None in ps:
            return None
        return par[cls][0], ps
    half = {'RXGate': 'RX', 'RYGate': 'RY', 'CRXGate': 'CRX', 'CRYGate': 'CRY', 'RXXGate': 'RXX', 'RYYGate': 'RYY'}
    if cls in half:
        p = quarter(float(params[0]))
        if p is None or p % 4 != 0:
            return None
        return half[cls], [p]
    if cls in ('U3Gate', 'CUGate', 'U1qGate'):
        ps = [quarter(float(x)) for x in params]
        if None in ps or ps[0] % 4 != 0:
            return None
        return {'U3Gate': 'U3', 'CUGate': 'CU', 'U1qGate': 'U1q'}[cls], ps
    if cls == 'FSIMGate':
        ps = [quarter(float(x)) for x in params]
        if None in ps or ps[0] % 2 != 0:
            return None
        return 'FSIM', ps
    if cls in ('MPRZGate', 'MPRYGate'):
        ps = [quarter(float(x)) for x in params]
        if None in ps or (cls == 'MPRYGate' and any(x % 4 for x in ps)):
            return None
        return cls[:4], [int(gate.target_qubit)] + ps
    return None


def op_record(name, p, loc, t=None, ops=None):
    return {'g': name, 'p': list(p) if p else [0], 'loc': list(loc), 't': t or [{'idx': 0, 'ph': 0}], 'ops': ops or []}


def strip(tab):
    return [{'idx': e['idx'], 'ph': e['ph']} for e in tab]


def flatten_circuit(circ, allow_tables=False):
    """Circuit -> list of Monomial.tla op records in iteration (program) order, or None if some
    op is outside the exact library.  CircuitGates become BLOCK ops (nested)."""
    from bqskit.ir.gates import CircuitGate
    from bqskit.ir.gates.composed.tagged import TaggedGate
    ops = []
    for op in circ:
        g = op.gate
        while isinstance(g, TaggedGate):
            g = g.gate
        if isinstance(g, CircuitGate):
            inner = flatten_circuit(g._circuit.copy() if False else g._circuit, allow_tables)
            if inner is None:
                return None
            # inner circuit parameters: CircuitGate carries them in op.params
            ops.append(op_record('BLOCK', [], op.location, ops=inner))
            continue
        nm = gate_name(g, op.params)
        if nm is None:
            if allow_tables and g.num_qudits <= 3:
                tab = table_of(g.get_unitary(op.params).numpy)
                if all(e['within'] for e in tab):
                    ops.append(op_record('TABLE', [], op.location, t=strip(tab)))
                    continue
            return None
        ops.append(op_record(nm[0], nm[1], op.location))
    return ops


# ------------------------------------------------------------------ generators
LIB1 = ['X', 'Y', 'Z', 'S', 'Sdg', 'T', 'Tdg']
LIB2 = ['CX', 'CY', 'CZ', 'CS', 'CT', 'SWAP', 'ISWAP']
LIB3 = ['CCX']


def bq_gate(name, p=(), radix=2, radixes=None):
    """Construct the BQSKit gate for a library name.  For names with constructor arguments the
    arguments are the leading entries of p (see CTOR_ARGS); ``radixes`` is needed for IDN / ACP / DIAG / PERM / MPR*."""
    from bqskit.ir import gates as G
    m = {'X': G.XGate, 'Y': G.YGate, 'Z': G.ZGate, 'S': G.SGate, 'Sdg': G.SdgGate, 'T': G.TGate, 'Tdg': G.TdgGate,
         'SqrtT': G.SqrtTGate, 'CX': G.CXGate, 'CY': G.CYGate, 'CZ': G.CZGate, 'CS': G.CSGate, 'CT': G.CTGate,
         'ISWAP': G.ISwapGate, 'Sycamore': G.SycamoreGate, 'ZZ': G.ZZGate, 'CCX': G.CCXGate, 'CPI': G.CPIGate,
         'RZ': G.RZGate, 'U1': G.U1Gate, 'RX': G.RXGate, 'RY': G.RYGate, 'U3': G.U3Gate, 'CP': G.CPGate,
         'CRZ': G.CRZGate, 'RZZ': G.RZZGate, 'CRX': G.CRXGate, 'CRY': G.CRYGate, 'CCP': G.CCPGate,
         'IToffoli': G.IToffoliGate, 'RCCX': G.RCCXGate, 'RC3X': G.RC3XGate, 'RXX': G.RXXGate, 'RYY': G.RYYGate,
         'FSIM': G.FSIMGate, 'CU': G.CUGate, 'U1q': G.U1qGate}
    if name == 'SWAP':
        return G.SwapGate(radix)
    if name == 'Shift':
        return G.ShiftGate(radix)
    if name == 'Clock':
        return G.ClockGate(radix)
    if name == 'CSUM':
        return G.CSUMGate(radix)
    if name == 'I':
        return G.IdentityGate(1, [radix])
    if name == 'IDN':
        return G.IdentityGate(len(radixes), list(radixes))
    if name == 'PERM':
        return G.PermutationGate(len(radixes), list(p))
    if name == 'SUBSWAP':
        return G.SubSwapGate(radix, '%d,%d;%d,%d' % tuple(p[:4]))
    if name == 'ACP':
        return G.ArbitraryCPhaseGate(list(radixes))
    if name == 'DIAG':
        return G.DiagonalGate(len(radixes))
    if name == 'MPRZ':
        return G.MPRZGate(len(radixes), p[0])
    if name == 'MPRY':
        return G.MPRYGate(len(radixes), p[0])
    return m[name]()


# how many leading entries of p are constructor arguments (not parameters)
CTOR_ARGS = {'PERM': None, 'SUBSWAP': 4, 'MPRZ': 1, 'MPRY': 1}


def real_params(name, p):
    """The real parameter vector (radians) encoded by the integer list p of an op record (constructor arguments skipped)."""
    if name == 'PERM' or name == 'SUBSWAP':
        return []
    if name not in ('DIAG', 'MPRZ', 'MPRY') and PARAM_ARITY.get(name, 0) == 0:
        return []
    k = CTOR_ARGS.get(name) or 0
    return [x * math.pi / 4 for x in p[k:]]


PARAM_ARITY = {'RZ': 1, 'U1': 1, 'RX': 1, 'RY': 1, 'U3': 3, 'CP': 1, 'CRZ': 1, 'RZZ': 1, 'CRX': 1, 'CRY': 1, 'CCP': 1,
               'RXX': 1, 'RYY': 1, 'FSIM': 2, 'CU': 4, 'U1q': 2, 'ACP': 1}
ARITY = {**{n: 1 for n in LIB1 + ['SqrtT', 'Shift', 'Clock', 'I', 'RZ', 'U1', 'RX', 'RY', 'U3', 'U1q']},
         **{n: 2 for n in LIB2 + ['Sycamore', 'ZZ', 'CSUM', 'CPI', 'CP', 'CRZ', 'RZZ', 'CRX', 'CRY', 'RXX', 'RYY', 'FSIM', 'CU',
                                  'SUBSWAP']},
         **{n: 3 for n in LIB3 + ['CCP', 'IToffoli', 'RCCX']}, 'RC3X': 4}


def random_params(rng: random.Random, name):
    k = PARAM_ARITY.get(name, 0)
    if k == 0:
        return []
    if name in ('RX', 'RY', 'CRX', 'CRY', 'RXX', 'RYY'):
        return [4 * rng.randint(-3, 4)]
    if name == 'U3':
        return [4 * rng.randint(-2, 3), rng.randint(-4, 8), rng.randint(-4, 8)]
    if name == 'CU':
        return [4 * rng.randint(-2, 3), rng.randint(-4, 8), rng.randint(-4, 8), rng.randint(-4, 8)]
    if name == 'U1q':
        return [4 * rng.randint(-2, 3), rng.randint(-4, 8)]
    if name == 'FSIM':
        return [2 * rng.randint(-3, 4), rng.randint(-4, 8)]
    return [rng.randint(-8, 8) for _ in range(k)]


def names_for(radixes, qudits):
    """Library names applicable to the given local radixes (tuple)."""
    rs = tuple(radixes)
    if len(rs) == 1:
        if rs[0] == 2:
            return LIB1 + ['SqrtT', 'RZ', 'U1', 'RX', 'RY', 'U3', 'Clock', 'Shift']
        return ['Shift', 'Clock']
    if len(rs) == 2:
        out = []
        if rs == (2, 2):
            out += LIB2 + ['Sycamore', 'ZZ', 'CP', 'CRZ', 'RZZ', 'CRX', 'CRY']
        if rs[0] == rs[1]:
            out += ['CSUM'] if rs[0] > 2 else []
            if rs[0] > 2:
                out += ['SWAP']
        if rs == (3, 3):
            out += ['CPI']
        return out
    if len(rs) == 3 and rs == (2, 2, 2):
        return LIB3 + ['CCP']
    return []


def random_monomial_circuit(rng: random.Random, radixes, nops, arities=(1, 2, 3), with_params=True):
    """Return (Circuit, ops) over the exact library; ops = Monomial.tla records in program order."""
    from bqskit.ir.circuit import Circuit
    n = len(radixes)
    c = Circuit(n, list(radixes))
    ops = []
    tries = 0
    while len(ops) < nops and tries < nops * 20:
        tries += 1
        k = rng.choice([a for a in arities if a <= n])
        loc = rng.sample(range(n), k)
        names = names_for([radixes[q] for q in loc], loc)
        if not with_params:
            names = [x for x in names if x not in PARAM_ARITY]
        if not names:
            continue
        name = rng.choice(names)
        p = random_params(rng, name)
        g = bq_gate(name, p, radixes[loc[0]])
        c.append_gate(g, loc, [x * math.pi / 4 for x in p])
        ops.append(op_record(name, p, loc))
    return c, ops


def own_unitary(circ):
    """Independent contraction of a circuit's matrix from each operation's own matrix
    (qudit 0 most significant), not using Circuit.get_unitary."""
    radixes = list(circ.radixes)
    n = len(radixes)
    dim = int(np.prod(radixes))
    T = np.eye(dim, dtype=complex).reshape(radixes + [dim])
    for op in circ:
        loc = list(op.location)
        U = np.asarray(op.get_unitary().numpy)
        lr = [radixes[q] for q in loc]
        Ut = U.reshape(lr + lr)
        k = len(loc)
        # contract Ut's input axes (k..2k-1) with T's axes loc
        T = np.tensordot(Ut, T, axes=(list(range(k, 2 * k)), loc))
        # result axes: Ut outputs (k) then remaining T axes in order; move outputs back to loc
        rest = [q for q in range(n) if q not in loc]
        order = loc + rest + [n]
        inv = np.argsort(order)
        T = np.transpose(T, inv)
    return T.reshape(dim, dim)


# ------------------------------------------------------------------ parallel batch validation
def par_validate(spec, cfg, cases, scratch, groups=8, chunk=2000, timeout=1800, workers=2, env=None):
    """common.batch_validate over ``groups`` JVMs at once (a batch trace spec evaluates its cases while TLC
    computes the initial states, which is single-threaded).  Same return value as batch_validate; case indices
    refer to ``cases``.  A failing JVM raises MachineryError."""
    from concurrent.futures import ThreadPoolExecutor

    from harness import common
    n = len(cases)
    if n == 0:
        return [], 0, 0, []
    groups = max(1, min(groups, n))
    # round-robin so that expensive cases (generated in clusters) spread over the JVMs
    idxs = [list(range(g, n, groups)) for g in range(groups)]

    e = {'JAVA_TOOL_OPTIONS': '-Xss16m'}      # deep (finite) recursion of the interpreter over long circuits
    e.update(env or {})

    def one(ix):
        return common.batch_validate(spec, cfg, [cases[i] for i in ix], scratch, chunk=chunk, timeout=timeout,
                                     workers=workers, env=e)
    with ThreadPoolExecutor(groups) as ex:
        res = list(ex.map(one, idxs))
    verdicts, states, trans, raw = [], 0, 0, []
    for ix, (v, s, t, r) in zip(idxs, res):
        verdicts += [(ix[i], step, clause, extra) for i, step, clause, extra in v]
        states += s
        trans += t
        raw += r
    verdicts.sort(key=lambda x: x[0])
    return verdicts, states, trans, raw


def pmap(fn, items, procs=8, chunksize=16):
    """Map a module-level function over items in forked worker processes (observation of the implementation is
    independent per case and seeded per case, so the result does not depend on the number of processes)."""
    import multiprocessing as mp
    items = list(items)
    if procs <= 1 or len(items) < 2 * procs:
        return [fn(x) for x in items]
    ctx = mp.get_context('fork')
    with ctx.Pool(procs) as pool:
        return pool.map(fn, items, chunksize=chunksize)
