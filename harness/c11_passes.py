"""C11: instrumented body passes, scripted predicates and filters (module level, so they survive Workflow's dill copy).

Everything they observe goes to module-level registries keyed by the node *path* of the pass in the pass tree
(a tuple of child indices), never to the instance: Workflow deep-copies passes, the runtime pickles them again.
Under harness.simcompile everything runs in this process, so the registries are shared by all simulated workers.

The behaviour of every class is specified in specs/control/ControlFlow.tla (ExecBody, Pred, Accept, LessThan,
Collect, Replace); this file is the real-code counterpart and nothing here decides anything.
"""
from __future__ import annotations

from fractions import Fraction

LOG = []          # body executions, in the order they happened: dict(n=path, id, blk, saw)
CALLS = {}        # (path, blk) -> number of evaluations of the scripted predicate/condition/filter at that node
SCRIPT = {}       # (path, blk) -> list of bools; beyond the end: False
FILTER_LOG = []   # collection-filter calls: (path, first tag of the op, result)

CTX_KEY = 'ForEachBlockPass_specific_pass_down_c11blk'     # block-specific pass-down: block i receives i
E0_DEN = 16


def reset(script=None):
    LOG.clear()
    CALLS.clear()
    SCRIPT.clear()
    FILTER_LOG.clear()
    for k, v in (script or {}).items():
        SCRIPT[k] = list(v)


def scripted(path, blk):
    key = (tuple(path), blk)
    i = CALLS.get(key, 0)
    CALLS[key] = i + 1
    s = SCRIPT.get(key)
    if s is None:
        s = SCRIPT.get((key[0], -2), [])      # blk = -2: the same script for every block
    return bool(s[i]) if i < len(s) else False


# ------------------------------------------------------------------ abstract view of a circuit
def op_view(op):
    """Abstract op: dict(t=tag, loc, b=is block, in=inner ops).  Untagged primitive gates have t = -1."""
    from bqskit.ir.gates import CircuitGate
    from bqskit.ir.gates.composed.tagged import TaggedGate
    g = op.gate
    if isinstance(g, CircuitGate):
        return {'t': 0, 'loc': [int(q) for q in op.location], 'b': True, 'sub': circ_view(g._circuit)}
    if isinstance(g, TaggedGate) and isinstance(g.tag, int):
        return {'t': int(g.tag), 'loc': [int(q) for q in op.location], 'b': False, 'sub': []}
    return {'t': -1, 'loc': [int(q) for q in op.location], 'b': False, 'sub': []}


def circ_view(circ):
    return [op_view(op) for _, op in circ.operations_with_cycles()]


def tags_of(view):
    out = []
    for o in view:
        if o['b']:
            out += tags_of(o['sub'])
        else:
            out.append(o['t'])
    return out


def first_tag(o):
    t = tags_of([o])
    return t[0] if t else 0


def full_gate(width, tag):
    """The tagged gate a body appends: acts on every qudit of the circuit it is given (widths 1..3)."""
    from bqskit.ir.gates import CCXGate
    from bqskit.ir.gates import CZGate
    from bqskit.ir.gates import XGate
    from bqskit.ir.gates.composed.tagged import TaggedGate
    return TaggedGate({1: XGate, 2: CZGate, 3: CCXGate}[width](), tag)


def rot(w, r):
    return [(i + r) % w for i in range(w)]


CELL = 'c11cell'


def new_cell():
    return {'l': [0], 'n': {'x': 0}}


def cell_view(data):
    """Deep value of the cell, read at observation time (after the control pass)."""
    c = data[CELL] if CELL in data else new_cell()
    return {'l': [int(v) for v in c['l']], 'x': int(c['n']['x'])}


GS_NAMES = ['XGate', 'YGate', 'ZGate', 'HGate', 'SGate', 'TGate', 'SXGate', 'SdgGate', 'TdgGate']


def gate_set_of(id):
    """The gate set body `id` installs: the first id + 2 one-qubit gates of GS_NAMES (never contains CNOT)."""
    from bqskit.compiler.gateset import GateSet
    from bqskit.ir import gates as G
    return GateSet({getattr(G, n)() for n in GS_NAMES[:id + 2]})


def gs_view(data):
    """0: no body's gate set (the default one, it has a two-qudit gate); id: the one body id installed."""
    gs = data.gate_set
    names = sorted(type(g).__name__ for g in gs)
    for id in range(1, 8):
        if names == sorted(GS_NAMES[:id + 2]):
            return id
    return 0 if any(g.num_qudits > 1 for g in gs) else -1


def blk_of(data):
    try:
        v = data[CTX_KEY] if CTX_KEY in data else -1
    except Exception:
        return -1
    return int(v) if isinstance(v, int) else -1


# ------------------------------------------------------------------ passes
def _base():
    from bqskit.compiler.basepass import BasePass
    return BasePass


class BodyError(RuntimeError):
    pass


def make_classes():
    """Classes are created once bqskit can be imported (never at harness import time), but they are bound to
    module-level names so that pickle/dill find them by reference."""
    global Body, Setup, Pred, Cond, LessThan, CollectFilter, ReplaceFilter
    if 'Body' in globals() and Body is not None:
        return
    from bqskit.compiler.basepass import BasePass
    from bqskit.passes.control.predicate import PassPredicate

    class Body(BasePass):
        """beh: 0 mark, 1 identity, 2 rewrite (retag every primitive op), 3 shrink to empty, 4 grow, 5 raise.
        wd/wm/we: write user keys / placement+mappings / error (all by assignment: the key / field is re-bound).
        wi: writes that go INTO objects the pass data already holds -- 1: edit the pre-existing value of key 'cell' in
        place (append to its list, bump an entry of its nested dict); 2: bind 'cell' to a new object; 3: edit the list
        objects handed out by data.initial_mapping / data.final_mapping in place; 4: the same for data.placement;
        5: data.gate_set = ... (assigns into the MachineModel object the data holds)."""

        def __init__(self, path, id, beh, wd, wm, we, wi=0):
            self.path, self.id, self.beh, self.wd, self.wm, self.we, self.wi = tuple(path), id, beh, wd, wm, we, wi

        async def run(self, circuit, data):
            from bqskit.ir.circuit import Circuit
            from bqskit.ir.gates.composed.tagged import TaggedGate
            view = circ_view(circuit)
            saw = tags_of(view)
            LOG.append({'n': list(self.path), 'id': self.id, 'blk': blk_of(data), 'saw': saw})
            if self.beh == 5:
                raise BodyError('c11 body %d fails' % self.id)
            w = circuit.num_qudits
            n0 = circuit.num_operations
            if self.beh == 0:
                circuit.append_gate(full_gate(w, 100 * self.id + n0), list(range(w)))
            elif self.beh == 2:
                new = Circuit(w, circuit.radixes)
                for _, op in circuit.operations_with_cycles():
                    g = op.gate
                    if isinstance(g, TaggedGate):
                        new.append_gate(TaggedGate(g.gate, g.tag + 1000 * self.id), op.location, op.params)
                    else:
                        new.append(op)
                circuit.become(new)
            elif self.beh == 3:
                circuit.clear()
            elif self.beh == 4:
                circuit.append_gate(full_gate(w, 100 * self.id + n0), list(range(w)))
                circuit.append_gate(full_gate(w, 100 * self.id + 50 + n0), list(range(w)))
            if self.wd:
                data['d'] = list(data['d'] if 'd' in data else []) + [self.id]
                data['k'] = self.id
            if self.wm:
                data.placement = rot(w, self.id + 1)
                data.initial_mapping = rot(w, self.id)
                data.final_mapping = rot(w, 2 * self.id + 1)
            if self.we:
                data.error = self.id / float(E0_DEN)
            if 'saw0' not in data:
                data['saw0'] = list(saw)
            if self.wi in (1, 2) and CELL not in data:     # block data of a ForEachBlockPass start without the key
                data[CELL] = new_cell()
            if self.wi == 1:
                cell = data[CELL]
                cell['l'].append(self.id)
                cell['n']['x'] += self.id
            elif self.wi == 2:
                old = data[CELL]
                data[CELL] = {'l': list(old['l']) + [self.id + 10], 'n': {'x': self.id}}
            elif self.wi == 3:
                im, fm = data.initial_mapping, data.final_mapping
                im[:] = rot(w, self.id + 2)
                fm[:] = rot(w, 2 * self.id + 2)
            elif self.wi == 4:
                pl = data.placement
                pl[:] = rot(w, self.id + 2)
            elif self.wi == 5:
                data.gate_set = gate_set_of(self.id)

    class Setup(BasePass):
        """Not part of the pass language: installs the initial error and the block-index pass-down table."""

        def __init__(self, e0):
            self.e0 = e0

        async def run(self, circuit, data):
            data.error = self.e0 / float(E0_DEN)
            data[CTX_KEY] = {i: i for i in range(64)}
            data[CELL] = new_cell()        # the mutable value that exists before any control pass starts

    class Pred(PassPredicate):
        """kind 0: scripted per (node, block); 1 true; 2 false; 3: the circuit has at least two operations."""

        def __init__(self, path, kind):
            self.path, self.kind = tuple(path), kind

        def get_truth_value(self, circuit, data):
            if self.kind == 0:
                return scripted(self.path, blk_of(data))
            if self.kind == 1:
                return True
            if self.kind == 2:
                return False
            return circuit.num_operations >= 2

    class Cond:
        """DoThenDecide condition(old, new). kind 0: scripted; 1 accept; 2 reject; 3: new has no more operations than old;
        4: new is not empty."""

        def __init__(self, path, kind):
            self.path, self.kind = tuple(path), kind

        def __call__(self, old, new):
            if self.kind == 0:
                return scripted(self.path, -1)
            if self.kind == 1:
                return True
            if self.kind == 2:
                return False
            if self.kind == 3:
                return new.num_operations <= old.num_operations
            return new.num_operations > 0

    class LessThan:
        """ParallelDo less_than(candidate, best). kind 0: scripted; 1 true; 2 false; 3: candidate has fewer operations."""

        def __init__(self, path, kind):
            self.path, self.kind = tuple(path), kind

        def __call__(self, a, b):
            if self.kind == 0:
                return scripted(self.path, -1)
            if self.kind == 1:
                return True
            if self.kind == 2:
                return False
            return a.num_operations < b.num_operations

    class CollectFilter:
        """kind 1: every operation; 2: none; 3: first tag even ("alternate": tags are assigned alternately);
        4: width >= 2.  (kind 0 = the pass's default filter: no object.)"""

        def __init__(self, path, kind):
            self.path, self.kind = tuple(path), kind

        def __call__(self, op):
            v = op_view(op)
            if self.kind == 1:
                r = True
            elif self.kind == 2:
                r = False
            elif self.kind == 3:
                r = first_tag(v) % 2 == 0
            else:
                r = op.num_qudits >= 2
            FILTER_LOG.append((list(self.path), first_tag(v), r))
            return r

    class ReplaceFilter:
        """kind 1: never; 2: scripted (one entry per call, in call order).  (0 = 'always', 3 = 'less-than': strings.)"""

        def __init__(self, path, kind):
            self.path, self.kind = tuple(path), kind

        def __call__(self, circuit, op):
            if self.kind == 1:
                return False
            return scripted(self.path, -1)

    for c in (Body, Setup, Pred, Cond, LessThan, CollectFilter, ReplaceFilter):
        c.__module__ = __name__
        c.__qualname__ = c.__name__
        globals()[c.__name__] = c


Body = Setup = Pred = Cond = LessThan = CollectFilter = ReplaceFilter = None


# ------------------------------------------------------------------ ForEachBlockPass and block parameters (specs/control/ForEachParams.tla)
ANGLE_SETS = {0: [0, 0, 0], 1: [1, 4, 2], 2: [3, 0, 7], 3: [0, 4, 5]}      # units of pi/4, as AngleSets in the spec
P_LOCS = [(0, 1), (2, 1), (0, 1)]
P_PRIMS = [('CX', (0, 2)), ('T', (1,)), ('X', (2,))]
PROBE_KEY = 'c11probe'
RECV_KEY = 'c11recv'


def exact_flatten(circ):
    """Circuit -> op records of Monomial.tla; a CircuitGate operation is a BLOCK whose inner ops carry the angles of the
    OPERATION (op.params), which are the ones that define what the operation is."""
    from bqskit.ir.gates import CircuitGate
    from harness import exact
    out = []
    for op in circ:
        g = op.gate
        if isinstance(g, CircuitGate):
            inner = g._circuit.copy()
            inner.set_params(op.params)
            out.append(exact.op_record('BLOCK', [], [int(q) for q in op.location], ops=exact_flatten(inner)))
        else:
            nm = exact.gate_name(g, op.params)
            if nm is None:
                raise ValueError('operation outside the exact library: %r %r' % (g, list(op.params)))
            out.append(exact.op_record(nm[0], nm[1], [int(q) for q in op.location]))
    return out


def template_circuit(angles):
    import math
    from bqskit.ir.circuit import Circuit
    from bqskit.ir.gates import CNOTGate, RYGate, RZGate
    a = [x * math.pi / 4 for x in angles]
    c = Circuit(2)
    c.append_gate(RZGate(), 0, [a[0]])
    c.append_gate(RYGate(), 1, [a[1]])
    c.append_gate(CNOTGate(), (0, 1))
    c.append_gate(RZGate(), 1, [a[2]])
    return c


def build_param_circuit(hist):
    """Replay the build actions of a behaviour of ForEachParams.tla (own / shared / retune) into a real circuit."""
    import math
    from bqskit.ir.circuit import Circuit
    from bqskit.ir.gates import CircuitGate
    from harness import exact
    c = Circuit(3)
    shared = None
    nb = 0
    cur = []
    for h in hist:
        if h['k'] in ('own', 'shared'):
            ang = [x * math.pi / 4 for x in ANGLE_SETS[h['a']]]
            if h['k'] == 'own':
                gate = CircuitGate(template_circuit(ANGLE_SETS[h['a']]))
            else:
                if shared is None:
                    shared = CircuitGate(template_circuit(ANGLE_SETS[0]))
                gate = shared
            c.append_gate(gate, P_LOCS[nb], ang)
            name, loc = P_PRIMS[nb]
            c.append_gate(exact.bq_gate(name), loc)
            cur.append(h['a'])
            nb += 1
        elif h['k'] == 'retune':
            cur = [(a % 3) + 1 for a in cur]
            c.set_params([x * math.pi / 4 for a in cur for x in ANGLE_SETS[a]])
        else:
            raise ValueError(h)
    return c


def make_param_classes():
    global Probe, ParamBody
    if Probe is not None:
        return
    make_classes()
    from bqskit.compiler.basepass import BasePass

    class Probe(BasePass):
        """Not part of the property: records the input the way the ForEachBlockPass will see it (inside the runtime, after
        the circuit was pickled on submission): exact op records, and per CircuitGate operation the angles stored in its
        gate next to its own."""

        async def run(self, circuit, data):
            from bqskit.ir.gates import CircuitGate
            from harness import exact
            pairs = []
            for op in circuit:
                if isinstance(op.gate, CircuitGate):
                    pairs.append([[exact.quarter(float(x)) for x in op.gate._circuit.params],
                                  [exact.quarter(float(x)) for x in op.params]])
            data[PROBE_KEY] = {'circ0': exact_flatten(circuit), 'pairs': pairs}

    class ParamBody(BasePass):
        """beh 0: identity; 1: zero the last angle; 2: append Z on qudit 0.  Records what it was handed."""

        def __init__(self, beh):
            self.beh = beh

        async def run(self, circuit, data):
            from bqskit.ir.gates import ZGate
            data[RECV_KEY] = exact_flatten(circuit)
            if self.beh == 1 and circuit.num_params > 0:
                p = list(circuit.params)
                p[-1] = 0.0
                circuit.set_params(p)
            elif self.beh == 2:
                circuit.append_gate(ZGate(), 0)

    for c in (Probe, ParamBody):
        c.__module__ = __name__
        c.__qualname__ = c.__name__
        globals()[c.__name__] = c


Probe = ParamBody = None


def run_param_case(case, workers=1, sched_seed=0):
    """One behaviour of ForEachParams.tla on the real ForEachBlockPass (through the simulated runtime)."""
    make_param_classes()
    from bqskit.passes import ForEachBlockPass
    from harness.simcompile import SimCompiler
    circuit = build_param_circuit(case['hist'])
    cf = None if case['cf'] == 0 else CollectFilter(('p',), 4)
    rf = 'always' if case['rf'] == 0 else ReplaceFilter(('p',), 1)
    fe = ForEachBlockPass(ParamBody(case['body']), calculate_error_bound=bool(case['calc']), collection_filter=cf, replace_filter=rf)
    reset({})
    with SimCompiler(num_workers=workers, sched_seed=sched_seed) as sc:
        out, data = sc.compile(circuit, [Probe(), fe], request_data=True)
    probe = data[PROBE_KEY]
    bds = data[ForEachBlockPass.key][-1]
    return {'r': [2, 2, 2], 'circ0': probe['circ0'], 'pairs': probe['pairs'], 'cf': case['cf'], 'rf': case['rf'], 'body': case['body'],
            'calc': bool(case['calc']), 'recv': [bd[RECV_KEY] for bd in bds], 'out': exact_flatten(out),
            'err': frac(data.error, 4096)}


# ------------------------------------------------------------------ tree -> real pass
def build(t, path=()):
    """Pass-tree node (dict k, c, a) -> real pass object."""
    make_classes()
    from bqskit.compiler.workflow import Workflow
    from bqskit.passes import DoThenDecide
    from bqskit.passes import DoWhileLoopPass
    from bqskit.passes import ForEachBlockPass
    from bqskit.passes import IfThenElsePass
    from bqskit.passes import NOOPPass
    from bqskit.passes import ParallelDo
    from bqskit.passes import WhileLoopPass
    k, c, a = t['k'], t['c'], t['a']
    sub = [build(x, tuple(path) + (i + 1,)) for i, x in enumerate(c)]
    if k == 'body':
        return Body(path, a[0], a[1], bool(a[2]), bool(a[3]), bool(a[4]), int(a[5]) if len(a) > 5 else 0)
    if k == 'noop':
        return NOOPPass()
    if k == 'seq':
        return Workflow(sub)
    if k == 'if':
        return IfThenElsePass(Pred(path, a[0]), sub[0], None if c[1]['k'] == 'noop' else sub[1])
    if k == 'while':
        return WhileLoopPass(Pred(path, a[0]), sub[0])
    if k == 'dowhile':
        return DoWhileLoopPass(Pred(path, a[0]), sub[0])
    if k == 'dtd':
        return DoThenDecide(Cond(path, a[0]), sub[0])
    if k == 'par':
        return ParallelDo(sub, LessThan(path, a[0]))
    if k == 'foreach':
        cf = None if a[0] == 0 else CollectFilter(path, a[0])
        rf = {0: 'always', 3: 'less-than'}.get(a[1]) or ReplaceFilter(path, a[1])
        return ForEachBlockPass(sub[0], calculate_error_bound=bool(a[2]), collection_filter=cf, replace_filter=rf)
    raise ValueError(k)


def needs_runtime(t):
    return t['k'] in ('par', 'foreach') or any(needs_runtime(x) for x in t['c'])


def build_circuit(n, ops):
    """Abstract ops (dicts t, loc, b, in) -> Circuit; blocks become CircuitGates.  Returns the circuit."""
    from bqskit.ir.circuit import Circuit
    from bqskit.ir.gates import CircuitGate
    c = Circuit(n)
    for o in ops:
        if o['b']:
            inner = build_circuit(len(o['loc']), o['sub'])
            c.append_gate(CircuitGate(inner, True), o['loc'], inner.params)
        else:
            c.append_gate(full_gate(len(o['loc']), o['t']), o['loc'])
    return c


# ------------------------------------------------------------------ observation of PassData
def frac(x, grid=None):
    """float -> [num, den] exactly (dyadic), or rounded to 1/grid."""
    if grid:
        return [int(round(float(x) * grid)), grid]
    f = Fraction(float(x))
    if f.denominator > (1 << 24) or abs(f.numerator) >= (1 << 30):
        return [int(round(float(x) * (1 << 20))) * 4 + 1, 1 << 22]      # not a small dyadic: cannot equal any expected value
    return [f.numerator, f.denominator]


def data_view(data, grid=None, block=False):
    from bqskit.passes import ForEachBlockPass
    def lst(x):
        return [int(v) for v in x]
    fe = []
    if not block and ForEachBlockPass.key in data:
        for group in data[ForEachBlockPass.key]:
            fe.append([{'dat': data_view(bd, grid, True), 'rep': bool(bd['replaced']) if 'replaced' in bd else False}
                       for bd in group])
    return {'d': lst(data['d']) if 'd' in data else [], 'k': int(data['k']) if 'k' in data else 0,
            'pl': lst(data.placement), 'im': lst(data.initial_mapping), 'fm': lst(data.final_mapping),
            'err': frac(data.error, grid), 'saw0': lst(data['saw0']) if 'saw0' in data else [-1], 'fe': fe,
            'cell': cell_view(data), 'gs': gs_view(data)}


def run_case(case, workers=1, sched_seed=0, force_runtime=False):
    """Run one case (n, circ0, e0, tree, script) on the real passes; returns the observation record."""
    make_classes()
    from bqskit.compiler.passdata import PassData
    from bqskit.compiler.workflow import Workflow
    script = {(tuple(s['n']), s['blk']): s['s'] for s in case['script']}
    reset(script)
    circuit = build_circuit(case['n'], case['circ0'])
    wf = Workflow([Setup(case['e0']), build(case['tree'], ())])
    grid = 4096 if case.get('calc') else None
    raised = False
    err = ''
    data = None
    if needs_runtime(case['tree']) or force_runtime:
        from harness.simcompile import SimCompiler
        try:
            with SimCompiler(num_workers=workers, sched_seed=sched_seed) as sc:
                circuit, data = sc.compile(circuit, wf, request_data=True)
        except Exception as e:      # the client reports a failed task as RuntimeError
            raised, err = True, '%s: %s | cause: %s' % (type(e).__name__, str(e)[-200:], str(e.__cause__)[-400:])
    else:
        data = PassData(circuit)
        co = wf.run(circuit, data)
        try:
            co.send(None)
            raise RuntimeError('pass tree awaited the runtime although it has no ParallelDo/ForEachBlockPass')
        except StopIteration:
            pass
        except BodyError as e:
            raised, err = True, repr(e)
        except (IndexError, ValueError, TypeError, KeyError, AttributeError) as e:
            raised, err = True, repr(e)
    if raised:
        obs = {'raised': True, 'log': list(LOG), 'circ': [], 'data': EMPTY_DATA, 'err_text': err}
    else:
        obs = {'raised': False, 'log': list(LOG), 'circ': circ_view(circuit), 'data': data_view(data, grid), 'err_text': ''}
    return obs


EMPTY_DATA = {'d': [], 'k': 0, 'pl': [], 'im': [], 'fm': [], 'err': [0, 1], 'saw0': [-1], 'fe': [], 'cell': {'l': [0], 'x': 0}, 'gs': 0}
