"""C11: seeded case generators (pass trees, scripts, partitioned circuits) beyond the TLC-enumerated set.

A case is a JSON-able dict: n, ops (abstract ops in append order), e0, tree, script, calc, workers, sched.
Nothing here touches bqskit.
"""
from __future__ import annotations

import random


def N(k, c=(), a=()):
    return {'k': k, 'c': list(c), 'a': list(a)}


def body(id, beh, wd=1, wm=1, we=1, wi=0):
    """wi: in-place writes (0 none, 1 mutate the pre-existing cell, 2 rebind it, 3 mapping lists, 4 placement list, 5 model)."""
    return N('body', [], [id, beh, wd, wm, we, wi])


WI = [0, 0, 1, 1, 1, 2, 3, 4, 5]


def prim(t, loc):
    return {'t': t, 'loc': list(loc), 'b': False, 'sub': []}


def block(loc, sub):
    return {'t': 0, 'loc': list(loc), 'b': True, 'sub': sub}


MC_OPS = [block([0, 1], [prim(1, [0, 1]), prim(2, [1])]), prim(3, [2]), prim(6, [0]),
          block([1, 2], [prim(4, [0]), prim(5, [0, 1])])]


def kinds_of(t, acc=None):
    acc = set() if acc is None else acc
    if t['k'] not in ('body', 'noop'):
        acc.add(t['k'])
    for x in t['c']:
        kinds_of(x, acc)
    return acc


def scripted_keys(t, path=(), infe=False):
    """[(path, needs_block)] of the scripted nodes of a tree (same walk as SKeys in ControlFlowMC.tla)."""
    out = []
    k, a = t['k'], t['a']
    if k in ('if', 'while', 'dowhile') and a[0] == 0:
        out.append((list(path), infe))
    elif (k in ('dtd', 'par') and a[0] == 0) or (k == 'foreach' and a[1] == 2):
        out.append((list(path), False))
    for i, x in enumerate(t['c']):
        out += scripted_keys(x, tuple(path) + (i + 1,), infe or k == 'foreach')
    return out


def rand_script(rng, maxlen=4):
    return [rng.random() < 0.6 for _ in range(rng.randint(0, maxlen))]


def make_script(rng, tree, nblk=8):
    out = []
    for path, inblk in scripted_keys(tree):
        if inblk and rng.random() < 0.7:
            for b in range(nblk):
                out.append({'n': path, 'blk': b, 's': rand_script(rng, 3)})
        elif inblk:
            out.append({'n': path, 'blk': -2, 's': rand_script(rng, 3)})
        else:
            out.append({'n': path, 'blk': -1, 's': rand_script(rng, 6)})
    return out


# ------------------------------------------------------------------ random direct trees (no runtime needed)
def rand_leaf(rng, rich=True):
    beh = rng.choice([0, 0, 0, 1, 2, 3, 4] if rich else [0, 4])
    return body(rng.randint(1, 4), beh, rng.randint(0, 1), rng.randint(0, 1), rng.randint(0, 1), rng.choice(WI))


def rand_tree(rng, depth, groups=False, infe=False, fail=0.0):
    kinds = ['body', 'body', 'seq', 'if', 'while', 'dowhile', 'dtd'] if depth > 0 else ['body']
    if groups and depth > 0:
        kinds += ['par', 'foreach']
    k = rng.choice(kinds)
    if k == 'body':
        if rng.random() < fail:
            return body(rng.randint(1, 4), 5, 0, 0, 0)
        return rand_leaf(rng)
    if k == 'seq':
        return N('seq', [rand_tree(rng, depth - 1, groups, infe, fail) for _ in range(rng.randint(1, 3))])
    if k == 'if':
        pk = rng.choice([0, 0, 0, 1, 2, 3])
        other = rand_tree(rng, depth - 1, groups, infe, fail) if rng.random() < 0.6 else N('noop')
        return N('if', [rand_tree(rng, depth - 1, groups, infe, fail), other], [pk])
    if k in ('while', 'dowhile'):
        return N(k, [rand_tree(rng, depth - 1, groups, infe, fail)], [0])
    if k == 'dtd':
        ck = rng.choice([1, 2, 3, 4]) if infe else rng.choice([0, 0, 0, 1, 2, 3, 4])
        return N('dtd', [rand_tree(rng, depth - 1, groups, infe, fail)], [ck])
    if k == 'par':
        return N('par', [rand_tree(rng, depth - 1, False, infe, fail) for _ in range(rng.randint(2, 3))], [rng.choice([0, 0, 1, 2, 3])])
    cf = rng.choice([0, 0, 1, 3, 4])
    rf = rng.choice([0, 0, 1, 2, 3])
    return N('foreach', [rand_tree(rng, depth - 1, False, True, fail)], [cf, rf, 0])


# ------------------------------------------------------------------ partitioned circuits
def rand_inner(rng, w, tags, nest=True):
    ops = []
    for _ in range(rng.randint(1, 4)):
        k = rng.randint(1, min(w, 3))
        loc = sorted(rng.sample(range(w), k)) if rng.random() < 0.7 else rng.sample(range(w), k)
        if nest and k >= 1 and rng.random() < 0.2:
            ops.append(block(loc, rand_inner(rng, k, tags, False)))
        else:
            ops.append(prim(next(tags), loc))
    return ops


def rand_partitioned(rng, n, layout):
    """layout: 'chain' (every block alone in its cycle), 'adjacent' (blocks side by side in one cycle), 'nested', 'mixed'."""
    tags = iter(range(1, 99))
    ops = []
    if layout == 'chain':
        w = min(n, rng.randint(2, 3))
        for _ in range(rng.randint(2, 4)):
            loc = list(range(n)) if n <= 3 and rng.random() < 0.5 else sorted(rng.sample(range(n), w))
            ops.append(block(loc, rand_inner(rng, len(loc), tags, False)))
            if rng.random() < 0.4:
                ops.append(prim(next(tags), list(range(min(n, 3)))))
    elif layout == 'adjacent':
        for _ in range(rng.randint(1, 3)):
            q = 0
            while q < n:
                w = rng.randint(1, min(3, n - q))
                loc = list(range(q, q + w))
                if rng.random() < 0.75:
                    ops.append(block(loc, rand_inner(rng, w, tags, False)))
                else:
                    ops.append(prim(next(tags), loc))
                q += w
    elif layout == 'nested':
        for _ in range(rng.randint(2, 4)):
            w = rng.randint(2, min(3, n))
            loc = rng.sample(range(n), w)
            k = rng.randint(1, w)
            inner = [prim(next(tags), sorted(rng.sample(range(w), rng.randint(1, w)))),
                     block(sorted(rng.sample(range(w), k)), rand_inner(rng, k, tags, False))]
            if rng.random() < 0.5:
                inner.append(prim(next(tags), list(range(w))))
            ops.append(block(loc, inner))
            if rng.random() < 0.5:
                ops.append(prim(next(tags), [rng.randrange(n)]))
    else:
        for _ in range(rng.randint(3, 7)):
            k = rng.randint(1, min(3, n))
            loc = rng.sample(range(n), k)
            if rng.random() < 0.6:
                ops.append(block(loc, rand_inner(rng, k, tags)))
            else:
                ops.append(prim(next(tags), loc))
    return ops


def fe_body(rng):
    r = rng.random()
    if r < 0.45:
        return body(rng.randint(1, 4), rng.choice([0, 1, 2, 3, 4]), rng.randint(0, 1), rng.randint(0, 1), rng.randint(0, 1),
                    rng.choice(WI))
    if r < 0.5:
        return body(rng.randint(1, 4), 5, 0, 0, 0)
    if r < 0.62:
        return N('seq', [fe_body(rng), fe_body(rng)])
    if r < 0.74:
        return N('if', [fe_body(rng), fe_body(rng) if rng.random() < 0.5 else N('noop')], [rng.choice([0, 0, 3])])
    if r < 0.88:
        return N('dtd', [fe_body(rng)], [rng.choice([1, 2, 3, 4])])
    return N(rng.choice(['while', 'dowhile']), [body(rng.randint(1, 4), rng.choice([0, 2, 4]), 1, rng.randint(0, 1), 0, rng.choice(WI))], [0])


def has_fail(t):
    return (t['k'] == 'body' and t['a'][1] == 5) or any(has_fail(x) for x in t['c'])


def fe_case(rng, i):
    n = rng.randint(2, 5)
    layout = ['chain', 'adjacent', 'nested', 'mixed'][i % 4]
    ops = rand_partitioned(rng, n, layout)
    cf = [0, 1, 2, 3, 4][(i // 4) % 5]
    rf = [0, 1, 2, 3][(i // 20) % 4] if i >= 80 else rng.choice([0, 1, 2, 3])
    calc = int(rng.random() < 0.35)
    b = fe_body(rng)
    fe = N('foreach', [b], [cf, rf, calc])
    tree = fe
    shape = 'fe'
    if not calc and n <= 3 and rng.random() < 0.3:
        shape = rng.choice(['seq-fe-fe', 'leaf-fe-leaf', 'dtd-fe', 'while-fe', 'fe-dtd-fe', 'fe-dtd-fe'])
        if shape == 'seq-fe-fe':
            tree = N('seq', [fe, N('foreach', [fe_body(rng)], [rng.choice([0, 1, 3, 4]), rng.choice([0, 1, 2, 3]), 0])])
        elif shape == 'leaf-fe-leaf':
            tree = N('seq', [rand_leaf(rng), fe, rand_leaf(rng)])
        elif shape == 'fe-dtd-fe':      # a tentative sweep after an accepted one: ForEachBlockPass_data exists and is appended to in place
            tree = N('seq', [fe, N('dtd', [N('foreach', [fe_body(rng)], [rng.choice([0, 1, 3, 4]), rng.choice([0, 1, 2, 3]), 0])],
                                   [rng.choice([0, 2, 2, 3])])])
        elif shape == 'dtd-fe':
            tree = N('dtd', [fe], [rng.choice([0, 1, 2, 3])])
        else:
            tree = N('while', [fe], [0])
    return {'n': n, 'ops': ops, 'e0': rng.randint(0, 3), 'tree': tree, 'script': make_script(rng, tree), 'calc': bool(calc),
            'workers': rng.randint(1, 4), 'sched': rng.randrange(1 << 20), 'src': 'foreach:%s:%s' % (layout, shape)}


def par_case(rng, i):
    m = rng.randint(2, 3)
    branches = [rand_tree(rng, rng.randint(0, 2), False, False, 0.03) for _ in range(m)]
    par = N('par', branches, [[0, 0, 1, 2, 3][i % 5]])
    shape = rng.choice(['par', 'par', 'seq', 'dtd', 'while', 'if'])
    tree = {'par': par, 'seq': N('seq', [rand_leaf(rng), par, rand_leaf(rng)]), 'dtd': N('dtd', [par], [rng.choice([0, 1, 2])]),
            'while': N('while', [par], [0]), 'if': N('if', [par, rand_leaf(rng)], [0])}[shape]
    return {'n': 3, 'ops': MC_OPS, 'e0': rng.randint(0, 3), 'tree': tree, 'script': make_script(rng, tree), 'calc': False,
            'workers': rng.randint(1, 4), 'sched': rng.randrange(1 << 20), 'src': 'par:' + shape}


def direct_case(rng, i):
    tree = rand_tree(rng, rng.randint(2, 4), False, False, 0.02)
    return {'n': 3, 'ops': MC_OPS, 'e0': rng.randint(0, 3), 'tree': tree, 'script': make_script(rng, tree), 'calc': False,
            'workers': 1, 'sched': 0, 'src': 'random-tree'}


def mixed_case(rng, i):
    """random trees with groups (ParallelDo / ForEach anywhere except inside another group)."""
    tree = rand_tree(rng, rng.randint(2, 3), True, False, 0.02)
    return {'n': 3, 'ops': MC_OPS, 'e0': rng.randint(0, 3), 'tree': tree, 'script': make_script(rng, tree), 'calc': False,
            'workers': rng.randint(1, 4), 'sched': rng.randrange(1 << 20), 'src': 'random-tree-groups'}
