"""Shared driver for the runtime properties C07, C12, C13, C14, C15.

Scenario families -> SimKernel runs of the real runtime (in parallel worker processes) -> L1 traces ->
one batch TLC validation against specs/runtime/RuntimeAbs.tla -> violations attributed to properties.
"""
from __future__ import annotations

import json
import logging
import multiprocessing as mp
import os
import random
import time

from harness import common
from harness.common import Ctx, MachineryError, Outcome, Violation

# A run that does not fall idle is cut off (and then judged by L1 as a livelock, see _run_one) when it has taken STEP_BOUND scheduler
# steps, or QUIET_STEPS consecutive steps without a single observable event.  On the unchanged tree the longest quick-tier run takes
# ~26 000 steps and the longest stretch without an event is a few hundred steps; both maxima are reported in the evidence
# (max_steps_seen, max_quiet_steps_seen).
STEP_BOUND = 100000
QUIET_STEPS = 4000

ABS = os.path.join(common.SPECS, 'runtime', 'RuntimeAbs.tla')
ABS_CFG = os.path.join(common.SPECS, 'runtime', 'RuntimeAbs.cfg')

OWNER = {}
for _c in ('start-of-unsubmitted-task', 'task-body-ran-twice', 'submit-from-inactive-task', 'end-without-start',
           'await-foreign-future', 'future-resolved-twice', 'await-returned-before-children-ended',
           'wrong-or-misordered-value', 'next-duplicate-result', 'next-foreign-slot', 'client-result-before-root-ended',
           'client-got-foreign-result', 'error-not-raised-by-any-task-body', 'client-waits-forever',
           'live-task-never-finished', 'live-task-never-started', 'result-delivered-twice', 'bad-reply-kind',
           'no-progress-within-step-bound'):
    OWNER[_c] = 'C07'
for _c in ('cancelled-future-delivered', 'cancelled-result-delivered', 'residue-of-cancelled-work',
           'cancelled-task-started-after-its-worker-saw-the-cancel'):
    OWNER[_c] = 'C12'
for _c in ('status-inconsistent', 'server-dead-after-request', 'cross-client-leak', 'request-unanswered', 'live-task-refused',
           'raised-error-never-reported'):
    OWNER[_c] = 'C13'
for _c in ('client-waits-forever-after-crash', 'runtime-alive-after-crash', 'result-after-crash-incomplete'):
    OWNER[_c] = 'C14'
for _c in ('counter-out-of-bounds', 'task-forwarded-twice', 'forward-of-unsubmitted-task', 'idle-belief-at-quiescence'):
    OWNER[_c] = 'C15'
HARNESS_CLAUSES = ('harness-overlapping-calls', 'harness-unmatched-return', 'unknown-event', 'unknown-call')


def owner_of(clause):
    return OWNER.get(clause.split(':')[0], '?')


# ------------------------------------------------------------------ program generators

def gen_prog(rng, depth=2, cancel=False, raise_=False, leftover=False, maxfan=3):
    """Random task tree program set: f0 (root) ... leaf.  Returns progs dict."""
    progs = {'leaf': [['ret']]}
    names = ['f%d' % i for i in range(depth)]
    for d in range(depth - 1, -1, -1):
        child = names[d + 1] if d + 1 < depth else 'leaf'
        ins = []
        futs = []
        for j in range(rng.randint(1, 3)):
            f = 'x%d' % j
            tgt = rng.choice([child, 'leaf']) if d + 1 < depth else 'leaf'
            if rng.random() < 0.5:
                ins.append(['submit', f, tgt])
                futs.append((f, 1))
            else:
                n = rng.randint(1, maxfan + (1 if d == 0 else 0))
                ins.append(['map', f, tgt, n])
                futs.append((f, n))
            # sometimes consume immediately, sometimes later
            if rng.random() < 0.4:
                ins += _consume(rng, futs.pop(), cancel, leftover)
        rng.shuffle(futs)
        for fu in futs:
            ins += _consume(rng, fu, cancel, leftover)
        ins.append(['ret'])
        progs[names[d]] = ins
    if raise_:
        victim = rng.choice(list(progs.keys()))
        body = progs[victim]
        pos = rng.randrange(len(body))
        progs[victim] = body[:pos] + [['raise']]
    progs['root'] = progs.pop('f0') if 'f0' in progs else [['ret']]
    # rename references to f0 (none: root is never a child)
    return progs


def _consume(rng, fu, cancel, leftover):
    f, n = fu
    r = rng.random()
    if cancel and r < 0.3:
        pre = [['next', f]] if n > 1 and rng.random() < 0.5 else []
        return pre + [['cancel', f]]
    if leftover and r < 0.4:
        return []                      # never consumed: the runtime cancels it when the owner completes
    if n > 1 and r < 0.55:
        return [['next', f], ['await', f]]
    if n > 1 and r < 0.75:
        return [['drain', f]] + ([['await', f]] if rng.random() < 0.5 else [])
    return [['await', f]]


def _pad(rng, most=3):
    return [['sleep'] for _ in range(rng.randint(0, most))]


def gen_late_error(rng):
    """Task trees in which a descendant raises while the root still completes: the descendant's future is never awaited
    (fire-and-forget submit, early return from a next() loop, a middle task that returns without awaiting).  Whether the
    ERROR reaches the server before or after the root's RESULT, and whether the raise happens before the clean-up CANCEL of
    the finishing ancestor reaches that worker, is up to the schedule; the padding makes both orders likely."""
    # the task that abandons the raising child lingers (so that the child tends to raise BEFORE its future is orphaned: only
    # then does L1 demand the error), the child raises at once
    bad = _pad(rng, 1) + [['raise']]
    linger = [['sleep'] for _ in range(rng.randint(4, 40))]
    shape = rng.randrange(6)
    if shape in (0, 5):
        progs = {'root': [['submit', 'z', 'bad']] + linger + [['ret']]}
    elif shape == 1:
        progs = {'root': [['submit', 'z', 'bad']] + _pad(rng, 1) + [['submit', 'b', 'leaf'], ['await', 'b']] + _pad(rng, 2) + [['ret']]}
    elif shape == 2:
        progs = {'root': [['submit', 'z', 'bad'], ['map', 'm', 'leaf', rng.randint(2, 3)], ['next', 'm']] + _pad(rng, 2) + [['ret']]}
    elif shape == 3:
        progs = {'root': [['submit', 'a', 'mid'], ['await', 'a']] + _pad(rng, 1) + [['ret']],
                 'mid': [['submit', 'z', 'bad']] + linger + [['ret']]}
    else:
        progs = {'root': [['map', 'm', 'mid', 2], ['await', 'm'], ['ret']],
                 'mid': [['submit', 'z', 'bad']] + linger + [['ret']]}
    progs['bad'] = bad
    progs['leaf'] = [['ret']]
    return progs


def gen_cancel_deep(rng):
    """Three levels with a cancel at the top: the root cancels A while A's child B (usually on another worker) is still busy
    creating grandchildren.  A waits for two things, so that it is often sitting in its worker's ready queue (just woken by
    the first) when the CANCEL arrives; the grandchildren are then handed to workers that have already seen the CANCEL of
    their ancestor - and must never start there."""
    n = rng.randint(2, 4)
    a_body = rng.choice([
        [['submit', 'b', 'B'], ['submit', 'c', 'leaf'], ['await', 'c'], ['await', 'b'], ['ret']],
        [['submit', 'b', 'B'], ['map', 'c', 'leaf', 2], ['next', 'c'], ['await', 'c'], ['await', 'b'], ['ret']],
        [['submit', 'c', 'leaf'], ['submit', 'b', 'B'], ['await', 'c'], ['await', 'b'], ['ret']],
    ])
    b_body = _pad(rng, 8) + [['map', 'g', rng.choice(['leaf', 'leaf', 'G']), n], ['await', 'g'], ['ret']]
    # (several A's at once: every one of them is an opportunity)
    first = rng.choice([[['submit', 'a', 'A']], [['map', 'a', 'A', 2]], [['map', 'a', 'A', 3]]])
    root = first + _pad(rng, 10) + [['cancel', 'a']] + rng.choice([[], [['submit', 'z', 'leaf'], ['await', 'z']]]) + [['ret']]
    return {'root': root, 'A': a_body, 'B': b_body, 'G': [['submit', 'x', 'leaf'], ['await', 'x'], ['ret']], 'leaf': [['ret']]}


def late_error_scripts(rng):
    """One client: a compilation, then - after the system has settled - one more request on the same connection (the only
    place where a client can learn of an error that arrived after the result)."""
    return rng.choice([
        [['submit', 'H', 'root'], ['result', 'H'], ['settle'], ['status', 'H']],
        [['submit', 'H', 'root'], ['result', 'H'], ['settle'], ['cancel', 'H']],
        [['submit', 'H', 'root'], ['result', 'H'], ['settle'], ['submit', 'H2', 'leaf'], ['result', 'H2']],
        [['submit', 'H', 'root'], ['settle'], ['status', 'H'], ['result', 'H']],
        [['submit', 'H', 'root'], ['status', 'H'], ['result', 'H'], ['settle'], ['status', 'H']],
    ])


LIB = {
    'A': {'root': [['map', 'm', 'leaf', 3], ['await', 'm'], ['submit', 'a', 'leaf'], ['submit', 'b', 'leaf'], ['await', 'a'], ['await', 'b'], ['ret']], 'leaf': [['ret']]},
    'B': {'root': [['map', 'm', 'mid', 2], ['await', 'm'], ['ret']], 'mid': [['submit', 'a', 'leaf'], ['await', 'a'], ['ret']], 'leaf': [['ret']]},
    'N': {'root': [['map', 'm', 'leaf', 3], ['next', 'm'], ['await', 'm'], ['ret']], 'leaf': [['ret']]},
    'D': {'root': [['map', 'm', 'leaf', 4], ['drain', 'm'], ['ret']], 'leaf': [['ret']]},
    'W': {'root': [['map', 'm', 'mid', 6], ['await', 'm'], ['ret']], 'mid': [['map', 'k', 'leaf', 2], ['await', 'k'], ['ret']], 'leaf': [['ret']]},
    'C': {'root': [['map', 'm', 'mid', 3], ['next', 'm'], ['cancel', 'm'], ['submit', 'a', 'leaf'], ['await', 'a'], ['ret']], 'mid': [['submit', 'a', 'leaf'], ['await', 'a'], ['ret']], 'leaf': [['ret']]},
    'C2': {'root': [['submit', 'a', 'mid'], ['cancel', 'a'], ['submit', 'b', 'leaf'], ['await', 'b'], ['ret']], 'mid': [['map', 'k', 'leaf', 3], ['await', 'k'], ['ret']], 'leaf': [['ret']]},
    'L': {'root': [['map', 'm', 'mid', 2], ['submit', 'a', 'leaf'], ['await', 'a'], ['ret']], 'mid': [['submit', 'a', 'leaf'], ['await', 'a'], ['ret']], 'leaf': [['ret']]},
    'R': {'root': [['submit', 'a', 'bad'], ['await', 'a'], ['ret']], 'bad': [['raise']]},
    'R2': {'root': [['map', 'm', 'mid', 2], ['await', 'm'], ['ret']], 'mid': [['submit', 'a', 'bad'], ['await', 'a'], ['ret']], 'bad': [['raise']], 'leaf': [['ret']]},
    'T': {'root': [['ret']]},
}


def features(sc):
    ins = [i[0] for body in sc['progs'].values() for i in body]
    calls = [c[0] for s in sc['clients'] for c in s]
    return {
        'has_cancel': 'cancel' in ins, 'has_raise': 'raise' in ins, 'has_next': 'next' in ins or 'drain' in ins,
        'client_cancel': 'cancel' in calls, 'topo': sc['topo'][0], 'lines': bool(sc.get('lines')),
        'crash': bool(sc.get('crash')), 'nclients': len(sc['clients']),
        'leftover': _has_leftover(sc['progs']),
        'any_cancel': ('cancel' in ins or 'cancel' in calls or 'raise' in ins or _has_leftover(sc['progs']) or _abandons(sc['clients'])
                       or bool(sc.get('crash'))),
    }


def _abandons(clients):
    for s in clients:
        subs = [c[1] for c in s if c[0] == 'submit']
        got = {c[1] for c in s if c[0] == 'result'}
        if any(h not in got for h in subs):
            return True
    return False


def _has_leftover(progs):
    for body in progs.values():
        made = [i[1] for i in body if i[0] in ('submit', 'map')]
        used = {i[1] for i in body if i[0] in ('await', 'cancel', 'drain')}
        if any(m not in used for m in made) and not any(i[0] == 'raise' for i in body):
            return True
    return False


# ------------------------------------------------------------------ parallel execution

def _init_worker():
    logging.disable(logging.CRITICAL)
    import warnings
    warnings.filterwarnings('ignore')
    common.use_repo()


def _run_one(sc):
    from harness import rtdrive
    try:
        bound = sc.get('max_steps', STEP_BOUND)
        tr, dg = rtdrive.run_scenario(sc, max_steps=bound, quiet_steps=QUIET_STEPS)
        if dg['status'] == 'maxsteps':
            # not a harness failure: repeat once with four-fold bounds; if the system still does not fall idle the trace
            # ends in a snapshot marked "livelock" and L1 judges it (bounded-fairness reading of "for ever")
            first = dg['steps']
            tr, dg = rtdrive.run_scenario(sc, max_steps=4 * bound, quiet_steps=4 * QUIET_STEPS)
            dg['notes'] = list(dg['notes']) + ['no progress (%d steps, bounds %d / %d quiet); repeated with four-fold bounds: %s after %d steps'
                                               % (first, bound, QUIET_STEPS, dg['status'], dg['steps'])]
        return tr, dg, None
    except Exception as e:          # harness failure, reported as machinery error by the caller
        import traceback
        return None, None, traceback.format_exc()[-1500:]


def run_scenarios(scs, procs=14):
    if not scs:
        return []
    # import the tree under test once, here: the forked pool workers inherit it (importing bqskit costs ~10 s of CPU per process)
    _init_worker()
    ctx = mp.get_context('fork')
    with ctx.Pool(min(procs, max(1, len(scs))), initializer=_init_worker) as pool:
        return pool.map(_run_one, scs, chunksize=max(1, len(scs) // (procs * 8)))


def validate(prop, scs, ctx: Ctx, also=(), extra_cov=None, extra_traces=(), keep_items=False, results=None):
    """Run scenarios, validate traces with TLC, build the Outcome for property `prop`.
    Clauses owned by `prop` or by a property in `also` are violations of `prop`; other clauses become notes.
    ``extra_traces`` = already recorded executions [(trace, diag, scenario)] (guided replays of TLC behaviours).
    ``results`` = run_scenarios(scs) if the caller has run them already (e.g. while TLC was busy with the L2 models)."""
    t0 = time.time()
    if results is None:
        results = run_scenarios(scs)
    t_run = time.time() - t0
    scs = list(scs) + [x[2] for x in extra_traces]
    results = list(results) + [(x[0], x[1], None) for x in extra_traces]
    traces, keep = [], []
    out = Outcome(prop)
    nfail = nstuck = 0
    for sc, (tr, dg, err) in zip(scs, results):
        if err is not None:
            nfail += 1
            if nfail <= 3:
                out.notes.append('HARNESS-NOTE scenario died with a harness exception: %s' % err[-300:])
            continue
        if dg['status'] == 'maxsteps':
            nstuck += 1           # judged by L1 through the livelock snapshot at the end of its trace
        traces.append(tr)
        keep.append((sc, dg))
        for n in dg['notes']:
            if n not in out.notes:
                out.notes.append(n)
    if nfail > max(3, len(scs) // 20):
        raise MachineryError('%d of %d scenarios failed to run' % (nfail, len(scs)))
    t1 = time.time()
    # (one JVM per ~100 traces, at most 8: starting a JVM costs more than validating a few dozen traces)
    verdicts, states, trans, _ = common.batch_validate(ABS, ABS_CFG, traces, ctx.scratch, chunk=1500, parallel=min(8, 1 + len(traces) // 100))
    t_tlc = time.time() - t1
    other = {}
    for idx, step, clause, _ in verdicts:
        sc, dg = keep[idx]
        if clause in HARNESS_CLAUSES:
            raise MachineryError('trace malformed (%s) at step %d of scenario %s' % (clause, step, json.dumps(sc)[:400]))
        own = owner_of(clause)
        e = traces[idx]['ev'][step - 1]
        if own == prop or own in also:
            feats = features(sc)
            # a clause may carry a qualifier that belongs into the key (what a known-finding entry can match on), not the name
            for suffix, val in ((':explained', True), (':unexplained', False)):
                if clause.endswith(suffix):
                    clause = clause[:-len(suffix)]
                    feats['explained'] = val
            key = {'clause': clause}
            key.update(feats)
            ev_small = {k: v for k, v in e.items() if v not in (0, [], '', False)}
            tail = [(x['e'], x['t'], x['f']) for x in traces[idx]['ev'] if x['e'] not in ('BossState', 'Forward')][-14:]
            detail = ('L1 clause %s at event %d: %s\nscenario topo=%s sched=%s lines=%s crash=%s clients=%s\nprogram=%s\n'
                      'thread errors=%s\nblocked threads=%s\nlast events=%s' % (
                          clause, step, json.dumps(ev_small)[:700], sc['topo'], sc['sched'][:2], sc.get('lines'), sc.get('crash'),
                          json.dumps(sc['clients']), json.dumps(sc['progs']), dg['thread_errors'], dg['blocked_threads'][:12], tail))
            rsc = dict(sc)
            rsc['sched'] = ['replay', dg['picks'], dg['choices']]
            out.violations.append(Violation(prop, clause, key, detail, {'scenario': rsc, 'orig_sched': sc['sched']}))
        else:
            other[clause] = other.get(clause, 0) + 1
    for c, n in sorted(other.items()):
        out.notes.append('NOTE clause %s (owned by %s, decided by its own check) observed %d time(s) in %s scenarios' % (c, owner_of(c), n, prop))
    nontrivial = set()
    nev = 0
    for tr in traces:
        evs = [(e['e'], e['t'], e['f'], str(e['v']), e['call'], e['kind']) for e in tr['ev'] if e['e'] not in ('BossState',)]
        nev += len(tr['ev'])
        if any(e[0] in ('AwaitReturn', 'NextReturn', 'ClientReturn') for e in evs):
            nontrivial.add(common.digest(evs))
    samp = []
    for i in (0, len(traces) // 2):
        if i < len(traces):
            samp.append({'scenario': {k: v for k, v in keep[i][0].items() if k != 'max_steps'},
                         'events': [{k: v for k, v in e.items() if v not in (0, [], '', False)} for e in traces[i]['ev'][:40]]})
    ec = extra_cov or {}
    cov = {
        'states': states + ec.get('l2_states', 0), 'transitions': trans + ec.get('l2_transitions', 0),
        'l1_trace_states': states, 'traces_validated_against_impl': len(traces),
        'evaluations': len(scs), 'distinct_nontrivial': len(nontrivial), 'events_validated': nev,
        'rule': 'one evaluation = one execution of the real runtime classes under the deterministic scheduler (one scenario: topology x '
                'task programs x client scripts x schedule x optional crash); distinct = distinct L1 event sequences (hash of the ordered '
                'task/client events, counters excluded); non-trivial = at least one await/next/client return occurred',
        'samples': samp,
        'sim_wall_s': round(t_run, 1), 'tlc_wall_s': round(t_tlc, 1),
        'checker_cmd': 'tlc -config specs/runtime/RuntimeAbs.cfg specs/runtime/RuntimeAbs.tla (batch trace validation)',
        'trusted_base': ['TLC', 'harness/sim.py (scheduler and OS shims: FIFO channels, pickled payloads, process death)',
                         'harness/rtprog.py event logging', 'harness/rtdrive.py projections'],
        'scenario_features': _feature_counts(scs),
        'max_steps_seen': max([dg['steps'] for _, dg in keep] or [0]), 'step_bound': STEP_BOUND,
        'max_quiet_steps_seen': max([dg.get('max_quiet_steps', 0) for _, dg in keep] or [0]), 'quiet_bound': QUIET_STEPS,
        'runs_that_never_fell_idle': nstuck,
        'situations_reached': _situations([dg for _, dg in keep]),
    }
    if extra_cov:
        cov.update(extra_cov)
    cov['real_process_undecided'] = _REAL['undecided']
    out.notes += _REAL['notes']
    _REAL['undecided'], _REAL['notes'] = 0, []
    out.coverage = cov
    if keep_items:
        out.items = [(tr, dg, sc) for tr, (sc, dg) in zip(traces, keep)]
    return out


def _situations(diags):
    """How often the situations the scenario families aim at were actually reached (counters kept by harness/rtdrive.py):
    sums over all runs, and `runs_with:<name>` = number of runs in which the counter was non-zero."""
    tot = {}
    for dg in diags:
        for k, v in (dg.get('stats') or {}).items():
            tot[k] = tot.get(k, 0) + int(v)
            if v:
                tot['runs_with:' + k] = tot.get('runs_with:' + k, 0) + 1
    return tot


def _feature_counts(scs):
    c = {}
    for sc in scs:
        f = features(sc)
        for k, v in f.items():
            if v is True or isinstance(v, str):
                kk = '%s=%s' % (k, v)
                c[kk] = c.get(kk, 0) + 1
    return c


def replay_outcome(prop, ctx, also=()):
    sc = ctx.replay['replay']['scenario']
    if sc.get('real'):
        return validate(prop, [], ctx, also=also, extra_traces=run_real_scenarios([sc], ctx))
    return validate(prop, [sc], ctx, also=also)


_REAL = {'undecided': 0, 'notes': []}      # bookkeeping of run_real_scenarios, merged into the Outcome by validate()


def _real_job(args):
    sc, scratch, timeout = args
    from harness import rtreal
    common.use_repo()
    before = set(os.listdir(scratch))
    tr, dg = rtreal.run_real(sc, scratch, call_timeout=timeout)
    times = []
    for d in sorted(os.listdir(scratch)):
        if d.startswith('rtreal') and d not in before:
            try:
                with open(os.path.join(scratch, d, 'times.txt')) as f:
                    times = [float(x) for x in f.read().split()]
            except (OSError, ValueError):
                pass
    return tr, dg, times


def _real_once(sc, ctx, timeout):
    """One real-process run; returns (trace, diag, event times).  harness/rtprog.py stamps every event it writes with the
    wall clock in <trace dir>/times.txt (the trace itself carries no times).
    Each attempt runs in a process of its own: a client thread that is still blocked when the attempt ends (that is what a hang
    looks like) dies with that process instead of writing its late events into the trace of the next attempt."""
    with mp.get_context('fork').Pool(1, maxtasksperchild=1) as pool:
        return pool.apply_async(_real_job, ((sc, ctx.scratch, timeout),)).get(timeout=timeout + 600)


def _pending(tr, dg):
    """Does the wall-clock part of the verdict say 'still waiting' (a client call pending, or - after a crash - a runtime
    process still alive)?"""
    last = tr['ev'][-1] if tr['ev'] else {}
    return bool(dg['blocked_threads']) or bool(last.get('e') == 'Quiescent' and (last.get('blocked') or last.get('alive')))


def run_real_scenarios(scs, ctx, parallel=4):
    """Real OS processes and sockets (harness/rtreal.py); returns [(trace, diag, scenario)].

    OS-scheduled runs end by WALL CLOCK, so "a call is still pending" may only mean a slow machine.  The rule that keeps the
    verdict sound: a run with something still pending is repeated once with a six-fold limit; if something is pending again,
    the run counts as a hang only on evidence of silence - the machine is not overloaded (1-minute load average <= cores),
    the run did produce events, and no event arrived during the last fifth of the time limit.  Otherwise it is UNDECIDED:
    its trace is dropped, a NOTE is printed and it is counted in coverage['real_process_undecided'].  Hangs are decided by
    the deterministic kernel runs, which do not depend on time; real runs contribute validated OS-scheduled traces."""
    common.use_repo()
    out = []
    # the interpreter's tables are module globals: real runs are executed one after another in this process,
    # their start-up (process spawn + imports) is what takes the time
    for sc in scs:
        sc = dict(sc)
        sc['real'] = True
        try:
            tr, dg, times = _real_once(sc, ctx, 40.0)
            if _pending(tr, dg):
                limit = 240.0
                tr, dg, times = _real_once(sc, ctx, limit)
                dg['notes'] = list(dg.get('notes', [])) + ['first attempt had something pending after 40 s; repeated with 240 s']
                if _pending(tr, dg):
                    load = os.getloadavg()[0]
                    cores = os.cpu_count() or 1
                    nev = sum(1 for e in tr['ev'] if e['e'] != 'Quiescent')
                    # times[-1] is the harness' own final snapshot; the one before is the last thing the system did
                    quiet = (times[-1] - times[-2]) if len(times) >= 2 else 0.0
                    if nev == 0 or load > cores or quiet < 0.2 * limit:
                        _REAL['undecided'] += 1
                        _REAL['notes'].append('NOTE property=%s real-process run undecided (machine overloaded: load=%.1f on %d cores, events=%d, '
                                              'last event %.0f s before the %d s limit ran out); dropped, not judged'
                                              % (ctx.prop, load, cores, nev, quiet, int(limit)))
                        continue
                    dg['notes'].append('still pending after %d s on a quiet machine (load %.1f, last event %.0f s before the end): judged' % (int(limit), load, quiet))
            out.append((tr, dg, sc))
        except Exception as e:
            raise MachineryError('real-process run failed: %r' % (e,))
    return out


def topologies(rng, quick):
    t = [['attached', n] for n in (1, 2, 3, 4)]
    t += [['detached', s] for s in ([1], [2], [1, 1], [2, 1], [2, 2], [1, 1, 1], [3], [2, 3])]
    if not quick:
        t += [['detached', s] for s in ([3, 3], [2, 2, 2], [3, 3, 3], [1, 2, 3])]
    return t
