"""Shared machinery: TLC runner and output parsers, evidence writer, known-findings matcher.

Every check module exposes ``run(ctx) -> Outcome``; ``harness.main`` turns an
Outcome into exit code, VIOLATION / KNOWN-FINDING lines and evidence/<id>.json.
"""
from __future__ import annotations

import hashlib
import json
import os
import re
import shutil
import subprocess
import sys
import tempfile
import time
from dataclasses import dataclass, field
from typing import Any

VERIF = os.path.dirname(os.path.dirname(os.path.abspath(__file__)))
REPO = os.environ.get('VERIF_REPO', '/repo')
SPECS = os.path.join(VERIF, 'specs')
OUT = os.path.join(VERIF, 'out')
TLA_LIB = os.pathsep.join(os.path.join(SPECS, d) for d in (
    'exact', 'runtime', 'circuit', 'graph', 'partition', 'mapping', 'control', 'compile', 'objstore', 'qasm'))
TLA_CP = '/opt/veriftools/tla/tla2tools.jar:/opt/veriftools/tla/CommunityModules-deps.jar'


class MachineryError(Exception):
    """The machinery (not BQSKit) failed: exit 2."""


@dataclass
class Violation:
    property: str
    clause: str
    key: dict          # fields a known-finding entry may match on
    detail: str        # human readable
    replay: dict       # everything needed to re-run exactly this case


@dataclass
class Outcome:
    property: str
    violations: list = field(default_factory=list)
    coverage: dict = field(default_factory=dict)
    assumptions: list = field(default_factory=list)
    notes: list = field(default_factory=list)      # DRIFT / UNOBSERVABLE lines, printed


@dataclass
class Ctx:
    prop: str
    tier: str
    seed: int
    scratch: str
    replay: dict | None = None

    @property
    def quick(self) -> bool:
        return self.tier == 'quick'


# --------------------------------------------------------------------------- TLC

@dataclass
class TlcResult:
    rc: int
    out: str
    states: int
    distinct: int
    depth: int
    verdicts: list       # parsed <<"VERDICT", ...>> tuples
    prints: list         # every other PrintT tuple (parsed)
    coverage: dict       # action -> count when -coverage used
    wall: float
    ok: bool             # finished without error / invariant violation
    error: str


_NUM = re.compile(r'(\d+) states generated, (\d+) distinct states found')


def _parse_tla_value(s: str, i: int = 0):
    """Parse a TLA+ value printed by TLC (tuples, strings, ints, booleans, sets, records)."""
    def ws(i):
        while i < len(s) and s[i] in ' \n\t\r':
            i += 1
        return i
    i = ws(i)
    if s.startswith('<<', i):
        i += 2
        items = []
        i = ws(i)
        if s.startswith('>>', i):
            return items, i + 2
        while True:
            v, i = _parse_tla_value(s, i)
            items.append(v)
            i = ws(i)
            if s.startswith('>>', i):
                return items, i + 2
            if s[i] != ',':
                raise ValueError('bad tuple at %d: %r' % (i, s[i:i + 30]))
            i += 1
    if s[i] == '{':
        i += 1
        items = []
        i = ws(i)
        if s[i] == '}':
            return {'set': items}, i + 1
        while True:
            v, i = _parse_tla_value(s, i)
            items.append(v)
            i = ws(i)
            if s[i] == '}':
                return {'set': items}, i + 1
            if s[i] != ',':
                raise ValueError('bad set at %d' % i)
            i += 1
    if s[i] == '[':
        i += 1
        rec = {}
        i = ws(i)
        while True:
            m = re.compile(r'\s*([A-Za-z_][A-Za-z_0-9]*)\s*\|->').match(s, i)
            if not m:
                raise ValueError('bad record at %d: %r' % (i, s[i:i + 30]))
            i = m.end()
            v, i = _parse_tla_value(s, i)
            rec[m.group(1)] = v
            i = ws(i)
            if s[i] == ']':
                return rec, i + 1
            if s[i] != ',':
                raise ValueError('bad record sep at %d' % i)
            i += 1
    if s[i] == '"':
        j = i + 1
        buf = []
        while s[j] != '"':
            if s[j] == '\\':
                j += 1
            buf.append(s[j])
            j += 1
        return ''.join(buf), j + 1
    m = re.compile(r'-?\d+').match(s, i)
    if m:
        return int(m.group(0)), m.end()
    m = re.compile(r'TRUE|FALSE').match(s, i)
    if m:
        return m.group(0) == 'TRUE', m.end()
    m = re.compile(r'[A-Za-z_][A-Za-z_0-9]*').match(s, i)
    if m:
        return m.group(0), m.end()
    raise ValueError('cannot parse at %d: %r' % (i, s[i:i + 30]))


def parse_prints(out: str) -> list:
    """All top-level <<...>> values printed by PrintT, by bracket matching (robust to interleaving of lines)."""
    vals = []
    i = 0
    start = re.compile(r'<<\s*"')     # TLC wraps a tuple wider than ~80 columns over several lines: `<< "VERDICT",\n   1, ...`
    while True:
        m = start.search(out, i)
        if not m:
            break
        i = m.start()
        try:
            v, j = _parse_tla_value(out, i)
            vals.append(v)
            i = j
        except (ValueError, IndexError):
            i += 3
    return vals


def tlc(spec: str, cfg: str | None = None, *, workers: int | str = 'auto', env: dict | None = None,
        simulate: str | None = None, depth: int | None = None, seed: int | None = None,
        coverage: bool = False, timeout: int = 1800, extra: list | None = None,
        cwd: str | None = None, deque: bool = False, dump: str | None = None,
        scratch: str | None = None, heap: str = '8g', continue_: bool = False) -> TlcResult:
    """Run TLC on ``spec`` (path to .tla). Returns parsed result; never raises on property failure."""
    cwd = cwd or os.path.dirname(spec)
    meta = tempfile.mkdtemp(prefix='tlcmeta', dir=scratch)
    cmd = ['java', '-XX:+UseParallelGC', '-Xmx' + heap, '-DTLA-Library=' + TLA_LIB]
    if deque:
        cmd.append('-Dtlc2.tool.queue.IStateQueue=StateDeque')
    cmd += ['-cp', TLA_CP, 'tlc2.TLC', '-metadir', meta, '-noGenerateSpecTE', '-workers', str(workers)]
    if cfg:
        cmd += ['-config', cfg]
    if simulate is not None:
        cmd += ['-simulate', simulate]
    if depth is not None:
        cmd += ['-depth', str(depth)]
    if seed is not None:
        cmd += ['-seed', str(seed)]
    if coverage:
        cmd += ['-coverage', '1']
    if dump:
        cmd += ['-dump', 'dot,actionlabels', dump]
    if continue_:
        cmd += ['-continue']
    cmd += (extra or [])
    cmd.append(os.path.basename(spec))
    e = dict(os.environ)
    e.update(env or {})
    t0 = time.time()
    try:
        p = subprocess.run(cmd, cwd=cwd, env=e, capture_output=True, text=True, timeout=timeout)
        out = p.stdout + p.stderr
        rc = p.returncode
    except subprocess.TimeoutExpired as ex:
        out = (ex.stdout or b'').decode('utf8', 'replace') if isinstance(ex.stdout, bytes) else (ex.stdout or '')
        out += '\nTLC-TIMEOUT'
        rc = 124
    finally:
        shutil.rmtree(meta, ignore_errors=True)
    wall = time.time() - t0
    st = dist = dep = 0
    for m in _NUM.finditer(out):
        st, dist = int(m.group(1)), int(m.group(2))
    m = re.search(r'depth of the complete state graph search is (\d+)', out)
    if m:
        dep = int(m.group(1))
    prints = parse_prints(out)
    verdicts = [v for v in prints if v and v[0] == 'VERDICT']
    # completeness: every printed verdict must have been parsed (a lost verdict would read as acceptance)
    raw = len(re.findall(r'<<\s*"VERDICT"', out))
    if raw != len(verdicts):
        raise MachineryError('TLC printed %d VERDICT tuples but %d were parsed (%s)' % (raw, len(verdicts), os.path.basename(spec)))
    others = [v for v in prints if not (v and v[0] == 'VERDICT')]
    cov = {}
    if coverage:
        for m in re.finditer(r'<(\w+) line \d+, col \d+ to line \d+, col \d+ of module (\w+)(?: \((\d+) \d+ \d+ \d+\))?>: (\d+):(\d+)', out):
            key = m.group(1) if not m.group(3) else '%s@%s' % (m.group(1), m.group(3))    # disjunct of Next, by source line
            cov[key] = cov.get(key, 0) + int(m.group(5))
    err = ''
    ok = rc == 0
    if not ok:
        m = re.search(r'(Error: .*(?:\n.*){0,12})', out)
        err = m.group(1) if m else out[-1500:]
    return TlcResult(rc, out, st, dist, dep, verdicts, others, cov, wall, ok, err)


def sany(spec: str) -> tuple[bool, str]:
    p = subprocess.run(['java', '-DTLA-Library=' + TLA_LIB, '-cp', TLA_CP, 'tla2sany.SANY', os.path.basename(spec)],
                       cwd=os.path.dirname(spec), capture_output=True, text=True)
    out = p.stdout + p.stderr
    return (p.returncode == 0 and 'Semantic errors' not in out and 'Parse Error' not in out
            and 'Fatal errors' not in out and '*** Errors' not in out), out


# ------------------------------------------------------------------ batch traces

def batch_validate(spec: str, cfg: str, cases: list, scratch: str, *, chunk: int = 400,
                   timeout: int = 1800, workers: int | str = 'auto', env: dict | None = None,
                   key: str = 'TRACE_FILE', parallel: int = 1) -> tuple[list, int, int, list]:
    """Validate ``cases`` (JSON-able list) with a total-verdict trace spec.

    The spec reads ``JsonDeserialize(IOEnv.TRACE_FILE)`` (a JSON array), starts one behaviour
    per case (``tid``), and prints ``<<"VERDICT", tid, step, clause>>`` for each rejected case.
    Returns (verdicts [(case_index, step, clause, extra)], states, transitions, raw results).
    A TLC failure raises MachineryError: a crash of the checker never counts as acceptance.
    ``parallel`` > 1 runs that many TLC JVMs side by side (trace validation is embarrassingly
    parallel across cases, while one JVM mostly serialises on its initial-state set).
    """
    verdicts = []
    states = trans = 0
    results = []
    if parallel > 1 and len(cases) > parallel:
        chunk = min(chunk, -(-len(cases) // parallel))
    bases = list(range(0, len(cases), chunk))

    def one(base):
        part = cases[base:base + chunk]
        fd, path = tempfile.mkstemp(prefix='trace', suffix='.json', dir=scratch)
        with os.fdopen(fd, 'w') as f:
            json.dump(part, f)
        e = {key: path}
        e.update(env or {})
        r = tlc(spec, cfg, env=e, timeout=timeout, workers=(workers if parallel <= 1 else 2), scratch=scratch,
                heap='8g' if parallel <= 1 else '3g')
        os.unlink(path)
        return base, r
    if parallel > 1 and len(bases) > 1:
        from concurrent.futures import ThreadPoolExecutor
        with ThreadPoolExecutor(parallel) as ex:
            done = list(ex.map(one, bases))
    else:
        done = [one(b) for b in bases]
    for base, r in done:
        if not r.ok:
            raise MachineryError('TLC failed on %s: %s' % (os.path.basename(spec), r.error or r.out[-2000:]))
        results.append(r)
        states += r.distinct
        trans += r.states
        for v in r.verdicts:
            verdicts.append((base + v[1] - 1, v[2], v[3], v[4:] if len(v) > 4 else []))
    return verdicts, states, trans, results


# -------------------------------------------------------------- known findings

def load_known() -> list:
    """known_findings.json plus known_findings.d/*.json (one file per property keeps edits apart)."""
    import glob
    out = []
    paths = [os.path.join(VERIF, 'known_findings.json')] + sorted(glob.glob(os.path.join(VERIF, 'known_findings.d', '*.json')))
    for p in paths:
        if os.path.exists(p):
            with open(p) as f:
                out += json.load(f).get('findings', [])
    return out


class compiler_lock:
    """Machine-wide lock for anything that starts a real attached Compiler/runtime: the attached server
    always listens on the default ports (7472/7474), so only one can exist at a time."""

    def __enter__(self):
        import fcntl
        self.f = open('/tmp/verif-compiler.lock', 'w')
        fcntl.flock(self.f, fcntl.LOCK_EX)
        return self

    def __exit__(self, *a):
        import fcntl
        fcntl.flock(self.f, fcntl.LOCK_UN)
        self.f.close()


def match_known(v: Violation, known: list):
    for k in known:
        if k.get('status', 'open') != 'open':
            continue            # "fixed" entries suppress nothing
        if k['property'] != v.property:
            continue
        m = k['match']
        if m.get('clause') is not None and m['clause'] != v.clause:
            continue
        okay = True
        for fk, fv in m.items():
            if fk == 'clause':
                continue
            have = v.key.get(fk)
            if isinstance(fv, list):
                if have not in fv:
                    okay = False
            elif have != fv:
                okay = False
        if okay:
            return k
    return None


# -------------------------------------------------------------------- evidence

def digest(obj: Any) -> str:
    return hashlib.sha1(json.dumps(obj, sort_keys=True, default=str).encode()).hexdigest()[:16]


def write_evidence(ctx: Ctx, out: Outcome, wall: float, nviol: int, level: str = 'model_checking'):
    os.makedirs(os.path.join(VERIF, 'evidence'), exist_ok=True)
    ev = {
        'property_id': ctx.prop,
        'tier': ctx.tier,
        'seed': ctx.seed,
        'level': level,
        'coverage': out.coverage,
        'assumptions': out.assumptions,
        'wall_s': round(wall, 2),
        'violations': nviol,
    }
    path = os.path.join(VERIF, 'evidence', ctx.prop + '.json')
    tmp = path + '.tmp'
    with open(tmp, 'w') as f:
        json.dump(ev, f, indent=1, sort_keys=True, default=str)
    os.replace(tmp, path)
    return path


def save_replay(v: Violation) -> str:
    d = os.path.join(OUT, 'replays', v.property)
    os.makedirs(d, exist_ok=True)
    body = {'property': v.property, 'clause': v.clause, 'key': v.key, 'detail': v.detail, 'replay': v.replay}
    path = os.path.join(d, '%s-%s.json' % (v.clause.replace('/', '_').replace(':', '_')[:40], digest(body)))
    with open(path, 'w') as f:
        json.dump(body, f, indent=1, default=str)
    return path


def use_repo():
    """Make ``import bqskit`` resolve to $VERIF_REPO's working tree."""
    if REPO not in sys.path:
        sys.path.insert(0, REPO)
    import bqskit  # noqa
    import bqskit.ir  # noqa  (resolves the qis<->ir import cycle in the right order)
    got = os.path.dirname(os.path.dirname(os.path.abspath(bqskit.__file__)))
    if os.path.realpath(got) != os.path.realpath(REPO):
        raise MachineryError('bqskit imported from %s, expected %s' % (got, REPO))
