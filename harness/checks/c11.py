"""C11 - block-wise and control-flow passes apply bodies exactly as specified (specs/control)."""
from __future__ import annotations

import json
import os
import random
import re
import time

from harness import c11_gen as G
from harness import common, exact
from harness.common import Ctx, MachineryError, Outcome, Violation

INTERP = os.path.join(common.SPECS, 'control', 'ControlFlowInterp.tla')
SPEC = os.path.join(common.SPECS, 'control', 'ControlFlow.tla')
CFG = os.path.join(common.SPECS, 'control', 'ControlFlow.cfg')
MC = os.path.join(common.SPECS, 'control', 'ControlFlowMC.tla')

MANIFEST_ENTRY = dict(
    engine='control',
    technique='TLA+ interpreter of the pass language (specs/control/ControlFlowInterp.tla); TLC enumerates pass trees x predicate '
              'scripts as states of a generator and checks meta-properties (ControlFlowMC.tla); every enumerated case and seeded '
              'larger ones are run on the real passes and the recorded executions are judged by TLC (ControlFlow.tla); pass-data '
              'values have identity (a store of cell objects), so in-place mutation vs rebinding is part of the language and TLC '
              'flags the behaviours in which a shallow snapshot would differ; a second model (ForEachParams.tla) generates the ways a '
              'block\'s own and stored angles come apart and judges the real ForEachBlockPass on the exact domain (Monomial.Sem)',
    text='The pass language Body | Workflow | IfThenElse | While | DoWhile | DoThenDecide | ParallelDo | ForEachBlockPass(collection '
         'filter, body, replace filter) has a recursive TLA+ interpreter over an abstract circuit (tagged ops, blocks with inner '
         'circuits) and an abstract PassData (user keys, placement, initial/final mapping, error as an exact rational, '
         'ForEachBlockPass_data). TLC enumerates every pass tree of depth <= 2 over a small alphabet with every assignment of '
         'scripts to its predicates, checks on each that a rejected DoThenDecide leaves circuit and data as they were, While/DoWhile '
         'run their body as often as the script has leading TRUEs, a Workflow log is the concatenation, IfThenElse runs one branch, '
         'ParallelDo returns one branch entirely, ForEach touches selected ops only, and exports the cases. Each exported case '
         '(all that need no runtime; a seeded sample of the ParallelDo/ForEach ones) plus seeded random trees to depth 4, ParallelDo '
         'cases and ForEach cases (blocks alone in a cycle / adjacent / nested, widths 2-5, bodies identity / rewrite / shrink to '
         'empty / grow / fail / nested control flow, five collection filters, four replace filters, calculate_error_bound on/off) '
         'is executed on the real passes - directly as coroutines, or through the real runtime under the deterministic SimKernel '
         'with 1-4 workers and varied schedules - with instrumented bodies and scripted predicates; body log, final circuit '
         '(per-qudit sequences), final PassData incl. mappings, block data order and the error bookkeeping formula are compared by TLC. '
         'Bodies also write INTO objects the data already holds (in-place edit of a pre-existing list/nested dict, rebinding it, in-place '
         'edit of the lists handed out by initial_mapping/final_mapping/placement, assignment into the model via gate_set); the deep '
         'values are read after the control pass. ForEachParams.tla: TLC enumerates build histories (block folded with own angles / one '
         'shared template gate / set_params after blocking / pickling on submission) x body (identity, zero last angle, append Z) x '
         'collection filter x replace filter x calculate_error_bound; each replayed behaviour is judged by exact semantics: what every '
         'body received vs the collected operation, the written-back circuit vs the expected one, and reported error >= 1/16 whenever the '
         'circuit changed (every change on this domain is at distance >= 0.129).',
    note='"The reported error is never smaller than the distance actually introduced" is decided only on the exact domain of '
         'ForEachParams.tla (distance 0 or >= 0.129); elsewhere: with '
         'calculate_error_bound the per-block errors are taken as observed (rounded to 1/4096) and only the formula '
         '1-(1-e)(1-sum of replaced block errors) is checked (within 1/512; exactly, with rationals, when the bodies report the errors). '
         'Not covered: ParallelDo(pick_first=True); ParallelDo/ForEach nested inside a ParallelDo branch or a ForEach body; scripted '
         'DoThenDecide conditions inside ForEach bodies (content-based ones are). Known finding: PassData.become does not copy '
         'initial_mapping/final_mapping, so a rejected DoThenDecide keeps the rejected mappings and ParallelDo drops the chosen '
         'branch\'s (clause mappings-not-restored; the verdict names the node kind whose restore explains the observation). '
         'Trusted: TLC, harness/c11_passes.py (instrumented bodies, projection of Circuit/PassData to the abstract records).',
    ref='DESIGN.md section 4 / C11',
)

n_dir_quick = 9000
PASS_NAME = {'DoThenDecide': 'DoThenDecide', 'ParallelDo': 'ParallelDo', 'DoThenDecide+ParallelDo': 'DoThenDecide+ParallelDo'}


# ------------------------------------------------------------------ running cases on the real passes
def _run(case):
    """Module level (forked pool).  Returns the full validation record."""
    from harness import c11_passes as P
    rec = {'n': case['n'], 'e0': case['e0'], 'tree': case['tree'], 'script': case['script'], 'calc': bool(case.get('calc')),
           'berr': []}
    P.make_classes()
    rec['circ0'] = P.circ_view(P.build_circuit(case['n'], case['ops']))       # the input in the implementation's iteration order
    t0 = time.time()
    try:
        obs = P.run_case(dict(rec), workers=case.get('workers', 1), sched_seed=case.get('sched', 0))
    except Exception as e:      # the machinery (SimKernel, harness) failed, not a verdict
        return {'machinery': '%s: %s' % (type(e).__name__, str(e)[:400])}
    rec['obs'] = {k: obs[k] for k in ('raised', 'log', 'circ', 'data')}
    rec['err_text'] = obs.get('err_text', '')
    if rec['calc'] and not obs['raised'] and obs['data']['fe']:
        rec['berr'] = [b['dat']['err'] for b in obs['data']['fe'][0]]
    rec['wall'] = round(time.time() - t0, 3)
    return rec


def _mc(ctx: Ctx, out: Outcome):
    """TLC model-checking run: enumerate trees x scripts, check the meta-properties, export the cases."""
    invs = ['DTDRestores', 'WhileCount', 'DoWhileCount', 'SeqConcat', 'IfOneBranch', 'ParPicksABranch', 'FEShape',
            'LogProjection', 'L2OnlyMappings', 'ShallowOnlyCell', 'Sanity', 'Export']

    def cfg(name, depth, rich, with_invs=True):
        path = os.path.join(ctx.scratch, name)
        with open(path, 'w') as f:
            f.write('SPECIFICATION Spec\nCONSTANTS\n  MaxDepth = %d\n  Rich = %s\n%sCHECK_DEADLOCK FALSE\n' % (
                depth, 'TRUE' if rich else 'FALSE', ('INVARIANTS\n' + ''.join('  %s\n' % i for i in invs)) if with_invs else ''))
        return path
    # (a) -coverage of the generator on the depth-1 instance, without the invariants (TLC's cost statistics make every
    #     evaluation of the recursive interpreter ~100x slower and exhaust the heap on the full instance); an action that is
    #     never taken makes the run vacuous
    rc = common.tlc(MC, cfg('ControlFlowMC_cov.cfg', 1, not ctx.quick, False), coverage=True, scratch=ctx.scratch, timeout=1500)
    if not rc.ok:
        raise MachineryError('ControlFlowMC.tla (depth 1, -coverage): %s' % (rc.error or rc.out[-1500:]))
    acts = {}
    for k, v in rc.coverage.items():
        acts[k.split('@')[0]] = acts.get(k.split('@')[0], 0) + v
    vac = [a for a in ('Grow', 'WrapPar', 'WrapFE', 'Choose') if not any(k.startswith(a) and v > 0 for k, v in acts.items())]
    if vac:
        raise MachineryError('ControlFlowMC.tla: action(s) never taken: %s (coverage %s)' % (vac, acts))
    # (b) the full enumeration: every tree of depth <= 2 x every script assignment
    r = common.tlc(MC, cfg('ControlFlowMC.cfg', 2, not ctx.quick), scratch=ctx.scratch, timeout=3000)
    if not r.ok:
        raise MachineryError('ControlFlowMC.tla: TLC failed or a meta-property of the interpreter is false: %s' % (r.error or r.out[-1500:]))
    r.distinct += rc.distinct
    r.states += rc.states
    cases = []
    seen = set()
    for m in re.finditer(r'<<"CASE", "((?:[^"\\]|\\.)*)">>', r.out):
        js = m.group(1).replace('\\"', '"').replace('\\\\', '\\')
        if js in seen:
            continue
        seen.add(js)
        cases.append(json.loads(js))
    if not cases:
        raise MachineryError('ControlFlowMC.tla exported no case')
    roots = {}
    for t in {json.dumps(c['tree'], sort_keys=True) for c in cases}:
        k = json.loads(t)['k']
        roots[k] = roots.get(k, 0) + 1
    missing = [k for k in ('body', 'seq', 'if', 'while', 'dowhile', 'dtd', 'par', 'foreach') if not roots.get(k)]
    if missing:
        raise MachineryError('ControlFlowMC.tla: no enumerated tree with root %s' % missing)
    acts = {'depth1_coverage': acts, 'depth2_trees_by_root': roots, 'depth2_cases': len(cases)}
    return r, acts, cases


# ------------------------------------------------------------------ ForEachBlockPass and block parameters
PSPEC = os.path.join(common.SPECS, 'control', 'ForEachParams.tla')
PCFG = os.path.join(common.SPECS, 'control', 'ForEachParams.cfg')


def _run_param(case):
    from harness import c11_passes as P
    try:
        rec = P.run_param_case(case, workers=case.get('workers', 1), sched_seed=case.get('sched', 0))
    except Exception as e:
        return {'machinery': '%s: %s | %s' % (type(e).__name__, str(e)[-300:], str(e.__cause__)[-300:])}
    return rec


def _params(ctx: Ctx, out: Outcome):
    """Behaviours of the L2 model of ForEachParams.tla (TLC enumerates how a block's own and stored angles come apart),
    replayed into the real ForEachBlockPass and judged by the L1 part of the same module."""
    from harness import c11_passes as P
    rng = random.Random(ctx.seed * 104729 + 5)
    info = {}
    states = trans = 0
    if ctx.replay:
        cases = [ctx.replay['replay']['case']]
    else:
        nb = 2 if ctx.quick else 3
        cfg = os.path.join(ctx.scratch, 'ForEachParamsGen.cfg')
        with open(cfg, 'w') as f:
            f.write('SPECIFICATION GenSpec\nCONSTANTS\n  MaxBlocks = %d\nINVARIANTS\n  GenTypeOK\n  GenNonVacuous\n  GenExport\nCHECK_DEADLOCK FALSE\n' % nb)
        r = common.tlc(PSPEC, cfg, scratch=ctx.scratch, timeout=1500)
        if not r.ok:
            raise MachineryError('ForEachParams.tla (GenSpec): TLC failed or an invariant of the model is false: %s' % (r.error or r.out[-1500:]))
        states, trans = r.distinct, r.states
        allc = [json.loads(m.group(1).replace('\\"', '"').replace('\\\\', '\\')) for m in re.finditer(r'<<"CASE", "((?:[^"\\]|\\.)*)">>', r.out)]
        kinds = {}
        for c in allc:
            for h in c['hist']:
                kinds[h['k']] = kinds.get(h['k'], 0) + 1
        vac = [k for k in ('own', 'shared', 'retune') if not kinds.get(k)]
        if vac or not allc:
            raise MachineryError('ForEachParams.tla: no exported behaviour with action(s) %s' % vac)
        mech = [c for c in allc if c['matters'] > 0]
        rest = [c for c in allc if c['matters'] == 0]
        n_m, n_r = (260, 40) if ctx.quick else (4000, 600)
        cases = (mech if len(mech) <= n_m else rng.sample(mech, n_m)) + (rest if len(rest) <= n_r else rng.sample(rest, n_r))
        for c in cases:
            c['workers'] = rng.randint(1, 3)
            c['sched'] = rng.randrange(1 << 20)
        info = {'spec': 'specs/control/ForEachParams.tla (GenSpec, MaxBlocks = %d)' % nb, 'states': states, 'behaviours_exported': len(allc),
                'stored_angles_differ': sum(1 for c in allc if c['stale'] > 0), 'mechanism_matters': len(mech),
                'replayed': len(cases), 'replayed_mechanism_matters': sum(1 for c in cases if c['matters'] > 0),
                'build_actions_in_exported_behaviours': kinds}
    recs = exact.pmap(_run_param, cases, procs=14 if not ctx.replay else 1, chunksize=4)
    bad = [(i, r['machinery']) for i, r in enumerate(recs) if 'machinery' in r]
    if len(bad) > max(3, len(recs) // 50):
        raise MachineryError('%d of %d ForEach-parameter cases could not be run: %s' % (len(bad), len(recs), bad[:2]))
    for i, msg in bad[:3]:
        out.notes.append('UNOBSERVABLE foreach-params case=%d: %s' % (i, msg[:200]))
    idx = [i for i, r in enumerate(recs) if 'machinery' not in r]
    # model vs code: the (stored, own) angle pattern the pass really saw against the model's blocks
    ndrift = 0
    for i in idx:
        want = [[P.ANGLE_SETS[b['sto']], P.ANGLE_SETS[b['op']]] for b in cases[i].get('blocks', [])]
        if cases[i].get('blocks') and want != recs[i]['pairs']:
            ndrift += 1
            if ndrift <= 2:
                out.notes.append('DRIFT property=C11 ForEachParams.tla: after %s the model expects (stored, own) angles %s, the pass saw %s'
                                 % (json.dumps(cases[i]['hist']), want, recs[i]['pairs']))
    keys = ('r', 'circ0', 'cf', 'rf', 'body', 'calc', 'recv', 'out', 'err')
    vrecs = [{k: recs[i][k] for k in keys} for i in idx]
    cor = []
    if not ctx.replay and vrecs:
        j = next((j for j, v in enumerate(vrecs) if v['rf'] == 0 and v['body'] == 2 and v['recv']), None)
        if j is not None:
            o = json.loads(json.dumps(vrecs[j]))
            o['recv'][0] = o['recv'][0] + [exact.op_record('T', [], [0])]
            vrecs.append(o)
            cor.append('foreach-body-input-differs')
            o = json.loads(json.dumps(vrecs[j]))
            o['out'] = o['circ0']
            o['err'] = [0, 4096]
            o['calc'] = False
            vrecs.append(o)
            cor.append('foreach-writeback-result')
    verdicts, s2, t2, _ = exact.par_validate(PSPEC, PCFG, vrecs, ctx.scratch, groups=4 if len(vrecs) > 100 else 1, chunk=1500)
    nreal = len(vrecs) - len(cor)
    got = {ci: [clause] + list(extra) for ci, _s, clause, extra in verdicts}
    for n, expect in enumerate(cor):
        if expect not in got.get(nreal + n, []):
            raise MachineryError('corrupted ForEach-parameter observation (%s) was not rejected: got %s' % (expect, got.get(nreal + n)))
    groups = {}
    for ci in sorted(got):
        if ci >= nreal:
            continue
        c = cases[idx[ci]]
        for clause in got[ci]:
            g = (clause, c['body'], c['cf'], c['rf'], bool(c['calc']))
            groups.setdefault(g, []).append(ci)
    for (clause, body, cf, rf, calc), cis in sorted(groups.items()):
        c = cases[idx[cis[0]]]
        rec = recs[idx[cis[0]]]
        detail = ('%s: ForEachBlockPass(body %d, collection filter %d, replace filter %d, calculate_error_bound=%s) on blocks built by %s: '
                  '(stored, own) angles of the blocks %s, the bodies received %s, reported error %s (%d case(s) of this kind; all failing '
                  'clauses of this case: %s)' % (clause, body, cf, rf, calc, json.dumps(c['hist']), rec['pairs'],
                                                [[(o['g'], o['p']) for o in rv] for rv in rec['recv']], rec['err'], len(cis), got[cis[0]]))
        out.violations.append(Violation('C11', clause, {'clause': clause, 'kinds': 'foreach-params', 'body': body, 'cf': cf, 'rf': rf,
                                                        'calc': calc}, detail, {'case': c}))
    info.update({'validated': nreal, 'model_vs_code_pattern_mismatches': ndrift, 'corrupted_observations_rejected': len(cor),
                 'cases_with_verdict': len([ci for ci in got if ci < nreal])})
    return info, states + s2, trans + t2, nreal


def build_cases(ctx: Ctx, mc_cases):
    rng = random.Random(ctx.seed * 7919 + 11)
    quick = ctx.quick
    cases = []
    direct, rt = [], []
    for c in mc_cases:
        k = G.kinds_of(c['tree'])
        (rt if k & {'par', 'foreach'} else direct).append(c)
    n_rt = 120 if quick else 1500
    n_dir = 9000 if quick else len(direct)
    rt_pick = rt if len(rt) <= n_rt else rng.sample(rt, n_rt)
    # all ParallelDo / ForEach roots of depth <= 1 are always run (the smallest witnesses)
    small = [c for c in rt if all(x['k'] in ('body', 'noop') for x in c['tree']['c'])]
    # behaviours in which the mechanism "DoThenDecide's snapshot shares objects with the live data" makes a difference
    # (flag l2s computed by TLC: the shallow-snapshot variant of the interpreter ends in other data than the property)
    mech = [c for c in rt if c.get('l2s')]
    mech = mech if len(mech) <= (40 if quick else 600) else rng.sample(mech, 40 if quick else 600)
    rt_pick = small + [c for c in mech if c not in small] + [c for c in rt_pick if c not in small and c not in mech]
    dir_pick = direct if len(direct) <= n_dir else rng.sample(direct, n_dir)
    for c in dir_pick + rt_pick:
        cases.append({'n': 3, 'ops': G.MC_OPS, 'e0': 1, 'tree': c['tree'], 'script': c['script'], 'calc': False,
                      'workers': rng.randint(1, 4), 'sched': rng.randrange(1 << 20), 'src': 'tlc-enumerated',
                      'l2d': bool(c.get('l2d')), 'l2s': bool(c.get('l2s'))})
    counts = {'tlc_shallow_snapshot_differs_total': sum(1 for c in mc_cases if c.get('l2s')),
              'tlc_shallow_snapshot_differs_run': sum(1 for c in cases if c.get('l2s')),
              'tlc_direct_total': len(direct), 'tlc_runtime_total': len(rt), 'tlc_direct_run': len(dir_pick), 'tlc_runtime_run': len(rt_pick)}
    for i in range(1000 if quick else 8000):
        cases.append(G.direct_case(rng, i))
    for i in range(180 if quick else 1500):
        cases.append(G.fe_case(rng, i))
    for i in range(50 if quick else 500):
        cases.append(G.par_case(rng, i))
    for i in range(40 if quick else 500):
        cases.append(G.mixed_case(rng, i))
    return cases, counts


def corrupt(rec):
    """Corrupted observations that must be rejected (shows that the validation is not vacuous)."""
    out = []
    o = json.loads(json.dumps(rec))
    if len(o['obs']['log']) >= 1:
        o['obs']['log'] = o['obs']['log'][:-1]
        out.append(('body-execution-order|foreach-body-count', o))
    o = json.loads(json.dumps(rec))
    o['obs']['data']['fm'] = list(reversed(o['obs']['data']['fm']))
    o['obs']['data']['im'] = o['obs']['data']['im'][1:] + o['obs']['data']['im'][:1]
    out.append(('mappings-not-restored', o))
    o = json.loads(json.dumps(rec))
    if len(o['obs']['circ']) >= 2:
        o['obs']['circ'] = o['obs']['circ'][1:]
        out.append(('circuit-not-restored-or-lost|foreach-untouched-op-changed|foreach-writeback-position', o))
    o = json.loads(json.dumps(rec))
    o['obs']['data']['err'] = [o['obs']['data']['err'][0] + 1, o['obs']['data']['err'][1]]
    out.append(('foreach-error-formula|passdata-not-restored-or-lost', o))
    return out


def key_of(rec, clause, extra):
    kinds = '+'.join(sorted(G.kinds_of(rec['tree'])))
    k = {'clause': clause, 'kinds': kinds}
    if clause == 'mappings-not-restored':
        k['pass'] = extra or 'unexplained'
    if clause == 'passdata-not-restored-or-lost' and extra:
        k['pass'] = extra
    return k


def small(rec):
    return {k: rec[k] for k in ('n', 'e0', 'tree', 'script', 'calc') if k in rec}


def run(ctx: Ctx) -> Outcome:
    common.use_repo()
    from harness.simcompile import quiet
    quiet()
    from harness import c11_passes as P
    P.make_classes()
    out = Outcome('C11')
    states = trans = 0
    t_mc = t_run = t_val = 0.0
    acts = {}
    counts = {}
    pinfo, pn = {}, 0
    if not ctx.replay or 'hist' in ctx.replay['replay']['case']:
        t0 = time.time()
        pinfo, ps, pt, pn = _params(ctx, out)
        pinfo['wall'] = round(time.time() - t0, 1)
        states += ps
        trans += pt
        if ctx.replay:
            out.coverage = {'states': states, 'transitions': trans, 'traces_validated_against_impl': pn, 'foreach_block_parameters': pinfo}
            return out
    if ctx.replay:
        cases = [ctx.replay['replay']['case']]
    else:
        t0 = time.time()
        r, acts, mc_cases = _mc(ctx, out)
        t_mc = time.time() - t0
        states += r.distinct
        trans += r.states
        cases, counts = build_cases(ctx, mc_cases)
        counts['tlc_l2_differs_from_l1'] = sum(1 for c in mc_cases if c.get('l2d'))
    t0 = time.time()
    recs = exact.pmap(_run, cases, procs=14 if not ctx.replay else 1, chunksize=8)
    t_run = time.time() - t0
    bad = [(i, r['machinery']) for i, r in enumerate(recs) if 'machinery' in r]
    if len(bad) > max(3, len(recs) // 50):
        raise MachineryError('%d of %d cases could not be run: %s' % (len(bad), len(recs), bad[:3]))
    for i, msg in bad[:5]:
        out.notes.append('UNOBSERVABLE case=%d src=%s: %s' % (i, cases[i].get('src'), msg[:200]))
    idx = [i for i, r in enumerate(recs) if 'machinery' not in r]
    vrecs = [{k: recs[i][k] for k in ('n', 'circ0', 'e0', 'tree', 'script', 'calc', 'berr', 'obs')} for i in idx]
    # corrupted copies of a few accepted-looking observations
    ncor = 0
    cor = []
    if not ctx.replay:
        rngc = random.Random(ctx.seed)
        pick = [j for j, v in enumerate(vrecs) if not v['obs']['raised'] and len(v['obs']['log']) >= 2 and not v['calc']]
        for j in rngc.sample(pick, min(6, len(pick))):
            for expect, o in corrupt(vrecs[j]):
                cor.append((expect, j))
                vrecs.append(o)
        ncor = len(cor)
    t0 = time.time()
    verdicts, s2, t2, _ = exact.par_validate(SPEC, CFG, vrecs, ctx.scratch, groups=8 if len(vrecs) > 400 else 1, chunk=1500)
    t_val = time.time() - t0
    states += s2
    trans += t2
    nreal = len(vrecs) - ncor
    by_case = {}
    for ci, _step, clause, extra in verdicts:
        by_case[ci] = (clause, extra[0] if extra else '')
    # corrupted observations must be rejected, with a fitting clause
    for n, (expect, j) in enumerate(cor):
        got = by_case.get(nreal + n)
        if got is None or (got[0] not in expect.split('|') and by_case.get(j) is None):
            raise MachineryError('corrupted observation (%s) of case %d was not rejected as expected: got %s' % (expect, j, got))
    clause_counts = {}
    drift = []
    for ci in sorted(by_case):
        if ci >= nreal:
            continue
        clause, extra = by_case[ci]
        clause_counts[clause] = clause_counts.get(clause, 0) + 1
        rec = recs[idx[ci]]
        case = cases[idx[ci]]
        if clause.startswith('unsupported'):
            raise MachineryError('generator produced an unsupported tree: %s' % json.dumps(case['tree']))
        detail = '%s%s on tree %s script %s (src %s, workers %s, sched %s)%s' % (
            clause, (' [' + extra + ']') if extra else '', json.dumps(rec['tree']), json.dumps(rec['script']), case.get('src'),
            case.get('workers'), case.get('sched'), (' error: ' + rec.get('err_text', '')) if rec['obs']['raised'] else '')
        if clause == 'mappings-not-restored':
            detail += ' observed im=%s fm=%s' % (rec['obs']['data']['im'], rec['obs']['data']['fm'])
        if clause == 'passdata-not-restored-or-lost':
            detail += ' observed cell=%s gs=%s' % (rec['obs']['data'].get('cell'), rec['obs']['data'].get('gs'))
        out.violations.append(Violation('C11', clause, key_of(rec, clause, extra), detail, {'case': case}))
        if extra and extra != 'unexplained' and len(drift) < 5:
            drift.append('DRIFT property=C11 the implementation behaves like the L2 variant "%s" of the interpreter, not like the property '
                         '(first seen on tree %s)' % (extra, json.dumps(rec['tree'])[:300]))
    out.notes.extend(sorted(set(d.split(' (first seen')[0] for d in drift)))
    # ------------------------------------------------------------------ evidence
    srcs = {}
    for i in idx:
        s = cases[i].get('src', 'replay').split(':')[0]
        srcs[s] = srcs.get(s, 0) + 1
    nontrivial = {common.digest(small(recs[i])) for i in idx if len(recs[i]['obs']['log']) >= 1 and G.kinds_of(recs[i]['tree'])}
    kinds_cov = {}
    for i in idx:
        for k in G.kinds_of(recs[i]['tree']):
            kinds_cov[k] = kinds_cov.get(k, 0) + 1
    nrt = sum(1 for i in idx if P.needs_runtime(recs[i]['tree']))
    out.coverage = {
        'states': states, 'transitions': trans,
        'traces_validated_against_impl': nreal + pn,
        'evaluations': nreal + pn, 'distinct_nontrivial': len(nontrivial),
        'rule': 'one case = one pass tree + scripts run on the real passes; non-trivial = at least one control pass and at least one '
                'body execution; distinct by hash of (input, tree, scripts)',
        'exhaustive': False,
        'exhaustive_part': 'TLC enumerates every pass tree of depth <= 2 over the alphabet (2 body kinds x 3 scripts quick / 3 body kinds x 4 scripts thorough, all seven '
                           'control passes) x every script assignment; all of those that need no runtime are run (quick: a seeded '
                           'sample of %d), the ParallelDo/ForEach ones are sampled' % n_dir_quick,
        'model_checking': {'spec': 'specs/control/ControlFlowMC.tla', 'actions': acts, **counts},
        'foreach_block_parameters': pinfo,
        'by_source': srcs, 'by_control_pass': kinds_cov, 'through_simulated_runtime': nrt,
        'corrupted_observations_rejected': ncor,
        'verdicts_by_clause': clause_counts,
        'wall': {'tlc_model_checking': round(t_mc, 1), 'real_runs': round(t_run, 1), 'tlc_validation': round(t_val, 1)},
        'samples': [dict(small(recs[i]), obs_log=recs[i]['obs']['log'][:6]) for i in (idx[:1] + idx[len(idx) // 2:len(idx) // 2 + 1] + idx[-1:])],
        'checker_cmd': 'tlc -coverage 1 specs/control/ControlFlowMC.tla ; tlc -config specs/control/ControlFlow.cfg '
                       'specs/control/ControlFlow.tla (batch, TRACE_FILE=cases.json)',
        'trusted_base': ['TLC', 'harness/c11_passes.py (instrumented bodies/predicates, projection of Circuit and PassData)',
                         'harness/sim.py + simcompile.py (deterministic kernel running the real runtime classes)'],
    }
    out.assumptions = [
        'bodies only append full-width ops / retag / clear, so the abstract circuit order equals the iteration order of the real circuit; '
        'final circuits are still compared per qudit',
        'calculate_error_bound: per-block errors are inputs (observed), the numeric bound itself is not decided',
        'no ParallelDo/ForEach nested inside another ParallelDo branch or ForEach body; ParallelDo(pick_first=True) not covered',
    ]
    return out
