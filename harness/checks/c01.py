"""C01 -- compile() preserves circuit semantics under the reported qudit mappings (specs/compile/CompileSem.tla).

Decided on the exact domain: input circuits over the monomial library of specs/exact/Monomial.tla (including CCX,
barriers, measurement placeholders, pre-blocked CircuitGates) are compiled by the real ``bqskit.compile`` running on the
real runtime (harness/simcompile.py: AttachedServer + Workers + Compiler under a deterministic scheduler; the number of
workers and the message schedule are inputs of the case).  The output's action on every embedded logical basis state is
observed numerically, discretised, and compared by TLC with what the TLA+ semantics says the input does."""
from __future__ import annotations

import os
import random

from harness import common, exact
from harness import compile_common as cc
from harness.common import Ctx, MachineryError, Outcome, Violation

SPEC = os.path.join(common.SPECS, 'compile', 'CompileSem.tla')
CFG = os.path.join(common.SPECS, 'compile', 'CompileSem.cfg')

MANIFEST_ENTRY = dict(
    engine='compile',
    technique='TLA+ semantics of the input circuit (specs/exact/Monomial.tla) and of "same map under the reported mappings" '
              '(specs/compile/CompileSem.tla) evaluated by TLC over observations of real compile() runs through the real runtime',
    text='Seeded random and directed monomial input circuits (X/Y/Z/S/T/CX/CY/CZ/CS/CT/SWAP/iSWAP/CCX, monomial points of '
         'RZ/U1/RX/RY/U3/CP/CRZ/RZZ/CRX/CRY, barriers, measurement placeholders, pre-blocked CircuitGates, qutrit Shift/Clock/'
         'CSUM) of width 1-4 (to 6 thorough) are compiled for line / ring / star / grid / tree / random connected machine models, '
         'some wider than the circuit, with CNOT+U3, CZ+RZ+SX and iSWAP+U3 gate sets, at optimization level 1-2 (3-4 thorough), '
         'with 1 / 2 / 4 runtime workers under varied message schedules.  For every logical basis state, embedded at the '
         'returned initial mapping with all other physical qudits |0>, the output circuit (own contraction of the operations\' '
         'matrices) must produce the basis state and phase class that Monomial.Sem gives for the input, read back from the '
         'returned final mapping, with all other qudits back in |0>, up to one global phase and within a tolerance derived '
         'from synthesis_epsilon; mappings must be injective and in range; measurement placeholders must sit on '
         'final_mapping[measured qudit] with the same classical bits.',
    note='Not decided: inputs whose unitary is not monomial (the numeric distance clause for generic rotations), mid-circuit '
         'measurements (the statement speaks of the end of the output; inputs measure last), mixed-radix registers (compile() '
         'rejects them).  Trusted: TLC, harness/exact.py (own_unitary contraction, argmax / phase-class discretiser), '
         'harness/compile_common.py (input builders, embedding of basis states, tolerance = f(synthesis_epsilon) <= 0.05 while '
         'two different members of the domain are >= 0.13 apart), harness/sim.py + simcompile.py (the deterministic kernel the '
         'real runtime classes run on).  A case that does not finish within its CPU-time bound is reported as a note, not a verdict.  '
         'Every run ends with an oracle self-test: corrupted copies of accepted observations (column moved, relative phase changed, '
         'outside the budget, mapping out of range / repeated, measurement moved / re-wired / dropped, status raised) must each be '
         'rejected by CompileSem.tla with its clause.',
    ref='DESIGN.md section 4 / C01',
)


def directed_cases():
    R = exact.op_record
    line3 = {'n': 3, 'edges': cc.topo_edges('line', 3), 'gates': cc.GATESETS['cz_rz_sx'], 'radix': 2, 'topo': 'line', 'gs': 'cz_rz_sx'}
    line4 = {'n': 4, 'edges': cc.topo_edges('line', 4), 'gates': cc.GATESETS['cx_u3'], 'radix': 2, 'topo': 'line', 'gs': 'cx_u3'}
    star4 = {'n': 4, 'edges': cc.topo_edges('star', 4), 'gates': cc.GATESETS['iswap_u3'], 'radix': 2, 'topo': 'star', 'gs': 'iswap_u3'}
    q3 = {'n': 2, 'edges': [[0, 1]], 'gates': cc.GATESETS['csum_vu1'], 'radix': 3, 'topo': 'line', 'gs': 'csum_vu1'}
    tri = [R('CX', [], [0, 1]), R('T', [], [1]), R('CX', [], [1, 2]), R('S', [], [2]), R('CX', [], [0, 2]), R('X', [], [0])]
    return [
        # a triangle of CNOTs on a line: routing must insert swaps; measured at the end
        {'kind': 'circuit', 'radix': 2, 'n': 3, 'ops': tri + [R('MEASURE', [2, 0, 1], [0, 1, 2])], 'model': line3, 'level': 1},
        {'kind': 'circuit', 'radix': 2, 'n': 3, 'ops': tri + [R('MEASURE', [5], [2])], 'model': line4, 'level': 1},
        # a 3-qudit gate on a star whose centre is not where the identity placement puts it
        {'kind': 'circuit', 'radix': 2, 'n': 3, 'ops': [R('CCX', [], [2, 0, 1]), R('T', [], [1]), R('MEASURE', [0, 1], [0, 2])], 'model': star4, 'level': 1},
        {'kind': 'circuit', 'radix': 2, 'n': 4, 'ops': [R('CX', [], [0, 3]), R('BARRIER', [], [0, 1, 2, 3]), R('CX', [], [1, 3]), R('CZ', [], [2, 0]),
                                                        R('SWAP', [], [1, 2]), R('MEASURE', [3, 1], [0, 3])], 'model': line4, 'level': 1},
        {'kind': 'circuit', 'radix': 2, 'n': 1, 'ops': [R('X', [], [0]), R('T', [], [0]), R('MEASURE', [4], [0])], 'model': line3, 'level': 1},
        # qutrits
        {'kind': 'circuit', 'radix': 3, 'n': 2, 'ops': [R('Shift', [], [0]), R('CSUM', [], [0, 1]), R('Clock', [], [1])], 'model': q3, 'level': 1},
        {'kind': 'circuit', 'radix': 3, 'n': 1, 'ops': [R('Shift', [], [0])], 'model': None, 'level': 1},
        {'kind': 'circuit', 'radix': 3, 'n': 2, 'ops': [R('CSUM', [], [1, 0])], 'model': q3, 'level': 1},
    ]


def build_cases(ctx: Ctx):
    rng = random.Random(ctx.seed * 7919 + 101)
    cases = directed_cases()
    n_random = 22 if ctx.quick else 140       # (a level-1 compile of a 3-4 qubit circuit costs 5-15 CPU seconds)
    for i in range(n_random):
        if ctx.quick:
            n = rng.choice([1, 2, 2, 3, 3, 3, 3, 4])
            level = rng.choice([1, 1, 1, 2])
        else:
            n = rng.choice([1, 2, 3, 3, 4, 4, 5, 5, 6])
            level = rng.choice([1, 1, 2, 2, 3, 4]) if n <= 4 else rng.choice([1, 1, 2])
        nops = rng.randint(2, 4 + n) if n <= 4 else rng.randint(4, 10)
        ops = cc.random_ops(rng, n, 2, nops, wide=True)
        model = cc.model_spec(rng, n) if rng.random() < 0.9 else None
        cases.append({'kind': 'circuit', 'radix': 2, 'n': n, 'ops': ops, 'model': model, 'level': level})
    for i, c in enumerate(cases):
        c['id'] = i
        c['workers'] = [1, 2, 4][i % 3]
        c['sched'] = rng.randrange(1 << 20)
        c['cseed'] = rng.randrange(1 << 16)
        c['trace'] = False
        c['timeout'] = 150 if c['level'] <= 2 else 400        # CPU seconds (see run_cases)
    return cases


def key_of(case, res, clause):
    m = case.get('model') or {}
    k = {'clause': clause, 'kind': case['kind'], 'radix': case['radix'], 'level': case['level'], 'gateset': m.get('gs', 'default'),
         'wider': bool(m) and m['n'] > case['n']}
    if clause == 'compile-raised':
        k.update(exc=res.get('exc', ''), where=res.get('where', ''), msg=cc.exc_msg(res.get('excline', '')))
    return k


def run(ctx: Ctx) -> Outcome:
    common.use_repo()
    out = Outcome('C01')
    if ctx.replay:
        cases = [ctx.replay['replay']['case']]
    else:
        cases = build_cases(ctx)
    results = cc.run_compile_cases(cases, procs=14)
    sem, keep = [], []
    timeouts = herr = 0
    for c, r in zip(cases, results):
        if r['status'] == 'timeout':
            timeouts += 1
            out.notes.append('NOTE property=C01 case %s (n=%d level=%d) did not finish within %d CPU seconds: undecided' % (c.get('id'), c['n'], c['level'], c['timeout']))
            continue
        if r['status'] == 'harness-error':
            herr += 1
            out.notes.append('HARNESS-NOTE case %s: %s' % (c.get('id'), r['exc'][-300:]))
            continue
        sem.append(cc.sem_case(c, r))
        keep.append((c, r))
    if herr > max(1, len(cases) // 10):
        raise MachineryError('%d of %d cases failed inside the harness: %s' % (herr, len(cases), [r.get('tb') for r in results if r['status'] == 'harness-error'][:1]))
    if not sem:
        raise MachineryError('no case produced an observation')
    verdicts, states, trans, selftest = cc.validate_with_selftest(SPEC, CFG, sem, ctx.scratch, 3, 'C01')
    for idx, _step, clause, _extra in verdicts:
        c, r = keep[idx]
        detail = ('compile() of a %d-qudit radix-%d circuit at optimization_level=%d for model %s with %d workers: clause %s\ninput ops: %s\nresult: %s'
                  % (c['n'], c['radix'], c['level'], {k: v for k, v in (c.get('model') or {}).items() if k != 'gs'} or 'default', c.get('workers', 2), clause,
                     [(o['g'], o['p'], o['loc']) if o['g'] != 'BLOCK' else ('BLOCK', o['loc'], [(x['g'], x['loc']) for x in o['ops']]) for o in c['ops']],
                     cc.short_result(r)))
        out.violations.append(Violation('C01', clause, key_of(c, r, clause), detail, {'case': c}))
    feats = {'wide': 0, 'barrier': 0, 'measure': 0, 'block': 0}
    nontrivial = set()
    by = {'level': {}, 'width': {}, 'gateset': {}, 'topo': {}, 'workers': {}, 'wider': 0, 'nonidentity_final_mapping': 0, 'raised': 0, 'rejected': 0}
    # how often each clause of CompileSem.tla had something to decide (bookkeeping over the inputs, not a verdict)
    decided = {'compile-raised': len(keep), 'mapping-out-of-range': 0, 'mapping-not-injective': 0, 'semantics-differ': 0, 'measurement-misplaced': 0}
    for c, r in keep:
        f = cc.input_features(c)
        for k in feats:
            feats[k] += bool(f[k])
        m = c.get('model') or {}
        for k, v in (('level', c['level']), ('width', c['n']), ('gateset', m.get('gs', 'default')), ('topo', m.get('topo', 'all')), ('workers', c.get('workers', 2))):
            by[k][str(v)] = by[k].get(str(v), 0) + 1
        by['wider'] += bool(m) and m['n'] > c['n']
        if r['status'] == 'ok':
            o = r['results'][0]
            by['nonidentity_final_mapping'] += o['pf'] != list(range(c['n']))
            decided['mapping-out-of-range'] += 1
            decided['mapping-not-injective'] += c['n'] >= 2
            decided['semantics-differ'] += 1
            decided['measurement-misplaced'] += bool(f['measure'])
            if any(len(x['loc']) >= 2 for x in c['ops']) or f['measure']:
                nontrivial.add(common.digest([c['ops'], c.get('model'), c['level']]))
        else:
            by['raised' if r['status'] == 'raised' else 'rejected'] += 1
    out.coverage = {
        'states': states, 'transitions': trans,
        'traces_validated_against_impl': len(sem), 'evaluations': len(cases), 'distinct_nontrivial': len(nontrivial),
        'rule': 'one case = one compile() call on the real runtime (input circuit, model, level, workers, schedule seed) with its '
                'observed action on every embedded basis state; directed cases + seeded random; non-trivial = compile returned and the '
                'input has a multi-qudit operation or a measurement; distinct by hash of (input ops, model, level)',
        'by': by, 'input_features': feats, 'timeouts': timeouts, 'harness_errors': herr, 'clause_decisions': decided, 'oracle_selftest': selftest,
        'compile_cpu_s': round(sum(r.get('cpu', 0) for _, r in keep), 1),
        'basis_states_compared': sum(len(o['bs']) for _, r in keep if r['status'] == 'ok' for o in r['results']),
        'compile_wall_s': round(sum(r.get('wall', 0) for _, r in keep), 1),
        'samples': [{'case': {k: v for k, v in c.items()}, 'result': cc.short_result(r)} for c, r in keep[:1] + keep[len(keep) // 2:len(keep) // 2 + 1]],
        'exhaustive': False,
        'checker_cmd': 'tlc -config specs/compile/CompileSem.cfg specs/compile/CompileSem.tla (batch, TRACE_FILE=cases.json)',
        'trusted_base': ['TLC', 'harness/exact.py own_unitary + discretiser', 'harness/compile_common.py (builders, embedding, tolerance)',
                         'harness/sim.py + harness/simcompile.py (deterministic kernel under the real runtime)'],
    }
    out.assumptions = ['inputs are monomial circuits (exact domain); measurements are the last operation on their qudits',
                       'tolerance per column = f(synthesis_epsilon=1e-8, number of blocks) <= 0.05; domain members are >= 0.13 apart',
                       'uniform radix (compile() rejects mixed-radix inputs)']
    return out
