"""C08 — partitioning regroups operations without changing the program.

Oracle: specs/partition/PartitionRules.tla (L1 acceptance condition), used by
  * specs/partition/PartitionAbs.tla  — batch trace validation of real partitioner outputs,
  * specs/partition/QuickPart.tla     — L2 model of QuickPartitioner, model-checked exhaustively with the
                                         L1 condition as postcondition; its enumerated circuits are replayed
                                         into the real QuickPartitioner (block structure compared: DRIFT).
Python here only builds inputs, drives the real passes, serialises what it sees, runs TLC and maps VERDICT lines.
"""
from __future__ import annotations

import json
import multiprocessing
import os
import random
import re
import time
import warnings

from harness import common
from harness.common import Ctx, MachineryError, Outcome, Violation

DIR = os.path.join(common.SPECS, 'partition')
ABS = os.path.join(DIR, 'PartitionAbs.tla')
ABS_CFG = os.path.join(DIR, 'PartitionAbs.cfg')
QP = os.path.join(DIR, 'QuickPart.tla')

PARTITIONERS = ['quick', 'scan', 'cluster', 'greedy', 'single', 'gtqcp', 'tdag']

MANIFEST_ENTRY = dict(
    engine='partition',
    technique='TLA+ L1 acceptance condition (specs/partition/PartitionRules.tla) checked by TLC on recorded outputs of the real '
              'partitioning passes (PartitionAbs.tla, batch trace validation) and as the postcondition of an exhaustively '
              'model-checked L2 model of QuickPartitioner (QuickPart.tla); model-based test generation: TLC enumerates and searches for '
              'the circuits in which a given mechanism of the algorithm decides (history variable `mech`), those circuits are replayed '
              'into the real pass under every iteration order it can be made to take',
    text='QuickPart.tla (bins, active/pending lists, blocked qudits, dividing line, barrier bins, merge step, the nondeterministic '
         'set-iteration order of overlapping bins) is model-checked by TLC for every circuit of up to 4 operations on 3 qudits and 3 on 4 '
         'qudits (thorough: 5 and 4), gates of arity 1-3 plus barriers on every qudit set, block sizes 2-3, and for every 7-operation '
         '(thorough 8) continuation of a scenario that reaches the mid-scan flush; postcondition: no pending bin is left and the output '
         'satisfies the L1 condition (every operation once, same order on every qudit, barriers bare and not crossed, width <= '
         'max(block size, widest gate inside), locations and parameters unchanged). The model carries a history variable with the '
         'mechanisms that made a difference in the run (13 of them; three are defined by shadow copies of Bin.blocked_qudits that follow '
         'the rule the code would follow without the transitive update / without relating bins through blocked qudits / without the '
         'barrier branch blocking foreign qudits, and are marked exactly when can_accommodate answers differently with the shadow set). '
         'Directed exhaustive searches (a state constraint that drops every prefix from which the mechanism cannot be reached any more) '
         'find all circuits of 5 operations on 6 qudits (block size 3, gates of arity 2-3) in which the transitive part of the blocked '
         'set decides, and all of 4 operations on 5 qudits in which the relation through blocked qudits decides (thorough: wider, '
         'longer, arity 1-3, block sizes 2-4); together with the circuits of the exhaustive runs that show a rare mechanism, and wider '
         'circuits (up to 10 qudits) that contain them, they are given back to the model as scripts (every iteration order, L1 '
         'postcondition) and run on the real QuickPartitioner under 8 values of the process-wide Bin.id counter, which decides the '
         'iteration order there; block structure is compared with the model (DRIFT) and every output is judged by L1. Every partitioner '
         '(Quick, Scan, Clustering, Greedy, GroupSingleQuditGate, GTQCP, TDAG), driven directly as a coroutine, is run on the '
         'TLC-enumerated circuits, on the generated ones and on seeded random circuits (width 2-12, up to 80 operations in quick; width '
         '2-20, up to 700 operations in thorough; 1/2/3-qudit gates with unique tags and parameters, barriers, measurements, resets, '
         'already-blocked inputs, block sizes 2-6); every output, and its unfold_all(), is judged by TLC against PartitionRules.',
    note='Known findings (open, known_findings.d/C08.json): QuickPartitioner raises "Unable to process all pending bins" on circuits with '
         'two barriers (found by TLC on the L2 model, reproduced; the repaired model BarrierFix=TRUE is model-checked in the thorough tier); '
         'GreedyPartitioner duplicates/reorders operations, absorbs barriers, and raises "Unable to topologically sort regions" on a chain '
         'of three mutually dependent regions (found with the circuits generated for QuickPartitioner\'s transitive rule); '
         'Scan/Clustering/GTQCP/TDAG absorb barrier-like operations into blocks. Inputs with an operation wider than the block size are '
         'outside the domain of Scan/Clustering/GTQCP/TDAG (they refuse them). Barriers and resets cannot carry a tag: their identity is '
         '(kind, location, occurrence). The mechanisms "merge-super" (a placed block swallows a later one) and the preference for an '
         'admissible bin that already holds every qudit never make a difference in any explored run. Trusted: TLC, the observation code in '
         'harness/checks/c08.py. QuickPart-vs-code disagreements are reported as DRIFT, never as violations.',
    ref='DESIGN.md section 4 / C08',
)


# ----------------------------------------------------------------------------- inputs

def _micro(x):
    return int(round(float(x) * 1e6))


def _gate_for(kind_idx, arity):
    from bqskit.ir.gates import (CCPGate, CCXGate, CNOTGate, CZGate, RZZGate, U1Gate, U3Gate)
    table = {1: [U1Gate(), U3Gate()], 2: [CNOTGate(), RZZGate(), CZGate()], 3: [CCXGate(), CCPGate()]}
    opts = table[arity]
    return opts[kind_idx % len(opts)]


def _params_for(gate, ident, salt=0):
    # unique, small, exactly representable after rounding to micro-units
    return [((ident * 37 + j * 101 + salt * 13) % 3000 + 1) / 1000.0 for j in range(gate.num_params)]


def build(recipe):
    """recipe -> (Circuit, meta).  recipe = {'nq', 'ops': [{'k': g|b|m|r|blk, 'loc': [...], 'v': variant, 'inner': [...]}]}.
    Operation ids are 1.. in recipe order (a 'blk' — an already-blocked input operation — is one operation)."""
    from bqskit.ir.circuit import Circuit
    from bqskit.ir.gates import (BarrierPlaceholder, CircuitGate, MeasurementPlaceholder, Reset, TaggedGate)
    from bqskit.ir.operation import Operation
    n = recipe['nq']
    c = Circuit(n)
    meta = {'oploc': [], 'kind': [], 'par': [], 'sig': {}, 'bar': {}}
    for ident, o in enumerate(recipe['ops'], 1):
        k, loc = o['k'], list(o['loc'])
        if k == 'g':
            g = _gate_for(o.get('v', 0), len(loc))
            ps = _params_for(g, ident)
            c.append(Operation(TaggedGate(g, ident), loc, ps))
            meta['par'].append([_micro(p) for p in ps])
        elif k == 'b':
            c.append(Operation(BarrierPlaceholder(len(loc)), loc))
            meta['bar'].setdefault(('b', tuple(loc)), []).append(ident)
            meta['par'].append([])
        elif k == 'r':
            c.append(Operation(Reset(), loc))
            meta['bar'].setdefault(('r', tuple(loc)), []).append(ident)
            meta['par'].append([])
        elif k == 'm':
            name = 'm%d' % ident
            mp = MeasurementPlaceholder([(name, len(loc))], {q: (name, i) for i, q in enumerate(loc)})
            c.append(Operation(mp, loc))
            meta['par'].append([])
        elif k == 'blk':
            inner = Circuit(len(loc))
            tags = []
            ps_all = []
            for j, io in enumerate(o['inner'], 1):
                g = _gate_for(io.get('v', 0), len(io['loc']))
                tag = ident * 1000 + j
                ps = _params_for(g, ident, j)
                inner.append(Operation(TaggedGate(g, tag), list(io['loc']), ps))
                tags.append(tag)
                ps_all += ps
            c.append(Operation(CircuitGate(inner), loc, list(inner.params)))
            meta['sig'][tuple(sorted(tags))] = ident
            meta['par'].append([_micro(p) for p in inner.params])
        else:
            raise MachineryError('bad recipe kind %r' % k)
        meta['oploc'].append(loc)
        meta['kind'].append('g' if k == 'blk' else k)
    return c, meta


class _Ident:
    """Recover the identity of an operation found in an output circuit."""

    def __init__(self, meta):
        self.meta = meta
        self.seen = {}

    @staticmethod
    def leaf_tags(circ):
        from bqskit.ir.gates import CircuitGate, TaggedGate
        out = []
        for op in circ:
            if isinstance(op.gate, CircuitGate):
                out += _Ident.leaf_tags(op.gate._circuit)
            elif isinstance(op.gate, TaggedGate):
                out.append(op.gate.tag)
            else:
                out.append(-1)
        return out

    def atomic_block(self, op):
        """id of the input operation when `op` is one of the input's own CircuitGates, else None."""
        if not self.meta['sig']:
            return None
        return self.meta['sig'].get(tuple(sorted(self.leaf_tags(op.gate._circuit))))

    def of(self, op, loc):
        from bqskit.ir.gates import (BarrierPlaceholder, CircuitGate, MeasurementPlaceholder, Reset, TaggedGate)
        g = op.gate
        if isinstance(g, TaggedGate):
            return g.tag if isinstance(g.tag, int) else 0
        if isinstance(g, CircuitGate):
            return self.atomic_block(op) or 0
        if isinstance(g, MeasurementPlaceholder):
            names = {v[0] for v in g.measurements.values()}
            if len(names) == 1:
                nm = next(iter(names))
                if re.fullmatch(r'm\d+', nm):
                    return int(nm[1:])
            return 0
        kind = 'b' if isinstance(g, BarrierPlaceholder) else 'r' if isinstance(g, Reset) else None
        if kind is None:
            return 0
        key = (kind, tuple(loc))
        k = self.seen.get(key, 0)
        self.seen[key] = k + 1
        lst = self.meta['bar'].get(key, [])
        return lst[k] if k < len(lst) else 0


def _with_params(op):
    """The inner circuit of a CircuitGate operation as unfold() would see it."""
    inner = op.gate._circuit.copy()
    try:
        inner.set_params(op.params)
    except Exception:
        return inner, False
    return inner, True


def _flatten(circ, locmap, ident, ok=True):
    from bqskit.ir.gates import CircuitGate
    out = []
    for op in circ:
        loc = [locmap[q] for q in op.location]
        if isinstance(op.gate, CircuitGate) and ident.atomic_block(op) is None:
            inner, good = _with_params(op)
            out += _flatten(inner, loc, ident, ok and good)
        else:
            par = [_micro(p) for p in op.params] if ok else [-999]
            out.append({'id': ident.of(op, loc), 'loc': loc, 'par': par})
    return out


def _leafseq(circ, meta):
    """per-qudit [id, parameter checksum] after the implementation's own unfold_all()."""
    from bqskit.ir.gates import TaggedGate
    c2 = circ.copy()
    c2.unfold_all()
    m2 = dict(meta)
    m2['sig'] = {}
    ident = _Ident(m2)
    seqs = [[] for _ in range(c2.num_qudits)]
    for op in c2:
        loc = list(op.location)
        i = ident.of(op, loc)
        h = sum((j + 1) * _micro(p) for j, p in enumerate(op.params)) % 1000000007
        for q in loc:
            seqs[q].append([i, h])
    return seqs


def observe_output(circ, meta):
    from bqskit.ir.gates import CircuitGate
    ident = _Ident(meta)
    out = []
    for op in circ:
        loc = list(op.location)
        if isinstance(op.gate, CircuitGate) and ident.atomic_block(op) is None:
            inner, good = _with_params(op)
            out.append({'blk': True, 'loc': loc, 'ops': _flatten(inner, loc, ident, good)})
        else:
            out.append({'blk': False, 'loc': loc, 'ops': [{'id': ident.of(op, loc), 'loc': loc, 'par': [_micro(p) for p in op.params]}]})
    return out


def make_pass(pname, bs):
    from bqskit import passes as P
    if pname == 'quick':
        return P.QuickPartitioner(bs)
    if pname == 'scan':
        return P.ScanPartitioner(bs)
    if pname == 'cluster':
        return P.ClusteringPartitioner(bs, 4)
    if pname == 'greedy':
        return P.GreedyPartitioner(bs)
    if pname == 'single':
        return P.GroupSingleQuditGatePass()
    if pname == 'gtqcp':
        return P.GTQCPartitioner(bs)
    if pname == 'tdag':
        return P.TDAGPartitioner(bs)
    raise MachineryError('unknown partitioner ' + pname)


class _Limit:
    """Wall-clock limit for one run of the code under test (a pass that never returns must not hang the check)."""

    def __init__(self, seconds):
        self.seconds = seconds

    def _fire(self, *_):
        raise TimeoutError('no result after %d s' % self.seconds)

    def __enter__(self):
        import signal
        import threading
        self.on = threading.current_thread() is threading.main_thread()
        if self.on:
            self.old = signal.signal(signal.SIGALRM, self._fire)
            signal.alarm(self.seconds)
        return self

    def __exit__(self, *a):
        import signal
        if self.on:
            signal.alarm(0)
            signal.signal(signal.SIGALRM, self.old)
        return False


PASS_TIME_LIMIT = int(os.environ.get('VERIF_C08_PASS_LIMIT', '900'))


def run_pass(p, circ):
    from bqskit.compiler.passdata import PassData
    co = p.run(circ, PassData(circ))
    try:
        with _Limit(PASS_TIME_LIMIT):
            co.send(None)
    except StopIteration:
        return
    co.close()
    raise MachineryError('%s awaited the runtime; it cannot be driven as a plain coroutine' % type(p).__name__)


def pin_bin_id(value):
    """QuickPartitioner visits overlapping bins in the iteration order of a set of Bin objects hashed by Bin.id, a process-wide
    counter: the value of the counter when the pass starts is an input of the run.  Returns False when the counter cannot be set
    (the attribute is gone: the run is then simply not pinned)."""
    try:
        from bqskit.passes.partitioning import quick as qm
        if not isinstance(getattr(qm.Bin, 'id', None), int):
            return False
        qm.Bin.id = int(value)
        return True
    except Exception:       # noqa
        return False


def observe(job):
    """job = (recipe, pname, bs, npseed[, binid]) -> case dict (JSON-able) or {'skip': reason}."""
    import numpy as np
    recipe, pname, bs, npseed = job[:4]
    binid = job[4] if len(job) > 4 else None
    warnings.filterwarnings('ignore')
    circ, meta = build(recipe)
    n = recipe['nq']
    widest = max([len(o['loc']) for o in recipe['ops']] or [0])     # barrier-like operations count: the passes treat them as gates
    inseq = [[] for _ in range(n)]
    for ident, o in enumerate(recipe['ops'], 1):
        for q in o['loc']:
            inseq[q].append(ident)
    inleaf = _leafseq(circ, meta)
    np.random.seed(npseed % (2 ** 32))
    random.seed(npseed)
    p = make_pass(pname, bs)
    pinned = pin_bin_id(binid) if (pname == 'quick' and binid is not None) else False
    raised = ''
    try:
        run_pass(p, circ)
    except MachineryError:
        raise
    except TimeoutError as e:
        # the harness's own wall-clock limit (a loaded machine, a large circuit): undecided, never a verdict about the pass
        return {'skip': 'undecided: %s ran into the harness time limit (%s)' % (pname, e)}
    except Exception as e:       # noqa
        raised = '%s: %s' % (type(e).__name__, str(e)[:200])
    if raised:
        if pname in ('scan', 'cluster', 'gtqcp', 'tdag') and widest > bs:
            return {'skip': 'operation wider than block size is outside the documented domain of %s' % pname}
        out, unf = [], inleaf
    else:
        out = observe_output(circ, meta)
        unf = _leafseq(circ, meta)
    eff_bs = 1 if pname == 'single' else bs
    return {'p': pname, 'bs': eff_bs, 'nq': n, 'inseq': inseq, 'oploc': meta['oploc'], 'kind': meta['kind'], 'par': meta['par'],
            'out': out, 'unf': unf, 'inleaf': inleaf, 'raised': raised, 'recipe': recipe, 'npseed': npseed, 'cfg_bs': bs,
            'binid': binid if pinned else None}


def fit_domain(rec, bs):
    """Narrow every operation to at most bs qudits (inputs for the passes that refuse wider operations)."""
    ops = []
    for o in rec['ops']:
        if len(o['loc']) > bs:
            o = dict(o, loc=o['loc'][:bs])
            if o['k'] == 'blk':
                o['inner'] = [io for io in o['inner'] if all(q < bs for q in io['loc'])] or [{'k': 'g', 'loc': [0], 'v': 0}]
                used = {q for io in o['inner'] for q in io['loc']}
                o['inner'] += [{'k': 'g', 'loc': [q], 'v': 0} for q in range(bs) if q not in used]
        ops.append(o)
    return {'nq': rec['nq'], 'ops': ops}


def gen_random(rng, max_nq, max_ops, blocked_prob=0.15):
    n = rng.randint(2, max_nq)
    nops = rng.randint(1, max_ops)
    style = rng.choice(['mixed', 'mixed', 'nobar', 'dense2', 'wide3', 'blocked'])
    ops = []
    for _ in range(nops):
        r = rng.random()
        if style != 'nobar' and r < 0.07:
            k = rng.randint(1, min(n, 4)) if rng.random() < 0.7 else n
            ops.append({'k': 'b', 'loc': sorted(rng.sample(range(n), k)) if rng.random() < 0.8 else rng.sample(range(n), k)})
        elif style != 'nobar' and r < 0.09:
            k = rng.randint(1, min(n, 3))
            ops.append({'k': 'm', 'loc': rng.sample(range(n), k)})
        elif style != 'nobar' and r < 0.11:
            ops.append({'k': 'r', 'loc': [rng.randrange(n)]})
        elif style == 'blocked' and r < 0.11 + blocked_prob:
            k = rng.randint(1, min(n, 3))
            loc = sorted(rng.sample(range(n), k))
            inner = []
            for _j in range(rng.randint(1, 4)):
                a = rng.randint(1, k)
                inner.append({'k': 'g', 'loc': rng.sample(range(k), a), 'v': rng.randrange(6)})
            # every qudit of the block must be used, so that the block's location is its true support
            used = {q for io in inner for q in io['loc']}
            for q in range(k):
                if q not in used:
                    inner.append({'k': 'g', 'loc': [q], 'v': rng.randrange(6)})
            ops.append({'k': 'blk', 'loc': loc, 'inner': inner})
        else:
            if style == 'dense2':
                a = 2 if n >= 2 and rng.random() < 0.8 else 1
            elif style == 'wide3':
                a = rng.choice([1, 2, 3, 3]) if n >= 3 else rng.choice([1, 2])
            else:
                a = rng.choice([1, 1, 2, 2, 2, 3]) if n >= 3 else rng.choice([1, 2])
            ops.append({'k': 'g', 'loc': rng.sample(range(n), a), 'v': rng.randrange(6)})
    return {'nq': n, 'ops': ops}


# ----------------------------------------------------------------------------- the L2 model

QP_CONFIGS = {
    # name: (NQ, MaxOps quick, MaxOps thorough, BlockSizes, GateArities, BarrierMode, EmitMod quick, EmitMod thorough, Prefix)
    'q3': (3, 4, 5, '{2, 3}', '{1, 2, 3}', 'any', 30, 16, 'none'),
    'q4': (4, 3, 4, '{2, 3}', '{1, 2, 3}', 'any', 24, 30, 'none'),
    # enough operations for num_closed to reach the code's threshold of 5 inside the main loop: three one-qudit bins closed by
    # a three-qudit gate (block size 2), then every continuation
    'deep': (3, 7, 8, '{2}', '{1, 2, 3}', 'any', 10, 12, 'close3'),
}
QP_ACTIONS = ['StepBarrier', 'StepGateNewBin', 'StepGateJoinBin', 'MidFlush', 'Finalize']

# Mechanisms of the algorithm that QuickPart.tla marks in its history variable `mech` when they make a difference (same names
# and order as Mechs in the specification).
MECHS = ['trans', 'indirect', 'barblock', 'blocked', 'blocked-active', 'wide-bin', 'reentry', 'multi-adm', 'multi-overlap',
         'barrier-partial', 'merge-sub', 'merge-super', 'midflush']
# The ones that are rare enough for every circuit showing them to be printed by the exhaustive runs (<<"QPM", ...>>) and fed back
# as a script; the frequent ones are exercised by the EmitMod sample.
RARE_MECHS = ['trans', 'indirect', 'barblock', 'blocked', 'blocked-active', 'merge-super', 'midflush']

# Directed exhaustive searches (CONSTRAINT Directed) for circuits, wider than the plain configurations reach, in which one part of
# the blocked-qudit bookkeeping decides an admissibility test:
#   name: (Target, [(NQ, MaxOps, BlockSizes, GateArities, BarrierMode) quick], [... thorough])
QP_SEARCH = {
    'trans': ('trans', [(6, 5, '{3}', '{2, 3}', 'none')],
              [(6, 5, '{2, 3, 4}', '{1, 2, 3}', 'none'), (7, 5, '{3}', '{2, 3}', 'none'), (5, 6, '{3}', '{2, 3}', 'none')]),
    'indirect': ('indirect', [(5, 4, '{2, 3}', '{2, 3}', 'none')],
                 [(6, 4, '{2, 3, 4}', '{1, 2, 3}', 'none'), (5, 5, '{3}', '{2, 3}', 'none')]),
}
# Random walks of the model (`tlc -simulate`, thorough tier only): circuits of exactly MaxOps operations, wider than any exhaustive
# run, one iteration order each; the ones showing a rare mechanism are fed back like the others.
#   (NQ, MaxOps, BlockSizes, GateArities, BarrierMode, number of walks)
QP_SIM = [(7, 9, '{2, 3, 4}', '{1, 2, 3}', 'none', 500), (6, 8, '{2, 3}', '{1, 2, 3}', 'any', 500)]     # about one walk per second
# how many of the circuits found are fed back (scripts) per mechanism and source, quick / thorough
SCRIPTS_PER_MECH = (40, 120)
PINS = list(range(8))          # values of the Bin.id counter tried on every script (set iteration order depends on id mod 8)


def qp_cfg(path, nq, maxops, bss, arities, barmode, emitmod, fix, prefix='none', *, minfinal=1, emitmechs=(), slack=99,
           target='trans', directed=False):
    with open(path, 'w') as f:
        f.write('SPECIFICATION Spec\nCONSTANTS\n  NQ = %d\n  MaxOps = %d\n  BlockSizes = %s\n  GateArities = %s\n'
                '  BarrierMode = "%s"\n  Threshold = 5\n  BarrierFix = %s\n  PrefixMode = "%s"\n  EmitMod = %d\n'
                '  MinFinal = %d\n  EmitMechs = {%s}\n  Slack = %d\n  Target = "%s"\n'
                'INVARIANTS AssertsHold Shape%s\n%sCHECK_DEADLOCK FALSE\n'
                % (nq, maxops, bss, arities, barmode, 'TRUE' if fix else 'FALSE', prefix, emitmod,
                   minfinal, ', '.join('"%s"' % m for m in emitmechs), slack, target,
                   ' ResOK' if fix else '', 'CONSTRAINT Directed\n' if directed else ''))


_TOK = re.compile(r'<<|>>')


def parse_marked(out, marker):
    """Every PrintT'ed tuple <<"marker", ...>> (ints, strings, nested tuples only) as a Python list."""
    vals = []
    needle = '"%s"' % marker
    i = 0
    while True:
        j = out.find(needle, i)
        if j < 0:
            break
        s = out.rfind('<<', 0, j)
        if s < 0 or out[s + 2:j].strip():
            i = j + len(needle)
            continue
        depth = 0
        end = -1
        for m in _TOK.finditer(out, s):
            depth += 1 if m.group(0) == '<<' else -1
            if depth == 0:
                end = m.end()
                break
        if end < 0:
            raise MachineryError('unbalanced TLC print for %s' % marker)
        vals.append(json.loads(out[s:end].replace('<<', '[').replace('>>', ']')))
        i = end
    return vals


def recipe_of(nq, circ_out):
    return {'nq': nq, 'ops': [{'k': 'b' if b else 'g', 'loc': loc, 'v': i} for i, (b, loc) in enumerate(circ_out)]}


def _structure_model(circ_out, part_out):
    items = set()
    for blk, loc, ops in part_out:
        seqs = tuple(tuple(i for i in ops if q in circ_out[i - 1][1]) for q in loc)
        items.add((bool(blk), tuple(loc), seqs))
    return frozenset(items)


def _structure_real(case):
    items = set()
    for it in case['out']:
        seqs = tuple(tuple(o['id'] for o in it['ops'] if q in o['loc']) for q in it['loc'])
        items.add((bool(it['blk']), tuple(it['loc']), seqs))
    return frozenset(items)


def iteration_order(ops):
    """ops (dicts with 'loc') sorted into Circuit.operations_with_cycles() order: cycle-major, then by the smallest qudit, where
    the cycle of an operation is the one Circuit.append gives it (first cycle after everything already on its qudits)."""
    last = {}
    keyed = []
    for i, o in enumerate(ops):
        cyc = max([last.get(q, -1) for q in o['loc']]) + 1
        for q in o['loc']:
            last[q] = cyc
        keyed.append((cyc, min(o['loc']), i))
    return [ops[i] for _, _, i in sorted(keyed)]


def circ_of(recipe):
    """The model's view of a recipe made of gates and barriers with ascending locations: [[is_barrier, loc], ...]."""
    return [[1 if o['k'] == 'b' else 0, list(o['loc'])] for o in recipe['ops']]


def embed(recipe, rng):
    """A wider circuit that contains `recipe` unchanged: its qudits mapped by an increasing map into a wider register (the order in
    which the sweep meets the operations is kept), gates and barriers on the other qudits mixed in, a few operations anywhere
    appended.  Returned in iteration order, locations ascending (so that it can also be given to the model as a script)."""
    n = recipe['nq']
    wide = n + rng.randint(1, 4)
    pos = sorted(rng.sample(range(wide), n))
    rest = [q for q in range(wide) if q not in pos]
    ops = [dict(o, loc=sorted(pos[q] for q in o['loc'])) for o in recipe['ops']]
    for _ in range(rng.randint(1, 4)):
        k = rng.randint(1, min(2, len(rest)))
        o = {'k': 'b' if rng.random() < 0.15 else 'g', 'loc': sorted(rng.sample(rest, k)), 'v': rng.randrange(6)}
        ops.insert(rng.randint(0, len(ops)), o)
    for _ in range(rng.randint(0, 4)):
        k = rng.choice([1, 2, 2, 3])
        ops.append({'k': 'g', 'loc': sorted(rng.sample(range(wide), k)), 'v': rng.randrange(6)})
    return {'nq': wide, 'ops': iteration_order(ops)}


def _tlc_parallel(runs, scratch):
    """runs = [(name, cfg, coverage, extra keyword arguments of common.tlc)] -> {name: TlcResult}; the JVMs run side by side
    (start-up and the narrow first levels of a breadth-first search do not use many cores)."""
    from concurrent.futures import ThreadPoolExecutor
    w = max(2, (os.cpu_count() or 4) // max(1, min(len(runs), 4)))

    def one(r):
        name, cfg, cov, kw = r
        kw = dict(kw or {})
        kw.setdefault('workers', w)
        return name, common.tlc(QP, cfg, coverage=cov, scratch=scratch, timeout=3000, heap='4g', **kw)
    with ThreadPoolExecutor(max(1, min(len(runs), 6))) as ex:        # at most six JVMs at a time (memory, other users)
        return dict(ex.map(one, runs))


def run_model(ctx, out, stats):
    """Model-check QuickPart.tla.  Returns (emitted circuits {(bs, nq, circuit): {model outcomes}}, L2 counterexamples,
    found {(bs, nq, circuit): {'mechs': set, 'src': name}} -- circuits in which a rare mechanism made a difference)."""
    emitted = {}
    l2bad = []
    found = {}
    cov = {a: 0 for a in QP_ACTIONS}
    runs = []
    todo = []
    meta = {}
    for name, (nq, mq, mt, bss, ar, bm, eq, et, prefix) in QP_CONFIGS.items():
        for fix in (False, True):
            if fix and (ctx.quick or name != 'q3'):
                continue        # the repaired algorithm is model-checked in the thorough tier only
            rname = name + ('+fix' if fix else '')
            cfg = os.path.join(ctx.scratch, 'QuickPart_%s%s.cfg' % (name, '_fix' if fix else ''))
            maxops = mq if ctx.quick else mt
            qp_cfg(cfg, nq, maxops, bss, ar, bm, 0 if fix else (eq if ctx.quick else et), fix, prefix,
                   emitmechs=() if fix else RARE_MECHS)
            todo.append((rname, cfg, not fix, None))
            meta[rname] = dict(config=name, fix=fix, NQ=nq, MaxOps=maxops, kind='exhaustive')
    for name, (target, quick, thorough) in QP_SEARCH.items():
        for j, (nq, maxops, bss, ar, bm) in enumerate(quick if ctx.quick else quick + thorough):
            rname = '%s-search%d' % (name, j)
            cfg = os.path.join(ctx.scratch, 'QuickPart_%s.cfg' % rname)
            qp_cfg(cfg, nq, maxops, bss, ar, bm, 0, False, 'none', emitmechs=[target], slack=maxops - 3, target=target, directed=True)
            todo.append((rname, cfg, False, None))
            meta[rname] = dict(config=rname, fix=False, NQ=nq, MaxOps=maxops, kind='directed search for "%s"' % target)
    for j, (nq, maxops, bss, ar, bm, num) in enumerate([] if ctx.quick else QP_SIM):
        rname = 'walks%d' % j
        cfg = os.path.join(ctx.scratch, 'QuickPart_%s.cfg' % rname)
        qp_cfg(cfg, nq, maxops, bss, ar, bm, 0, False, 'none', minfinal=maxops, emitmechs=RARE_MECHS)
        todo.append((rname, cfg, False, {'simulate': 'num=%d' % num, 'depth': maxops + 6, 'seed': ctx.seed + 1, 'workers': 1}))
        meta[rname] = dict(config=rname, fix=False, NQ=nq, MaxOps=maxops, kind='%d random walks (-simulate)' % num)
    # the single-threaded random walks start first, so that they overlap with everything else
    results = _tlc_parallel(sorted(todo, key=lambda t: not t[0].startswith('walks')), ctx.scratch)
    for rname, _, _, _ in todo:
        r = results[rname]
        m = meta[rname]
        if not r.ok:
            if m['fix'] and 'ResOK' in r.out and 'is violated' in r.out:
                out.notes.append('NOTE property=C08 the proposed repair of QuickPartitioner (BarrierFix) does not satisfy the postcondition '
                                 'in configuration %s: %s' % (rname, r.error[:300].replace('\n', ' ')))
                continue
            raise MachineryError('TLC failed on QuickPart.tla (%s): %s' % (rname, r.error or r.out[-1500:]))
        if 'random walks' in m['kind']:
            mm = re.search(r'The number of states generated: (\d+)', r.out)
            r.states = int(mm.group(1)) if mm else 0          # simulation mode reports only this number
        stats['states'] += r.distinct
        stats['transitions'] += r.states
        nfound = 0
        if not m['fix']:
            if m['kind'] == 'exhaustive':
                for a in QP_ACTIONS:
                    cov[a] += r.coverage.get(a, 0)
            for v in parse_marked(r.out, 'L2VERDICT'):
                _, bs, n, circ_out, clause = v
                l2bad.append((bs, n, circ_out, clause))
            for v in parse_marked(r.out, 'QP'):
                _, bs, n, circ_out, part_out, npend = v
                key = (bs, n, json.dumps(circ_out))
                emitted.setdefault(key, set()).add('RAISED' if npend else _structure_model(circ_out, part_out))
            for v in parse_marked(r.out, 'QPM'):
                _, bs, n, circ_out, mechs = v
                key = (bs, n, json.dumps(circ_out))
                if key not in found:
                    nfound += 1
                    found[key] = {'mechs': set(), 'src': rname}
                found[key]['mechs'].update(mechs)
        runs.append(dict(m, states=r.distinct, transitions=r.states, depth=r.depth, wall_s=round(r.wall, 1), circuits_found=nfound))
    vac = [a for a, c in cov.items() if c == 0]
    if vac:
        raise MachineryError('QuickPart.tla: action(s) never taken (vacuous model run): %s' % vac)
    for name, (target, _, _) in QP_SEARCH.items():
        if not any(target in f['mechs'] for f in found.values()):
            raise MachineryError('QuickPart.tla: the directed search found no circuit in which "%s" decides (vacuous search)' % target)
    stats['model_runs'] = runs
    stats['action_coverage'] = cov
    return emitted, l2bad, found


def run_scripts(ctx, scripts, stats):
    """Phase B: QuickPart.tla follows exactly the given circuits (PrefixMode = "script"), every set-iteration order.
    scripts = [(bs, nq, circuit)];  returns per script {'outcomes': set, 'mechs': set, 'verdicts': set}."""
    if not scripts:
        return []
    path = os.path.join(ctx.scratch, 'qp_scripts.json')
    with open(path, 'w') as f:
        json.dump([{'bs': bs, 'ops': [{'b': b, 'loc': loc} for b, loc in circ]} for bs, _, circ in scripts], f)
    nq = max(n for _, n, _ in scripts)
    cfg = os.path.join(ctx.scratch, 'QuickPart_script.cfg')
    qp_cfg(cfg, nq, max(len(c) for _, _, c in scripts), '{2}', '{1, 2, 3}', 'any', 0, False, 'script')
    r = common.tlc(QP, cfg, scratch=ctx.scratch, timeout=3000, env={'QP_SCRIPTS': path}, heap='4g')
    if not r.ok:
        raise MachineryError('TLC failed on QuickPart.tla (scripts): %s' % (r.error or r.out[-1500:]))
    stats['states'] += r.distinct
    stats['transitions'] += r.states
    res = [{'outcomes': set(), 'mechs': set(), 'verdicts': set()} for _ in scripts]
    for v in parse_marked(r.out, 'QPS'):
        _, sid, bs, _n, part_out, npend, mechs, verdict = v
        e = res[sid - 1]
        e['outcomes'].add('RAISED' if npend else _structure_model(scripts[sid - 1][2], part_out))
        e['mechs'].update(mechs)
        e['verdicts'].add(verdict)
    missing = [i for i, e in enumerate(res) if not e['outcomes']]
    if missing:
        raise MachineryError('QuickPart.tla did not finish %d of %d scripts (not in iteration order?), e.g. %s'
                             % (len(missing), len(scripts), json.dumps(scripts[missing[0]])))
    stats['model_runs'].append({'config': 'scripts', 'fix': False, 'NQ': nq, 'MaxOps': max(len(c) for _, _, c in scripts),
                                'kind': 'every iteration order of %d given circuits' % len(scripts),
                                'states': r.distinct, 'transitions': r.states, 'depth': r.depth, 'wall_s': round(r.wall, 1)})
    return res


def _pool_map(fn, jobs):
    if len(jobs) < 64:
        return [fn(j) for j in jobs]
    n = min(16, os.cpu_count() or 4)
    with multiprocessing.get_context('fork').Pool(n) as pool:
        # small chunks: the long random circuits sit next to each other in the job list, a large chunk of them is a straggler
        return pool.map(fn, jobs, chunksize=max(1, min(16, len(jobs) // (n * 8))))


def _norm_err(s):
    return re.sub(r'\d+', 'N', s.split('\n')[0])[:60]


def key_of(case, clause):
    nb = sum(1 for x in case['kind'] if x != 'g')
    k = {'partitioner': case['p'], 'clause': clause,
         'has_barrier': nb > 0, 'n_barriers': '0' if nb == 0 else '1' if nb == 1 else '2+',
         'block_gt_width': case['cfg_bs'] > case['nq'],
         # for QuickPartitioner on a TLC-enumerated circuit: does QuickPart.tla (the model of the unchanged code) predict this outcome?
         'predicted_by_model': case.get('predicted', 'n/a')}
    if clause == 'pass-raised':
        k['error'] = _norm_err(case['raised'])
    return k


def _strip(case):
    return {k: v for k, v in case.items() if k not in ('recipe', 'npseed', 'cfg_bs', 'src', 'predicted', 'binid', 'sid', 'pins', 'mechs')}


def run(ctx: Ctx) -> Outcome:
    import logging
    common.use_repo()
    warnings.filterwarnings('ignore')
    logging.disable(logging.CRITICAL)
    out = Outcome('C08')
    stats = {'states': 0, 'transitions': 0}
    rng = random.Random(ctx.seed * 7919 + 8)

    t0 = time.time()
    scripts, sinfo, sres = [], [], []
    if ctx.replay:
        job = ctx.replay['replay']['job']
        jobs = [tuple(job)]
        infos = [{'src': 'replay'}]
        emitted, l2bad, found = {}, [], {}
    else:
        emitted, l2bad, found = run_model(ctx, out, stats)
        jobs, infos = [], []
        # (1) every circuit the model printed, and every design-level counterexample, into the real QuickPartitioner
        #     (the Bin.id counter, which decides the set iteration order in the pass, is part of the input)
        enum_keys = sorted(emitted)
        for (bs, n, cj) in enum_keys:
            jobs.append((recipe_of(n, json.loads(cj)), 'quick', bs, 0, rng.randrange(8)))
            infos.append({'src': 'enum'})
        seen_l2 = set()
        for (bs, n, circ_out, clause) in l2bad:
            kk = (bs, n, json.dumps(circ_out))
            if kk in seen_l2:
                continue
            seen_l2.add(kk)
            if kk not in emitted:
                jobs.append((recipe_of(n, circ_out), 'quick', bs, 0, rng.randrange(8)))
                infos.append({'src': 'l2cex'})
        # (2) the other partitioners on a seeded sample of the enumerated circuits
        per = 150 if ctx.quick else 2500
        for pn in PARTITIONERS[1:]:
            for (bs, n, cj) in rng.sample(enum_keys, min(per, len(enum_keys))):
                jobs.append((recipe_of(n, json.loads(cj)), pn, bs, rng.randrange(2 ** 31)))
                infos.append({'src': 'enum'})
        # (3) model-based test generation: the circuits in which TLC saw a rare mechanism make a difference (exhaustive runs and
        #     directed searches), a seeded sample per mechanism and source, plus wider circuits that contain them; the model then
        #     follows exactly these circuits under every iteration order (phase B) and the real pass runs them under every PINS value
        cap = SCRIPTS_PER_MECH[0 if ctx.quick else 1]
        fkeys = sorted(found)
        chosen = set()
        for m in RARE_MECHS:
            by_src = {}
            for k in fkeys:
                if m in found[k]['mechs']:
                    by_src.setdefault(found[k]['src'], []).append(k)
            for src in sorted(by_src):
                chosen.update(rng.sample(by_src[src], min(cap, len(by_src[src]))))
        for (bs, n, cj) in sorted(chosen):
            scripts.append((bs, n, json.loads(cj)))
            sinfo.append({'src': 'script', 'from': found[(bs, n, cj)]['src']})
        nbase = len(scripts)
        for i in rng.sample(range(nbase), min(nbase, 80 if ctx.quick else 600)):
            bs, n, circ = scripts[i]
            rec = embed(recipe_of(n, circ), rng)
            scripts.append((bs, rec['nq'], circ_of(rec)))
            sinfo.append({'src': 'embed', 'from': sinfo[i]['from'], 'recipe': rec})
        sres = run_scripts(ctx, scripts, stats)
        for i, (bs, n, circ) in enumerate(scripts):
            rec = sinfo[i].get('recipe') or recipe_of(n, circ)
            for pin in PINS:
                jobs.append((rec, 'quick', bs, 0, pin))
                infos.append({'src': sinfo[i]['src'], 'sid': i})
        per = 30 if ctx.quick else 400
        for pn in PARTITIONERS[1:]:
            for i in rng.sample(range(len(scripts)), min(per, len(scripts))):
                bs, n, circ = scripts[i]
                rec = sinfo[i].get('recipe') or recipe_of(n, circ)
                if pn in ('scan', 'gtqcp', 'tdag', 'cluster') and rng.random() < 0.85:
                    rec = fit_domain(rec, bs)
                jobs.append((rec, pn, bs, rng.randrange(2 ** 31)))
                infos.append({'src': sinfo[i]['src']})
        # (4) seeded random circuits, all partitioners
        nrand = 90 if ctx.quick else 700
        for pn in PARTITIONERS:
            for i in range(nrand):
                big = i % 6 == 5
                if ctx.quick:
                    rec = gen_random(rng, 12 if big else 7, 80 if big else 30)
                else:
                    rec = gen_random(rng, 20 if big else 8, (700 if i % 30 == 29 else 200) if big else 40)
                bs = rng.choice([2, 3, 3, 4, 5, 6] if big else [2, 2, 3, 3, 4])
                if pn in ('scan', 'gtqcp', 'tdag', 'cluster', 'greedy') and (rec['nq'] > 8 or len(rec['ops']) > 60) and bs > 3:
                    bs = rng.choice([2, 3, 4] if pn != 'greedy' else [2, 3])     # region search is combinatorial in width x block size
                if pn == 'greedy' and len(rec['ops']) > 250:
                    rec['ops'] = rec['ops'][:250]
                if pn in ('scan', 'gtqcp', 'tdag', 'cluster') and rng.random() < 0.85:
                    rec = fit_domain(rec, bs)         # these passes refuse operations wider than the block size
                jobs.append((rec, pn, bs, rng.randrange(2 ** 31), rng.randrange(8)))
                infos.append({'src': 'random'})

    t1 = time.time()
    results = _pool_map(observe, jobs)
    t2 = time.time()
    cases, skipped = [], {}
    same = {}          # (script, outcome) -> the case that stands for every pin giving that outcome
    script_runs = 0
    unpinned = 0
    for r, info in zip(results, infos):
        if 'skip' in r:
            skipped[r['skip']] = skipped.get(r['skip'], 0) + 1
            continue
        r['src'] = info['src']
        if r['p'] == 'quick' and r['binid'] is None and not ctx.replay:
            unpinned += 1
        if 'sid' in info:
            script_runs += 1
            r['sid'] = info['sid']
            kk = (info['sid'], common.digest([r['out'], r['raised']]))
            if kk in same:
                same[kk]['pins'].append(r['binid'])
                continue
            r['pins'] = [r['binid']]
            same[kk] = r
        cases.append(r)
    if not cases:
        raise MachineryError('no case could be observed')
    if unpinned:
        out.notes.append('UNOBSERVABLE property=C08 the Bin.id counter of bqskit.passes.partitioning.quick could not be set in %d runs: '
                         'the order in which QuickPartitioner visits overlapping bins was not controlled there' % unpinned)

    verdicts, st, tr, _ = common.batch_validate(ABS, ABS_CFG, [_strip(c) for c in cases], ctx.scratch, chunk=3000, parallel=4)
    t3 = time.time()
    stats['states'] += st
    stats['transitions'] += tr

    def model_outcomes(c):
        """what QuickPart.tla (the model of the unchanged code) allows for this run of QuickPartitioner, or None"""
        if c['p'] != 'quick':
            return None
        if 'sid' in c:
            return sres[c['sid']]['outcomes']
        if c['src'] in ('enum', 'l2cex'):
            return emitted.get((c['cfg_bs'], c['nq'], json.dumps(circ_of(c['recipe']))))
        return None
    for c in cases:
        mo = model_outcomes(c)
        if mo is not None:
            c['predicted'] = ('RAISED' if c['raised'] else _structure_real(c)) in mo
        elif c['p'] == 'quick' and c['src'] == 'l2cex':
            c['predicted'] = bool(c['raised'])
        if 'sid' in c:
            c['mechs'] = sorted(sres[c['sid']]['mechs'])
    rejected = {}
    for idx, step, clause, _ in verdicts:
        c = cases[idx]
        rejected[idx] = clause
        item = c['out'][step - 1] if 0 < step <= len(c['out']) else None
        detail = ('%s(block_size=%d) on a %d-qudit circuit with %d operations: clause %s at output item %d%s%s\n'
                  'input operations (id: kind location): %s%s' % (
                      c['p'], c['cfg_bs'], c['nq'], len(c['oploc']), clause, step,
                      (' ' + json.dumps(item)[:400]) if item else '',
                      (' raised ' + c['raised']) if c['raised'] else '',
                      ' '.join('%d:%s%s' % (i + 1, c['kind'][i], c['oploc'][i]) for i in range(min(len(c['oploc']), 40))),
                      ('\nBin.id counter at the start of the run: %s; mechanisms of QuickPart.tla that decide on this circuit: %s; outcome '
                       'allowed by QuickPart.tla: %s' % (c.get('pins'), ', '.join(c['mechs']), c.get('predicted'))) if 'sid' in c else ''))
        out.violations.append(Violation('C08', clause, key_of(c, clause), detail,
                                        {'job': [c['recipe'], c['p'], c['cfg_bs'], c['npseed'], c['binid']]}))

    # binding of the L2 model: real QuickPartitioner vs QuickPart.tla on the circuits TLC enumerated / found
    drift = 0
    compared = 0
    drift_scripts = set()
    first_drift = ''
    for idx, c in enumerate(cases):
        mo = model_outcomes(c)
        if mo is None:
            continue
        compared += 1
        if not c['predicted']:
            drift += 1
            if 'sid' in c:
                drift_scripts.add(c['sid'])
            if not first_drift:
                first_drift = ('QuickPartitioner(block_size=%d) on %s%s: %s' % (
                    c['cfg_bs'], json.dumps(circ_of(c['recipe'])),
                    (' with the Bin.id counter starting at %s (QuickPart.tla: %s decide here)' % (c['pins'], ', '.join(c['mechs']))) if 'sid' in c else '',
                    'the pass raised' if c['raised'] else 'blocks ' + ' '.join('%s:%s' % (it['loc'], [o['id'] for o in it['ops']]) for it in c['out'])[:300]))
    for (bs, n, circ_out, clause) in l2bad:
        # a design-level counterexample must reproduce on the code (then it is a violation above); otherwise the model drifted
        hit = [i for i, c in enumerate(cases) if c['p'] == 'quick' and c['cfg_bs'] == bs and c['nq'] == n and c['src'] in ('enum', 'l2cex')
               and circ_of(c['recipe']) == circ_out] if len(l2bad) < 2000 else []
        if hit and hit[0] not in rejected:
            drift += 1
            out.notes.append('DRIFT property=C08 QuickPart.tla predicts %s for %s (block_size=%d) but the real pass output was accepted'
                             % (clause, json.dumps(circ_out), bs))
    if first_drift:
        # one line (the first case; the count is in the evidence): model and code disagree, which is not a verdict
        out.notes.insert(0, 'DRIFT property=C08 QuickPartitioner and QuickPart.tla disagree on the block structure in %d of %d compared runs '
                            '(%d generated circuits), first: %s' % (drift, compared, len(drift_scripts), first_drift))

    # what the generated circuits exercise
    gen = {'circuits_found_by_tlc': {}, 'scripts': len(scripts), 'scripts_embedded_in_wider_circuits': sum(1 for x in sinfo if x['src'] == 'embed'),
           'real_runs_of_scripts': script_runs, 'bin_id_values': PINS if scripts else []}
    for k, f in found.items():
        for m in f['mechs']:
            if m in RARE_MECHS:
                gen['circuits_found_by_tlc'][m] = gen['circuits_found_by_tlc'].get(m, 0) + 1
    gen['scripts_by_mechanism'] = {m: sum(1 for e in sres if m in e['mechs']) for m in MECHS}
    gen['scripts_by_width'] = {}
    for (bs, n, circ) in scripts:
        gen['scripts_by_width'][str(n)] = gen['scripts_by_width'].get(str(n), 0) + 1
    gen['scripts_with_order_dependent_model_outcome'] = sum(1 for e in sres if len(e['outcomes']) > 1)
    per_script = {}
    for c in cases:
        if 'sid' in c:
            per_script.setdefault(c['sid'], set()).add('RAISED' if c['raised'] else _structure_real(c))
    gen['scripts_with_order_dependent_real_outcome'] = sum(1 for v in per_script.values() if len(v) > 1)
    gen['model_outcomes_reached_by_real_runs'] = '%d of %d' % (sum(len(per_script.get(i, set()) & e['outcomes']) for i, e in enumerate(sres)),
                                                               sum(len(e['outcomes']) for e in sres))
    gen['scripts_where_model_predicts_a_violation'] = sum(1 for e in sres if e['verdicts'] - {'accepted'})
    gen['scripts_with_drift'] = len(drift_scripts)

    by_p, by_src = {}, {}
    for c in cases:
        by_p[c['p']] = by_p.get(c['p'], 0) + 1
        by_src[c['src']] = by_src.get(c['src'], 0) + 1
    nontrivial = {common.digest(_strip(c)) for c in cases if len(c['oploc']) >= 2 and any(it['blk'] for it in c['out'])}
    by_clause = {}
    for v in out.violations:
        kk = '%s/%s' % (v.key['partitioner'], v.clause)
        by_clause[kk] = by_clause.get(kk, 0) + 1

    smallest = {}
    for idx, clause in rejected.items():
        c = cases[idx]
        kk = '%s/%s' % (c['p'], clause)
        if kk not in smallest or len(c['oploc']) < smallest[kk]['n']:
            smallest[kk] = {'n': len(c['oploc']), 'block_size': c['cfg_bs'], 'nq': c['nq'], 'raised': c['raised'],
                            'ops': ['%s%s' % (c['kind'][i], c['oploc'][i]) for i in range(len(c['oploc']))][:30],
                            'out': [('BLOCK' if it['blk'] else 'bare') + str(it['loc']) + ':' + ','.join(str(o['id']) for o in it['ops'])
                                    for it in c['out']][:30]}

    def sample(c):
        return {'partitioner': c['p'], 'block_size': c['cfg_bs'], 'nq': c['nq'], 'inseq': c['inseq'][:6], 'out': c['out'][:4]}
    picks = [cases[i] for i in (0, len(cases) // 2, len(cases) - 1) if i < len(cases)]
    out.coverage = {
        'states': stats['states'], 'transitions': stats['transitions'],
        'traces_validated_against_impl': len(cases),
        'evaluations': len(cases), 'real_pass_runs': len(results) - sum(skipped.values()), 'distinct_nontrivial': len(nontrivial),
        'rule': 'one case = one run of a real partitioning pass (driven as a coroutine) on one circuit, its output and its unfold_all() '
                'judged by TLC (PartitionAbs.tla); circuits: those enumerated by TLC from QuickPart.tla (all shorter ones, a deterministic '
                'sample of the longest), those TLC found to exercise a rare mechanism of the algorithm (scripts; run under 8 values of '
                'the Bin.id counter, runs of one script with the same output count as one case), wider circuits containing them, and '
                'seeded random ones; non-trivial = at least 2 input operations and at least one block in the output; distinct by '
                'content hash of the whole case',
        'exhaustive': False,
        'exhaustive_part': 'QuickPart.tla state graphs: ' + '; '.join(
            '%s%s NQ=%d ops<=%d: %d states' % (r['config'], '+fix' if r['fix'] else '', r['NQ'], r['MaxOps'], r['states'])
            for r in stats.get('model_runs', [])),
        'model_runs': stats.get('model_runs', []),
        'timing_s': {'model_checking': round(t1 - t0, 1), 'real_passes': round(t2 - t1, 1), 'trace_validation': round(t3 - t2, 1)},
        'action_coverage': stats.get('action_coverage', {}),
        'l2_counterexamples': len(l2bad),
        'model_based_test_generation': gen,
        'model_vs_code_compared': compared, 'drift': drift,
        'by_partitioner': by_p, 'by_source': by_src, 'skipped_outside_domain': skipped,
        'verdicts_by_partitioner_clause': by_clause, 'smallest_rejected': smallest,
        'max_width': max(c['nq'] for c in cases), 'max_ops': max(len(c['oploc']) for c in cases),
        'samples': [sample(c) for c in picks],
        'checker_cmd': 'tlc -config <generated> specs/partition/QuickPart.tla (-coverage 1); '
                       'tlc -config specs/partition/PartitionAbs.cfg specs/partition/PartitionAbs.tla (batch, TRACE_FILE=cases.json)',
        'trusted_base': ['TLC', 'harness/checks/c08.py observation code (identity of operations by TaggedGate tag / classical register name / '
                         '(kind, location, occurrence) for barriers and resets; parameters rounded to 1e-6)'],
    }
    out.assumptions = ['all qudits are qubits; gate set U1/U3/CNOT/RZZ/CZ/CCX/CCP wrapped in TaggedGate',
                       'an input operation that is itself a CircuitGate counts as one operation (recognised by the tags inside it)',
                       'inputs with an operation wider than the block size are outside the domain of Scan/Clustering/GTQCP/TDAG (they raise by design)']
    return out
