"""C05 - all views of a Circuit stay mutually consistent after every edit (specs/circuit)."""
from __future__ import annotations

from harness import circuit_rec
from harness.common import Ctx, Outcome

MANIFEST_ENTRY = dict(
    engine='circuit',
    technique='TLA+ reference state machine of the cycle grid (specs/circuit/CircuitRef.tla) model-checked with TLC; its transitions '
              'replayed into the real Circuit; every public view recorded after every call and recomputed from the grid by the L1 '
              'trace specification specs/circuit/CircuitAbs.tla',
    text='After every call of the same recordings as C04 (replayed CircuitRef transitions and seeded random histories over the whole '
         'editing alphabet, valid and invalid arguments) TLC recomputes from the grid view what next/prev/front/rear/first_on/'
         'last_on, num_operations, num_cycles, gate_counts, num_params, coupling_graph, active_qudits, depth and default '
         'iteration must report, checks that no cycle is empty, that every operation occupies exactly its location in one '
         'cycle with matching radixes, that iteration is compatible with every qudit timeline, that a call whose arguments the '
         'TLA+ Validity predicate does not declare invalid never raises outside ValueError/IndexError/TypeError, and that a '
         'rejected call leaves the circuit unchanged.',
    note='Views are read through the public API only; internal tables (_dag, _graph_info, _gate_info) are judged through what the '
         'API reports. Histories end at the first internal error (the object may be half-updated).',
    ref='DESIGN.md section 4 / IR group / C05',
)


def run(ctx: Ctx) -> Outcome:
    return circuit_rec.run_check(ctx, 'C05')
