"""C12 — cancelling work removes it everywhere and disturbs nothing else."""
from __future__ import annotations

import random

from harness import rtcheck, rtfine, rtmodel
from harness.common import Ctx, Outcome

MANIFEST_ENTRY = dict(
    engine='runtime',
    technique='TLA+ runtime specifications (L2 Runtime.tla with cancel model-checked by TLC; L1 RuntimeAbs.tla trace validation incl. the '
              'idle-snapshot residue clauses) bound to the real runtime classes under a deterministic scheduler',
    text='Task programs with cancel at every position of the tree (before start, while delayed, while awaiting, after partial next(), after '
         'completion, futures left unconsumed), client cancel and disconnect at any time on detached servers, on 1-4 workers with optional '
         'managers, under random/PCT schedules incl. line-level interleaving of the worker threads. L1 computes "cancelled work" itself '
         '(explicitly cancelled futures, futures orphaned by their owner, compilations cancelled or orphaned by their client, and all '
         'descendants) and checks: nothing of it is delivered, the idle snapshot of every node holds no task, mailbox, delayed or server row '
         'of it, and everything else satisfies C07.',
    note='Trusted as for C07, plus the snapshot projection in harness/rtdrive.py (reads the nodes\' tables; a missing attribute degrades '
         'the residue clause to UNOBSERVABLE instead of failing). "Stop being started" is judged at the idle snapshot (cancel is documented '
         'as asynchronous and non-pre-emptive).',
    ref='DESIGN.md section 4 / C12',
)


def scenarios(ctx: Ctx):
    rng = random.Random(ctx.seed * 104729 + 12)
    n = 400 if ctx.quick else 12000
    topos = rtcheck.topologies(rng, ctx.quick)
    scs = []
    lib = ['C', 'C2', 'L']
    for i in range(n):
        topo = topos[i % len(topos)]
        kind = i % 4
        if kind == 0:
            progs = rtcheck.LIB[lib[(i // 4) % len(lib)]]
        else:
            progs = rtcheck.gen_prog(rng, depth=rng.choice([1, 2, 2, 3]), cancel=True, leftover=rng.random() < 0.5, maxfan=rng.choice([2, 3, 4]))
        clients = [[['submit', 'H0', 'root'], ['result', 'H0']]]
        if topo[0] == 'detached' and kind == 3:
            # client-level cancel / disconnect racing with the compilation, next to an undisturbed client
            victim = rng.choice([
                [['submit', 'V', 'root'], ['cancel', 'V'], ['submit', 'V2', 'root'], ['result', 'V2']],
                [['submit', 'V', 'root'], ['status', 'V'], ['cancel', 'V']],
                [['submit', 'V', 'root'], ['close']],
                [['submit', 'V', 'root'], ['submit', 'V2', 'root'], ['cancel', 'V'], ['result', 'V2']],
            ])
            clients = [clients[0], victim]
        sched = ['random', ctx.seed * 100003 + i] if i % 3 else ['pct', ctx.seed * 100003 + i, rng.choice([2, 3, 5])]
        scs.append({'topo': topo, 'progs': progs, 'clients': clients, 'sched': sched, 'lines': i % 5 in (0, 1),
                    'crash': None, 'probe': False})
    # finished but never claimed: a client submits, the compilation FINISHES (the client lets the system settle, or polls the
    # status), the result is never requested, and the client cancels / disconnects - next to an undisturbed client.  Whatever
    # the server still holds of that compilation afterwards (its stored result included) is residue.  Own generator, so that
    # the scenarios above stay what they were for a given seed.
    rng2 = random.Random(ctx.seed * 7919 + 1212)
    m = 60 if ctx.quick else 1500
    dets = [t for t in topos if t[0] == 'detached']
    for j in range(m):
        topo = dets[j % len(dets)]
        progs = rtcheck.LIB[['T', 'A', 'B', 'L'][j % 4]] if j % 3 else rtcheck.gen_prog(rng2, depth=rng2.choice([1, 2]), leftover=rng2.random() < 0.3)
        victim = rng2.choice([
            [['submit', 'V', 'root'], ['settle'], ['close']],
            [['submit', 'V', 'root'], ['status', 'V'], ['settle'], ['status', 'V'], ['close']],
            [['submit', 'V', 'root'], ['submit', 'V2', 'root'], ['result', 'V2'], ['settle'], ['close']],
            [['submit', 'V', 'root'], ['settle'], ['cancel', 'V'], ['submit', 'V2', 'root'], ['result', 'V2']],
            [['submit', 'V', 'root'], ['settle'], ['status', 'V']],        # ... and the harness closes the connection at the end
            [['submit', 'V', 'root'], ['result', 'V'], ['submit', 'V2', 'root'], ['settle'], ['close']],
        ])
        clients = [[['submit', 'H0', 'root'], ['result', 'H0']], victim] if j % 2 else [victim]
        sched = ['random', ctx.seed * 100003 + n + j] if j % 3 else ['pct', ctx.seed * 100003 + n + j, 3]
        scs.append({'topo': topo, 'progs': progs, 'clients': clients, 'sched': sched, 'lines': False, 'crash': None, 'probe': j % 4 == 0,
                    'family': 'unclaimed'})
    # descendants handed to a worker AFTER it has seen their ancestor's CANCEL: three-level trees whose root cancels the middle
    # task while its child is still creating grandchildren (L1: cancelled-task-started-after-its-worker-saw-the-cancel)
    rng3 = random.Random(ctx.seed * 4099 + 1213)
    m3 = 200 if ctx.quick else 5000
    deep_topos = [['attached', 2], ['attached', 3], ['detached', [2]], ['attached', 2], ['detached', [3]], ['detached', [1, 1]]]
    for j in range(m3):
        sd = ctx.seed * 100003 + n + m + j
        sched = [['race', sd, 'none', 'cancel-down'], ['random', sd], ['race', sd, 'none', 'cancel-down'], ['delay', sd, 0.1, 30, ['w']]][j % 4]
        scs.append({'topo': deep_topos[j % len(deep_topos)], 'progs': rtcheck.gen_cancel_deep(rng3), 'clients': [[['submit', 'H0', 'root'], ['result', 'H0']]],
                    'sched': sched, 'lines': j % 5 == 0, 'crash': None, 'probe': False, 'family': 'cancel-deep'})
    return scs


def run(ctx: Ctx) -> Outcome:
    if ctx.replay:
        if ctx.replay['replay']['scenario'].get('fine'):
            return rtfine.replay_outcome('C12', ctx, also=('C07',))
        out = rtcheck.replay_outcome('C12', ctx, also=('C07',))
        return out
    scs = scenarios(ctx)
    # client scripts DERIVED FROM TLC behaviours of ServerClients.tla (exhaustively checked in C13) in which a client disconnects
    # while it owns a finished compilation it never asked the result of
    tlc_scs = rtmodel.simulated_scripts(ctx, 1500 if ctx.quick else 12000, only=('finished-unclaimed-then-gone',), cap=40 if ctx.quick else 600)
    scs = scs + tlc_scs
    # WorkerFine.tla, cancel configurations (cancel of a future with its result in flight, _handle_cancel racing the main thread,
    # the client cancelling the compilation): TLC runs in the background, replays into the real Worker afterwards
    fine = rtfine.start('C12', ctx)
    model_cov, guided, notes = rtmodel.model_check_and_generate('C12', ctx)
    fine_cov, fine_traces, fine_notes = fine.result()
    rtfine.merge(model_cov, fine_cov)
    out = rtcheck.validate('C12', scs, ctx, extra_traces=list(guided) + fine_traces, also=('C07',), extra_cov=model_cov, keep_items=True)
    rtfine.annotate_residue(out)       # key field for known findings: was the left-over mailbox created after its owner's cancellation?
    out.notes += notes + fine_notes
    out.coverage['l2_behaviours_as_client_scripts'] = len(tlc_scs)
    out.assumptions = ['cancelled work is computed by the specification from the observed cancel / completion / disconnect events',
                       'the idle snapshot is taken when no thread of any node can make a step and every client call has returned']
    return out
