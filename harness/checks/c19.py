"""C19 — cost functions and instantiation are faithful to circuit semantics (the clauses decidable without
real arithmetic: zero set of the cost on the exact domain, instantiate changes no structure, multi-start keeps the
cheapest candidate).

Oracle: specs/exact/CostZero.tla (+ Monomial.tla); the relation "equal up to one global phase" it relies on is
model-checked by specs/exact/MonoLaws.tla (MonoLawsCost.cfg).
"""
from __future__ import annotations

import math
import os
import random
import threading
import warnings

import numpy as np

from harness import common, exact
from harness.checks import c06
from harness.common import Ctx, Outcome, Violation

SPEC = os.path.join(common.SPECS, 'exact', 'CostZero.tla')
CFG = os.path.join(common.SPECS, 'exact', 'CostZero.cfg')
LAWS = os.path.join(common.SPECS, 'exact', 'MonoLaws.tla')

MANIFEST_ENTRY = dict(
    engine='exact',
    technique='TLA+ zero-set predicate over circuit semantics, structure-stutter and arg-min predicates (specs/exact/CostZero.tla, '
              'Monomial.tla) evaluated by TLC over observations of the real cost functions and instantiaters; the global-phase '
              'equivalence model-checked by TLC (specs/exact/MonoLaws.tla)',
    text='zero-set: for monomial circuit/target pairs (target = the same circuit, the circuit with a cancelling pair or a global-phase '
         'gate inserted, the circuit with one extra relative phase, an unrelated circuit; each times a random global phase; unitary, '
         'state and state-system targets, mixed radixes; half of the circuits contain user-defined Python gates from '
         'harness/usergates.py, which forces the non-native evaluation path) the boolean "cost < 1e-10" observed through '
         'HilbertSchmidtCostGenerator and HilbertSchmidtResidualsGenerator (calc_cost, gen_cost().get_cost, and __call__ of the scalar cost) is compared by TLC '
         'with SameUpToPhase(Sem(circuit), target). instantiate-structure: Circuit.instantiate with qfactor / minimization / automatic / '
         'user-subclassed instantiaters, 1-4 starts, unitary, state and system targets returns the same object and leaves the op list '
         '(gate, location, cycle), radixes and parameter count unchanged. multistart-argmin: through recording subclasses of '
         'Instantiater / Minimization (public API, no hook in the repository) the per-start candidates are logged; TLC checks the kept '
         'parameters are one of the candidates and none is cheaper (costs as integers, cost*1e9).',
    note='NOT decided: gradients against finite differences, cost values away from zero, minimiser behaviour/convergence. The zero-set '
         'clause is decided only for monomial circuits and targets (phases multiples of 2*pi/48, parameters multiples of pi/4). Trusted: '
         'TLC, harness/exact.py (discretiser, own contraction used to build targets), harness/usergates.py, observation code in c19.py.',
    ref='DESIGN.md section 4 / C19',
)

EPS = 1e-10
USER = {'X': 'PyXGate', 'S': 'PySGate', 'CZ': 'PyCZGate', 'Shift3': 'PyShift3Gate', 'RZ': 'PyRZGate'}


# ------------------------------------------------------------------------------ circuits
def user_item(rng, rs):
    """A plan item that is a user-defined Python gate applicable to the register, or None."""
    n = len(rs)
    cands = []
    for q in range(n):
        if rs[q] == 2:
            cands += [('u', 'PyXGate', [], [q]), ('u', 'PySGate', [], [q]), ('u', 'PyRZGate', [rng.randint(-8, 8)], [q])]
        if rs[q] == 3:
            cands.append(('u', 'PyShift3Gate', [], [q]))
    for a in range(n):
        for b in range(n):
            if a != b and rs[a] == rs[b] == 2:
                cands.append(('u', 'PyCZGate', [], [a, b]))
    return rng.choice(cands) if cands else None


def random_plan(rng, rs, nops, python):
    plan = [c06.random_item(rng, rs, depth=1 if rng.random() < 0.8 else 0) for _ in range(nops)]
    if python:
        for _ in range(rng.randint(1, 3)):
            u = user_item(rng, rs)
            if u is None:
                return None
            plan.insert(rng.randint(0, len(plan)), u)
    return plan


def cancelling_pair(rng, rs):
    q = rng.randrange(len(rs))
    if rs[q] == 2:
        a, b = rng.choice([('S', 'Sdg'), ('T', 'Tdg'), ('X', 'X'), ('Y', 'Y'), ('Z', 'Z')])
        return [('g', a, [], [q]), ('g', b, [], [q])]
    return [('g', 'Shift', [], [q])] * rs[q]


def phase_only(rng, rs):
    qs = [q for q in range(len(rs)) if rs[q] == 2]
    if not qs:
        return [('g', 'Clock', [], [0])] * rs[0]
    q = rng.choice(qs)
    return [rng.choice([('g', 'RZ', [8], [q]), ('g', 'RX', [8], [q]), ('g', 'U3', [8, 0, 0], [q])])]      # = -identity


def relative_phase(rng, rs):
    q = rng.randrange(len(rs))
    return [('g', rng.choice(['T', 'S', 'Z', 'SqrtT']), [], [q])] if rs[q] == 2 else [('g', 'Clock', [], [q])]


def is_zero(x):
    """cost < 1e-10; a residual vector counts through its sum of squares."""
    x = np.asarray(x, dtype=float)
    return bool((abs(float(x)) if x.ndim == 0 else float(np.sum(np.square(x)))) < EPS)


def routes(circ, target):
    from bqskit.ir.opt.cost.functions import HilbertSchmidtCostGenerator, HilbertSchmidtResidualsGenerator
    out = []
    for label, gen in (('cost', HilbertSchmidtCostGenerator()), ('residuals', HilbertSchmidtResidualsGenerator())):
        out.append({'route': label + '/calc_cost', 'zero': is_zero(gen.calc_cost(circ, target))})
        fn = gen.gen_cost(circ, target)
        out.append({'route': label + '/get_cost', 'zero': is_zero(fn.get_cost(circ.params))})
        if label == 'cost':
            out.append({'route': label + '/__call__', 'zero': is_zero(fn(circ.params))})
        else:
            # The residual *vector* (__call__ / get_residuals) is Re/Im of (target^dagger U - I): it is not invariant under a
            # global phase of the target although its scalar get_cost is.  The statement's "zero exactly when equal up to global
            # phase" is read (weaker reading) as the scalar cost; the vector is only recorded (coverage: residual_vector_*).
            info = is_zero(fn(circ.params))
    return out, info


def observe_zero(recipe):
    """recipe: rs, plan, tplan, tkind, python, variant, seed."""
    from bqskit.qis.state.state import StateVector
    from bqskit.qis.state.system import StateSystem
    from bqskit.qis.unitary.unitarymatrix import UnitaryMatrix
    rng = random.Random(recipe['seed'])
    rs = tuple(recipe['rs'])
    circ, ops = c06.build(rs, recipe['plan'])
    tcirc, tops = c06.build(rs, recipe['tplan'])
    dim = int(np.prod(rs))
    Ut = exact.own_unitary(tcirc)              # the harness's own contraction: the target is an input, not an observation
    gph = np.exp(1j * rng.uniform(0, 2 * math.pi)) if rng.random() < 0.8 else 1.0
    case = {'kind': 'zero', 'r': list(rs), 'ops': ops, 'tops': tops, 'tkind': recipe['tkind'], 'tstate': {'idx': 0, 'ph': 0},
            'tpairs': [{'b': 0, 'idx': 0, 'ph': 0}], 'python': bool(recipe['python']), 'variant': recipe['variant']}
    if recipe['tkind'] == 'unitary':
        target = UnitaryMatrix(Ut * gph, list(rs))
    elif recipe['tkind'] == 'state':
        v = Ut[:, 0]
        o = exact.vec_obs(v)
        if not o['within']:
            raise common.MachineryError('target state is not a basis state')
        case['tstate'] = {'idx': o['idx'], 'ph': o['ph']}
        target = StateVector(v * gph, list(rs))
    else:
        k = rng.randint(1, min(dim, 4))
        bs = rng.sample(range(dim), k)
        skew = recipe['variant'] == 'per-pair-phase'
        pairs, system = [], {}
        for j, b in enumerate(bs):
            o = exact.vec_obs(Ut[:, b])
            extra = (rng.randrange(1, 48) if (skew and j == len(bs) - 1 and len(bs) > 1) else 0)
            ph = (o['ph'] + extra) % 48
            pairs.append({'b': b, 'idx': o['idx'], 'ph': ph})
            vin = np.zeros(dim, dtype=complex)
            vin[b] = 1
            vout = np.zeros(dim, dtype=complex)
            vout[o['idx']] = np.exp(2j * np.pi * ph / 48) * gph
            system[StateVector(vin, list(rs))] = StateVector(vout, list(rs))
        case['tpairs'] = pairs
        target = StateSystem(system)
    case['obs'], case['residual_vector_zero'] = routes(circ, target)
    case['nops'] = len(ops)
    return case


def zero_recipes(rng, count):
    out = []
    variants = ['same', 'same', 'cancelling-pair', 'global-phase-gate', 'relative-phase', 'unrelated', 'unrelated']
    i = 0
    while len(out) < count:
        i += 1
        n = rng.randint(1, 3)
        rs = [rng.choice([2, 2, 3, 2, 4] if n < 3 else [2, 2, 3]) for _ in range(n)]
        python = (i % 2 == 1)
        plan = random_plan(rng, rs, rng.randint(1, 7), python)
        if plan is None:
            continue
        variant = variants[i % len(variants)]
        tplan = list(_native(plan))
        pos = rng.randint(0, len(tplan))
        if variant == 'cancelling-pair':
            tplan[pos:pos] = cancelling_pair(rng, rs)
        elif variant == 'global-phase-gate':
            tplan[pos:pos] = phase_only(rng, rs)
        elif variant == 'relative-phase':
            tplan[pos:pos] = relative_phase(rng, rs)
        elif variant == 'unrelated':
            tplan = random_plan(rng, rs, rng.randint(1, 7), False)
        tkind = ['unitary', 'unitary', 'state', 'system'][(i // 7) % 4]
        if tkind == 'system' and variant == 'same' and rng.random() < 0.5:
            variant = 'per-pair-phase'
        out.append({'how': 'zero', 'rs': rs, 'plan': plan, 'tplan': tplan, 'tkind': tkind, 'python': python, 'variant': variant,
                    'seed': rng.randrange(1 << 30)})
    return out


def _native(plan):
    """The same plan with user gates replaced by the library gate they copy (targets are built natively)."""
    from harness import usergates
    for it in plan:
        if it[0] == 'u':
            yield ('g', usergates.SEMANTICS[it[1]], it[2], it[3])
        else:
            yield it


# ------------------------------------------------------------------------------ instantiation
def template(rng, rs, python, qfactor=False):
    """A parameterised template circuit (any gates: the structure clause is discrete).  ``qfactor``: only gates the QFactor
    instantiater handles (locally optimisable in Python *and* implemented by the native engine: U3Gate e.g. is announced
    capable but makes the native code panic)."""
    from bqskit.ir import gates as G
    from bqskit.ir.circuit import Circuit
    from harness import usergates as UG
    n = len(rs)
    c = Circuit(n, list(rs))

    def one(q):
        if qfactor:
            g = rng.choice([G.RXGate(), G.RYGate(), G.U1Gate(), G.VariableUnitaryGate(1, [rs[q]])] + ([UG.PyXGate(), UG.PySGate()] if python and rs[q] == 2 else [])) \
                if rs[q] == 2 else G.VariableUnitaryGate(1, [rs[q]])
        elif rs[q] == 2:
            g = rng.choice([G.U3Gate(), G.RZGate(), G.RXGate(), G.RYGate(), G.U1Gate()] + ([UG.PyRZGate(), UG.PyXGate()] if python else []))
        else:
            g = rng.choice([G.EmbeddedGate(G.U3Gate(), [rs[q]], [[0, rs[q] - 1]]), G.ShiftGate(rs[q]), G.ClockGate(rs[q])])
        c.append_gate(g, [q], [rng.uniform(-3, 3) for _ in range(g.num_params)])
    for q in range(n):
        one(q)
    for _ in range(rng.randint(1, 4)):
        if n >= 2:
            a, b = rng.sample(range(n), 2)
            if qfactor:
                g = rng.choice([G.VariableUnitaryGate(2, [rs[a], rs[b]])] + ([UG.PyCZGate()] if python and rs[a] == rs[b] == 2 else [])
                               + ([G.CSUMGate(rs[a])] if rs[a] == rs[b] else []))
            elif rs[a] == rs[b] == 2:
                g = rng.choice([G.CXGate(), G.CZGate(), G.CPGate(), G.CRZGate(), G.RZZGate()] + ([UG.PyCZGate()] if python else []))
            elif rs[a] == rs[b]:
                g = rng.choice([G.CSUMGate(rs[a]), G.SwapGate(rs[a])])
            else:
                g = G.ControlledGate(G.ShiftGate(rs[b]), 1, [rs[a]])
            c.append_gate(g, [a, b], [rng.uniform(-3, 3) for _ in range(g.num_params)])
            one(a)
            one(b)
        else:
            one(0)
    if not qfactor and rng.random() < 0.25 and n >= 2:
        sub = Circuit(1, [rs[0]])
        sub.append_gate(G.U3Gate() if rs[0] == 2 else G.ShiftGate(rs[0]), [0])
        c.append_circuit(sub, [0], as_circuit_gate=True)
    return c


def structure_of(circ):
    return [{'c': int(c), 'loc': [int(q) for q in op.location], 'gate': str(op.gate.name), 'np': int(op.num_params)}
            for c, op in circ.operations_with_cycles()]


def make_target(rng, circ, tkind):
    from bqskit.qis.state.state import StateVector
    from bqskit.qis.state.system import StateSystem
    from bqskit.qis.unitary.unitarymatrix import UnitaryMatrix
    rs = list(circ.radixes)
    dim = int(np.prod(rs))
    if tkind == 'unitary':
        return UnitaryMatrix.random(len(rs), rs)
    if tkind == 'reachable':
        c2 = circ.copy()
        c2.set_params([rng.uniform(-3, 3) for _ in range(c2.num_params)])
        return c2.get_unitary()
    if tkind == 'state':
        return StateVector.random(len(rs), rs)
    k = rng.randint(1, min(3, dim))
    ins = rng.sample(range(dim), k)
    outs = rng.sample(range(dim), k)
    sysm = {}
    for a, b in zip(ins, outs):
        va = np.zeros(dim, dtype=complex)
        va[a] = 1
        vb = np.zeros(dim, dtype=complex)
        vb[b] = 1
        sysm[StateVector(va, rs)] = StateVector(vb, rs)
    return StateSystem(sysm)


class _Log:
    def __init__(self):
        self.cands = []


def recording_instantiaters():
    """Recording subclasses (documented extension point: 'you should subclass an Instantiater')."""
    from bqskit.ir.opt.instantiater import Instantiater
    from bqskit.ir.opt.instantiaters import Minimization, QFactor

    class Recording(Instantiater):
        """Delegates to an inner instantiater (or returns the start unchanged) and logs every candidate; the multi-start
        logic is the inherited Instantiater.multi_start_instantiate_inplace."""

        def __init__(self, inner, passthrough=()):
            self.inner = inner
            self.passthrough = set(passthrough)
            self.log = _Log()

        def instantiate(self, circuit, target, x0):
            i = len(self.log.cands)
            x = np.array(x0, dtype=float) if i in self.passthrough or self.inner is None else np.array(self.inner.instantiate(circuit, target, x0))
            self.log.cands.append(x.copy())
            return x

        @staticmethod
        def is_capable(circuit):
            return True

        @staticmethod
        def get_violation_report(circuit):
            return ''

        @staticmethod
        def get_method_name():
            return 'recording'

    class RecordingMinimization(Minimization):
        """Minimization with its own multi_start_instantiate_inplace; logs every candidate."""

        def __init__(self, passthrough=(), **kw):
            super().__init__(**kw)
            self.passthrough = set(passthrough)
            self.log = _Log()

        def instantiate(self, circuit, target, x0):
            i = len(self.log.cands)
            x = np.array(x0, dtype=float) if i in self.passthrough else np.array(super().instantiate(circuit, target, x0))
            self.log.cands.append(x.copy())
            return x

    return Recording, RecordingMinimization, QFactor, Minimization


def scaled(x):
    return int(min(2 ** 30, round(float(x) * 1e9)))


def observe_instantiate(recipe):
    """One instantiate call: structure before/after, same object; and (recording variants) the arg-min observation."""
    from bqskit.ir.opt.cost.functions import HilbertSchmidtCostGenerator
    rng = random.Random(recipe['seed'])
    Recording, RecordingMinimization, QFactor, Minimization = recording_instantiaters()
    rs = recipe['rs']
    method = recipe['method']
    if recipe['tkind'] in ('system', 'state') and method in ('qfactor', 'recording-qfactor'):
        # QFactor.instantiate raises on StateSystem (AttributeError) and StateVector (TypeError) targets although its signature
        # lists them; no clause of C19 covers that call: state/system targets go through minimization
        method = {'qfactor': 'minimization', 'recording-qfactor': 'recording-minimization'}[method]
    circ = template(rng, rs, recipe['python'], qfactor=method in ('qfactor', 'recording-qfactor'))
    target = make_target(rng, circ, recipe['tkind'])
    starts = recipe['starts']
    rec = None
    passthrough = set(i for i in range(starts) if rng.random() < recipe.get('passthrough', 0.0))
    if method == 'recording-qfactor':
        rec = Recording(QFactor() if QFactor.is_capable(circ) else None, passthrough)
    elif method == 'recording-scripted':
        rec = Recording(None, range(starts))
    elif method == 'recording-minimization':
        rec = RecordingMinimization(passthrough)
    arg = rec if rec is not None else method
    if method == 'qfactor' and not QFactor.is_capable(circ):
        arg = 'minimization'
    before, rb, nb = structure_of(circ), [int(x) for x in circ.radixes], int(circ.num_params)
    if recipe['api'] == 'circuit':
        ret = circ.instantiate(target, method=arg, multistarts=starts, seed=recipe['seed'] % 1000)
        same = ret is circ
        after_c = circ
    else:                                  # Instantiater.multi_start_instantiate: documented to return a copy
        inst = rec if rec is not None else (QFactor() if arg == 'qfactor' else Minimization())
        after_c = inst.multi_start_instantiate(circ, target, starts)
        same = True
    out = [{'kind': 'structure', 'before': before, 'after': structure_of(after_c), 'same_object': bool(same),
            'radixes_before': rb, 'radixes_after': [int(x) for x in after_c.radixes], 'nparams_before': nb,
            'nparams_after': int(after_c.num_params), 'method': method or 'auto', 'api': recipe['api'], 'tkind': recipe['tkind'],
            'starts': starts, 'python': recipe['python'], 'r': list(rs)}]
    if rec is not None:
        gen = HilbertSchmidtCostGenerator()
        t = rec.check_target(target)
        costs = []
        kept = 0
        final = np.array(after_c.params, dtype=float)
        for i, x in enumerate(rec.log.cands):
            c2 = circ.copy()
            c2.set_params(x)
            costs.append(scaled(gen.calc_cost(c2, t)))
            if kept == 0 and len(x) == len(final) and np.array_equal(x, final):
                kept = i + 1
        out.append({'kind': 'argmin', 'starts': starts, 'costs': costs, 'kept': kept, 'kept_cost': scaled(gen.calc_cost(after_c, t)),
                    'tol': 2, 'method': method, 'api': recipe['api'], 'tkind': recipe['tkind'], 'python': recipe['python'], 'r': list(rs),
                    'spread': (max(costs) - min(costs)) if costs else 0})
    return out


def instantiate_recipes(rng, count):
    out = []
    methods = ['qfactor', 'minimization', None, 'recording-qfactor', 'recording-scripted', 'recording-minimization', 'recording-scripted',
               'recording-minimization']
    for i in range(count):
        n = rng.randint(1, 3)
        rs = [rng.choice([2, 2, 2, 3]) for _ in range(n)]
        if int(np.prod(rs)) > 18:
            rs = rs[:2]
        method = methods[i % len(methods)]
        rec = method is not None and method.startswith('recording')
        out.append({'how': 'instantiate', 'rs': rs, 'python': i % 4 == 1, 'tkind': ['unitary', 'reachable', 'state', 'system'][(i // 3) % 4],
                    'starts': rng.randint(2, 5) if rec else rng.randint(1, 4), 'method': method,
                    'api': 'circuit' if (i % 5) else 'instantiater', 'passthrough': rng.choice([0.0, 0.5]),
                    'seed': rng.randrange(1 << 30)})
    return out


# ------------------------------------------------------------------------------ run
def rebuild(recipe):
    warnings.filterwarnings('ignore')
    try:
        if recipe['how'] == 'zero':
            return [observe_zero(recipe)]
        return observe_instantiate(recipe)
    except common.MachineryError:
        raise
    except BaseException as e:          # e.g. pyo3 PanicException from the native engine: not an observation of any C19 clause
        return [{'kind': 'unobservable', 'error': '%s: %s' % (type(e).__name__, str(e)[:200]), 'how': recipe['how'],
                 'method': str(recipe.get('method')), 'tkind': recipe.get('tkind', '')}]


def key_of(case, clause):
    parts = clause.split(':')
    k = {'clause': parts[0], 'kind': case['kind']}
    if len(parts) > 1:
        k['sub'] = parts[1]
    if len(parts) > 2:
        k['route'] = parts[2]
    for f in ('tkind', 'python', 'variant', 'method', 'api'):
        if f in case:
            k[f] = case[f]
    return k


def run(ctx: Ctx) -> Outcome:
    common.use_repo()
    warnings.filterwarnings('ignore')
    out = Outcome('C19')
    laws = {}

    def laws_pass():
        cfg = 'MonoLawsCost.cfg' if ctx.quick else 'MonoLawsCostT.cfg'
        laws[cfg] = common.tlc(LAWS, os.path.join(common.SPECS, 'exact', cfg), coverage=True, scratch=ctx.scratch, timeout=3000,
                               workers=6 if ctx.quick else 'auto')
    th = None
    if ctx.replay:
        rp = ctx.replay['replay']
        recipes = [rp['recipe']]
    else:
        th = threading.Thread(target=laws_pass)
        th.start()
        rng = random.Random(ctx.seed * 1000003 + 19)
        recipes = zero_recipes(rng, 1200 if ctx.quick else 12000) + instantiate_recipes(rng, 160 if ctx.quick else 1600)
    built = exact.pmap(rebuild, recipes, procs=8, chunksize=4)
    cases, owner, unobservable = [], [], []
    for rcp, cs in zip(recipes, built):
        for c in cs:
            if c['kind'] == 'unobservable':
                unobservable.append(c)
                continue
            cases.append(c)
            owner.append(rcp)
    if len(unobservable) > len(recipes) // 10:
        raise common.MachineryError('too many calls could not be observed: %s' % unobservable[:3])
    for u in unobservable[:5]:
        out.notes.append('UNOBSERVABLE property=C19 %s' % u)
    if ctx.replay and ctx.replay.get('clause'):
        want = {'zero-set': 'zero', 'instantiate-structure': 'structure', 'multistart-argmin': 'argmin'}.get(ctx.replay['clause'])
        keep = [i for i, c in enumerate(cases) if c['kind'] == want] or list(range(len(cases)))
        cases, owner = [cases[i] for i in keep], [owner[i] for i in keep]
    verdicts, states, trans, _ = exact.par_validate(SPEC, CFG, cases, ctx.scratch, groups=6, chunk=3000)
    for idx, _step, clause, _ in verdicts:
        c = cases[idx]
        small = {k: v for k, v in c.items() if k not in ('before', 'after')}
        out.violations.append(Violation('C19', clause.split(':')[0], key_of(c, clause), '%s: %s' % (clause, str(small)[:1000]),
                                        {'case': c, 'recipe': owner[idx]}))
    laws_cov = {}
    ls = lt = 0
    if th is not None:
        th.join()
        for cfg, r in laws.items():
            if not r.ok:
                raise common.MachineryError('MonoLaws %s failed: %s' % (cfg, r.error or r.out[-1500:]))
            ls += r.distinct
            lt += r.states
            laws_cov[cfg] = {'distinct_states': r.distinct, 'states_generated': r.states, 'actions': r.coverage}
    zero = [c for c in cases if c['kind'] == 'zero']
    arg = [c for c in cases if c['kind'] == 'argmin']
    kinds = {}
    for c in cases:
        kinds[c['kind']] = kinds.get(c['kind'], 0) + 1
    out.coverage = {
        'states': states + ls, 'transitions': trans + lt,
        'traces_validated_against_impl': len(cases), 'evaluations': len(cases),
        'distinct_nontrivial': len({common.digest(c) for c in cases if c['kind'] != 'zero' or c['nops'] >= 1}),
        'rule': 'one case = one (circuit, target) pair with the boolean cost<1e-10 through five evaluation routes / one instantiate call with '
                'the op list before and after / one multi-start call with the logged candidates; seeded random; non-trivial = the circuit '
                'has at least one operation; distinct by content hash',
        'exhaustive': False,
        'by_kind': kinds, 'unobservable_calls': len(unobservable),
        'zero_set': {'pairs': len(zero), 'expected_zero_observed': sum(1 for c in zero if all(o['zero'] for o in c['obs'])),
                     'observed_nonzero': sum(1 for c in zero if not any(o['zero'] for o in c['obs'])),
                     'with_python_gates': sum(1 for c in zero if c['python']),
                     'residual_vector_nonzero_although_cost_zero': sum(1 for c in zero if all(o['zero'] for o in c['obs']) and not c['residual_vector_zero']),
                     'by_target': {k: sum(1 for c in zero if c['tkind'] == k) for k in ('unitary', 'state', 'system')},
                     'by_variant': {k: sum(1 for c in zero if c['variant'] == k) for k in sorted({c['variant'] for c in zero})}},
        'argmin': {'calls': len(arg), 'with_distinct_candidate_costs': sum(1 for c in arg if c['spread'] > 1000)},
        'algebra_model_checking': laws_cov,
        'samples': [{k: v for k, v in c.items() if k not in ('before', 'after')} for c in [cases[i] for i in sorted({min(1, len(cases) - 1), len(zero) // 2 if len(zero) // 2 < len(cases) else 0, len(cases) - 1})]],
        'checker_cmd': 'tlc -config specs/exact/CostZero.cfg specs/exact/CostZero.tla (batch, TRACE_FILE=cases.json); '
                       'tlc -coverage 1 -config specs/exact/MonoLawsCost.cfg specs/exact/MonoLaws.tla',
        'trusted_base': ['TLC', 'harness/exact.py (discretiser, own contraction for targets)', 'harness/usergates.py', 'harness/checks/c19.py'],
    }
    out.assumptions = ['circuits and targets of the zero-set clause are monomial; "zero" means cost < 1e-10',
                       'costs in the arg-min clause are compared as integers cost*1e9 with a tolerance of 2 units']
    return out
