"""C07 — every awaited runtime future resolves exactly once with its own result."""
from __future__ import annotations

import os
import random

from harness import rtcheck, rtfine, rtmodel
from harness.common import Ctx, Outcome

MANIFEST_ENTRY = dict(
    engine='runtime',
    technique='TLA+ runtime specifications (L2 Runtime.tla / WorkerFine.tla model-checked by TLC; L1 RuntimeAbs.tla trace validation) '
              'bound to the real Worker/Server/Manager/Compiler classes executed under a deterministic scheduler',
    text='The real runtime classes run in one process under a baton scheduler in which every message delivery, queue hand-off, lock '
         'acquisition and (for the worker\'s critical functions) every source line is a scheduling choice. Task-tree programs mixing '
         'submit/map/next/await orders run on 1-4 workers and 1-3 managers x 1-3 workers under random, PCT and TLC-generated schedules; '
         'every execution is recorded over the observable alphabet and validated by TLC against the L1 specification (each clause of the '
         'statement is an invariant evaluated at every event). TLC model-checks the implementation-shaped L2 specification exhaustively for '
         'small configurations and its behaviours are replayed into the real classes with the projected state compared after every action.',
    note='Trusted: TLC; the scheduler shims in harness/sim.py (per-channel FIFO, pickled payloads, one-ready-connection selects); the task '
         'interpreter in harness/rtprog.py. Interleavings are explored at scheduling-point and source-line granularity, not bytecode; '
         'schedules are sampled (random/PCT) beyond the exhaustive L2 configurations.',
    ref='DESIGN.md section 4 / C07',
)


def scenarios(ctx: Ctx):
    rng = random.Random(ctx.seed * 7919 + 7)
    n = 400 if ctx.quick else 12000
    topos = rtcheck.topologies(rng, ctx.quick)
    scs = []
    lib = ['A', 'B', 'N', 'D', 'W']
    for i in range(n):
        if i % 3 == 0:
            progs = rtcheck.LIB[lib[(i // 3) % len(lib)]]
        else:
            progs = rtcheck.gen_prog(rng, depth=rng.choice([1, 2, 2, 3]), maxfan=rng.choice([2, 3, 4]))
        topo = topos[i % len(topos)]
        nclients = 1 if topo[0] == 'attached' or rng.random() < 0.7 else 2
        clients = [[['submit', 'H%d' % c, 'root'], ['result', 'H%d' % c]] for c in range(nclients)]
        sched = ['random', ctx.seed * 100003 + i] if i % 4 else ['pct', ctx.seed * 100003 + i, rng.choice([2, 3, 5])]
        scs.append({'topo': topo, 'progs': progs, 'clients': clients, 'sched': sched, 'lines': i % 5 == 0,
                    'crash': None, 'probe': False})
    return scs


def run(ctx: Ctx) -> Outcome:
    if ctx.replay:
        if ctx.replay['replay']['scenario'].get('fine'):
            return rtfine.replay_outcome('C07', ctx)
        return rtcheck.replay_outcome('C07', ctx)
    scs = scenarios(ctx)
    # WorkerFine.tla (the worker's two threads at shared-access granularity): its TLC runs go on in the background
    fine = rtfine.start('C07', ctx)
    model_cov, guided, notes = rtmodel.model_check_and_generate('C07', ctx)
    # a few executions on real OS processes and sockets (OS scheduling), validated by the same L1 specification
    real = [{'topo': ['detached', [2]], 'progs': rtcheck.LIB[n], 'clients': [[['submit', 'H0', 'root'], ['result', 'H0']]],
             'sched': ['os'], 'lines': False, 'crash': None, 'probe': False} for n in (['W', 'N'] if ctx.quick else ['W', 'N', 'A', 'B', 'D'] * 4)]
    if os.environ.get('VERIF_SKIP_REAL'):
        # only for demonstrations on deliberately broken trees on which a real multi-process runtime hangs for minutes
        real = []
    real_traces = rtcheck.run_real_scenarios(real, ctx)
    model_cov['real_process_runs'] = len(real_traces)
    # ... its behaviours and historical counterexamples replayed into the real Worker line by line, recorded runs validated back
    fine_cov, fine_traces, fine_notes = fine.result()
    rtfine.merge(model_cov, fine_cov)
    out = rtcheck.validate('C07', scs, ctx, extra_traces=list(guided) + real_traces + fine_traces, extra_cov=model_cov)
    rtfine.annotate_residue(out)       # names the WorkerFine configuration in the key / detail of violations that came from it
    out.notes += notes + fine_notes
    out.assumptions = ['per-channel FIFO delivery; a select returns one ready connection at a time (every order is realisable by timing)',
                       'task bodies are deterministic programs over submit/map/next/await; values are task ids']
    return out
