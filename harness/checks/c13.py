"""C13 — task failures reach their client; no client request takes the server down."""
from __future__ import annotations

import itertools
import random

from harness import rtcheck, rtmodel
from harness.common import Ctx, Outcome

MANIFEST_ENTRY = dict(
    engine='runtime',
    technique='TLA+ per-compilation state machine (L1 RuntimeAbs.tla client clauses; L2 Runtime.tla client scripts model-checked by TLC) '
              'bound to the real DetachedServer/AttachedServer/Compiler classes under a deterministic scheduler',
    text='All client scripts of up to 4 calls (submit, status, result, cancel, for known, finished, cancelled and unknown ids) from 1-3 '
         'concurrent clients on a detached server (and single-client attached servers), with raising tasks at every position of the task '
         'tree, under random/PCT schedules. Every reply is judged by the L1 state machine: status consistent with the task\'s state, results '
         'only the task\'s own output, errors carrying the message of a task that really raised and only to the owning client, no request '
         'left unanswered, other clients undisturbed, and a fresh probe client can still submit and get a result afterwards. Task trees in '
         'which a descendant nobody awaits raises while the root still completes (fire-and-forget submit, early return from a next() loop), '
         'with the ERROR delivered before or AFTER the root\'s RESULT (a race scheduler steers that order): the first request the client '
         'makes after the system has settled must fail with a task error (clause raised-error-never-reported; only demanded when the raise '
         'precedes, in the trace, every event that cancels that task, and the client did not cancel the compilation). Client scripts are '
         'also derived from TLC behaviours of ServerClients.tla (disconnect with finished-unclaimed compilations, ERROR after RESULT).',
    note='Trusted as for C07. Replies the statement leaves open (cancel/status of an unknown or delivered id) may be any explicit reply; a '
         'connection dropped without a reply is a violation unless the server had already refused that client explicitly. The probe clause '
         'applies to detached servers only (an attached server belongs to its single client).',
    ref='DESIGN.md section 4 / C13',
)

CALLS = ['status', 'result', 'cancel']


def scripts_exhaustive(maxlen):
    """All scripts of <= maxlen calls over handles A (submitted first), B (submitted inside the script or never), U (unknown)."""
    out = []
    alphabet = [('submit', 'A'), ('submit', 'B')] + [(c, h) for c in CALLS for h in ('A', 'B', 'U')]
    for n in range(1, maxlen + 1):
        for seq in itertools.product(alphabet, repeat=n):
            if seq.count(('submit', 'A')) > 1 or seq.count(('submit', 'B')) > 1:
                continue
            if ('submit', 'B') in seq and ('submit', 'A') not in seq:
                continue
            if ('submit', 'A') not in seq and any(h != 'U' for _, h in seq):
                continue
            out.append([[c, h] + (['root'] if c == 'submit' else []) for c, h in seq])
    return out


def scenarios(ctx: Ctx):
    rng = random.Random(ctx.seed * 32452843 + 13)
    scs = []
    allscripts = scripts_exhaustive(3 if ctx.quick else 4)
    progsets = [rtcheck.LIB['T'], rtcheck.LIB['A'], rtcheck.LIB['R'], rtcheck.LIB['R2']]
    n = 720 if ctx.quick else 15000
    i = 0
    # single client scripts, EXHAUSTIVE over the call alphabet up to the tier's length (357 scripts of <= 3 calls, 4326 of <= 4), each
    # with a compilation that succeeds (with a failing one the script ends at the first error, so those are a sample on top)
    for s in allscripts:
        topo = ['detached', [[2], [1, 1], [1]][i % 3]] if i % 4 else ['attached', 2]
        scs.append({'topo': topo, 'progs': progsets[(i // 4) % 2], 'clients': [s], 'sched': ['random', ctx.seed * 100003 + i],
                    'lines': False, 'crash': None, 'probe': topo[0] == 'detached'})
        i += 1
    for s in rng.sample(allscripts, min(len(allscripts), 120 if ctx.quick else 3000)):
        topo = ['detached', [[2], [1, 1], [1]][i % 3]] if i % 4 else ['attached', 2]
        scs.append({'topo': topo, 'progs': progsets[2 + (i // 4) % 2], 'clients': [s], 'sched': ['random', ctx.seed * 100003 + i],
                    'lines': False, 'crash': None, 'probe': topo[0] == 'detached'})
        i += 1
    # late errors: a descendant raises while the root still completes (its future is never awaited); the ERROR may reach the
    # server before or AFTER the root's RESULT was delivered.  The client then makes one more request after the system has
    # settled: L1 demands that it fails with the task's error (raised-error-never-reported).  Needs >= 2 workers for the
    # RESULT-first order (one worker's channel is FIFO); a second, undisturbed client rides along on detached servers.
    nlate = 90 if ctx.quick else 3000
    late_topos = [['detached', [2]], ['attached', 2], ['detached', [1, 1]], ['attached', 3], ['detached', [2, 1]], ['detached', [3]]]
    for j in range(nlate):
        topo = late_topos[j % len(late_topos)]
        clients = [rtcheck.late_error_scripts(rng)]
        if topo[0] == 'detached' and rng.random() < 0.3:
            clients.append([['submit', 'O', 'leaf'], ['result', 'O']])
        # two thirds of the runs steer the race itself (RESULT of the root read before the ERROR, harness/rtdrive.py RaceSched)
        sched = [['race', ctx.seed * 100003 + i, 'root-result', 'task-error'], ['random', ctx.seed * 100003 + i],
                 ['race', ctx.seed * 100003 + i, 'root-result', 'task-error'], ['delay', ctx.seed * 100003 + i, 0.08, 50, ['server.main', 'man']],
                 ['race', ctx.seed * 100003 + i, 'root-result', 'task-error'], ['pct', ctx.seed * 100003 + i, 3]][j % 6]
        scs.append({'topo': topo, 'progs': rtcheck.gen_late_error(rng), 'clients': clients, 'sched': sched, 'lines': False,
                    'crash': None, 'probe': topo[0] == 'detached', 'family': 'late-error'})
        i += 1
    n += nlate
    # concurrent clients: client 0 runs a plain compilation, the others poke at their own, each other's and unknown ids
    while len(scs) < n:
        nc = rng.choice([2, 2, 3])
        clients = [[['submit', 'A', 'root'], ['result', 'A']]]
        for c in range(1, nc):
            L = rng.randint(1, 4)
            s = []
            mine = 'M%d' % c
            for _ in range(L):
                r = rng.random()
                if r < 0.3 and ['submit', mine, 'root'] not in s:
                    s.append(['submit', mine, 'root'])
                else:
                    s.append([rng.choice(CALLS), rng.choice([mine, 'A', 'U'])])
            clients.append(s)
        if rng.random() < 0.5:
            progs = rtcheck.gen_prog(rng, depth=rng.choice([1, 2, 3]), raise_=True)
        else:
            progs = progsets[i % len(progsets)]
        topo = ['detached', rng.choice([[1], [2], [1, 1], [2, 1]])]
        sched = ['random', ctx.seed * 100003 + i] if i % 3 else ['pct', ctx.seed * 100003 + i, 3]
        scs.append({'topo': topo, 'progs': progs, 'clients': clients, 'sched': sched, 'lines': False, 'crash': None, 'probe': True})
        i += 1
    return scs


def run(ctx: Ctx) -> Outcome:
    if ctx.replay:
        return rtcheck.replay_outcome('C13', ctx, also=('C07',))
    scs = scenarios(ctx)
    # TLC works on ServerClients.tla (JVM subprocesses) while the hand-made scenario families run in this process' worker pool
    from concurrent.futures import ThreadPoolExecutor
    with ThreadPoolExecutor(1) as ex:
        f_sc = ex.submit(rtmodel.server_clients, ctx)
        results = rtcheck.run_scenarios(scs)
        model_cov, tlc_scs = f_sc.result()
    notes = []
    results = list(results) + list(rtcheck.run_scenarios(tlc_scs))
    scs = scs + tlc_scs
    out = rtcheck.validate('C13', scs, ctx, also=('C07',), extra_cov=model_cov, results=results)
    out.notes += notes
    out.coverage['exhaustive_part'] = ('all single-client scripts of <= %d calls over {submit,status,result,cancel} x {own id A, second id B, unknown id} '
                                       '(every one of them run with a compilation that succeeds)' % (3 if ctx.quick else 4))
    out.assumptions = ['clients issue one request at a time per connection (the Compiler API is synchronous)',
                       'an explicit "Unknown task" refusal followed by the server closing that client\'s connection is the documented bad-client policy']
    return out
