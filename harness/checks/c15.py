"""C15 — scheduler bookkeeping stays in bounds and assigns every task exactly once."""
from __future__ import annotations

import random

from harness import rtcheck, rtmodel
from harness.common import Ctx, Outcome

MANIFEST_ENTRY = dict(
    engine='runtime',
    technique='TLA+ runtime specifications (L2 Runtime.tla counters and read-receipt arithmetic model-checked by TLC; L1 RuntimeAbs.tla '
              'BossState/Forward/idle-snapshot clauses) bound to the real ServerBase/Manager/Worker classes under a deterministic scheduler',
    text='After every message a server or manager handles, its own counters (idle workers, per-employee task and idle counts) are logged and '
         'checked by TLC to be in bounds; every SUBMIT/SUBMIT_BATCH put on a worker channel is logged and each task must be forwarded to '
         'exactly one worker; at the idle snapshot a server that manages workers directly must believe all idle with zero tasks. Programs '
         'vary batch sizes 1-6 against 1-4 workers and 1-3 managers, so WAITING messages cross SUBMIT_BATCH messages in flight; '
         'assign_tasks\' random choices are scheduler choices.',
    note='Trusted as for C07, plus the counter projection (wraps handle_message of the real server objects). The zero-at-idle clause applies '
         'only to flat topologies, as the statement says.',
    ref='DESIGN.md section 4 / C15',
)


def scenarios(ctx: Ctx):
    rng = random.Random(ctx.seed * 15485863 + 15)
    n = 400 if ctx.quick else 10000
    topos = rtcheck.topologies(rng, ctx.quick)
    scs = []
    for i in range(n):
        topo = topos[i % len(topos)]
        k = i % 5
        if k == 0:
            b = rng.randint(1, 6)
            progs = {'root': [['map', 'm', 'leaf', b], ['await', 'm'], ['map', 'n', 'leaf', rng.randint(1, 6)], ['await', 'n'], ['ret']], 'leaf': [['ret']]}
        elif k == 1:
            progs = {'root': [['map', 'm', 'mid', rng.randint(2, 6)], ['await', 'm'], ['ret']],
                     'mid': [['map', 'k', 'leaf', rng.randint(1, 4)], ['await', 'k'], ['ret']], 'leaf': [['ret']]}
        elif k == 2:
            progs = rtcheck.gen_prog(rng, depth=rng.choice([2, 3]), cancel=True, leftover=True, maxfan=5)
        else:
            progs = rtcheck.gen_prog(rng, depth=rng.choice([1, 2, 3]), maxfan=rng.choice([3, 5, 6]))
        nclients = 1 if topo[0] == 'attached' else rng.choice([1, 1, 2])
        clients = [[['submit', 'H%d' % c, 'root'], ['result', 'H%d' % c]] for c in range(nclients)]
        sched = ['random', ctx.seed * 100003 + i] if i % 3 else ['pct', ctx.seed * 100003 + i, rng.choice([2, 3, 5])]
        scs.append({'topo': topo, 'progs': progs, 'clients': clients, 'sched': sched, 'lines': False, 'crash': None, 'probe': False})
    return scs


def run(ctx: Ctx) -> Outcome:
    if ctx.replay:
        return rtcheck.replay_outcome('C15', ctx)
    scs = scenarios(ctx)
    model_cov, guided, notes = rtmodel.model_check_and_generate('C15', ctx)
    mg = rtmodel.managed_model(ctx)          # the manager layer (send_up_or_schedule_tasks, idle propagation, receipts)
    model_cov.update(mg)
    model_cov['l2_states'] = model_cov.get('l2_states', 0) + mg['l2_managed_states']
    model_cov['l2_transitions'] = model_cov.get('l2_transitions', 0) + mg['l2_managed_transitions']
    out = rtcheck.validate('C15', scs, ctx, extra_traces=guided, extra_cov=model_cov)
    out.notes += notes
    out.assumptions = ['ground truth for "forwarded to exactly one worker" is the set of SUBMIT/SUBMIT_BATCH payloads put on worker channels']
    return out
