"""C15 — scheduler bookkeeping stays in bounds and assigns every task exactly once."""
from __future__ import annotations

import random

from harness import rtcheck, rtmodel
from harness.common import Ctx, Outcome

MANIFEST_ENTRY = dict(
    engine='runtime',
    technique='TLA+ runtime specifications (L2 Runtime.tla counters and read-receipt arithmetic model-checked by TLC; L1 RuntimeAbs.tla '
              'BossState/Forward/idle-snapshot clauses) bound to the real ServerBase/Manager/Worker classes under a deterministic scheduler',
    text='After every message a server or manager handles, its own counters (idle workers, per-employee task and idle counts) are logged and '
         'checked by TLC to be in bounds; every SUBMIT/SUBMIT_BATCH put on a worker channel is logged and each task must be forwarded to '
         'exactly one worker; at the idle snapshot a server that manages workers directly must believe all idle with zero tasks. Programs '
         'vary batch sizes 1-6 against 1-4 workers and 1-3 managers, so WAITING messages cross SUBMIT_BATCH messages in flight; '
         'assign_tasks\' random choices are scheduler choices. The idle clause is split: idle-workers (all workers believed idle - holds '
         'with cancellations too) and task-count; every RESULT/UPDATE a worker puts on its channel is logged as the counterpart of the '
         'forwarded tasks, so L1 tells a count left for a task the worker dropped unreported (the recorded finding, explained=true) from a '
         'count kept for a task whose completion WAS reported (fresh violation). Families: line-level interleaving inside recv_incoming / '
         '_add_task / _get_next_ready_task on 1-2 workers with a delay scheduler (read receipts), and client cancels steered to cross the '
         'RESULT of the finished root (also as ClientCancel actions of Runtime.tla replayed into the real classes).',
    note='Trusted as for C07, plus the counter projection (wraps handle_message of the real server objects). The zero-at-idle clause applies '
         'only to flat topologies, as the statement says.',
    ref='DESIGN.md section 4 / C15',
)


def scenarios(ctx: Ctx):
    rng = random.Random(ctx.seed * 15485863 + 15)
    n = 300 if ctx.quick else 10000
    topos = rtcheck.topologies(rng, ctx.quick)
    scs = []
    for i in range(n):
        topo = topos[i % len(topos)]
        k = i % 5
        if k == 0:
            b = rng.randint(1, 6)
            progs = {'root': [['map', 'm', 'leaf', b], ['await', 'm'], ['map', 'n', 'leaf', rng.randint(1, 6)], ['await', 'n'], ['ret']], 'leaf': [['ret']]}
        elif k == 1:
            progs = {'root': [['map', 'm', 'mid', rng.randint(2, 6)], ['await', 'm'], ['ret']],
                     'mid': [['map', 'k', 'leaf', rng.randint(1, 4)], ['await', 'k'], ['ret']], 'leaf': [['ret']]}
        elif k == 2:
            progs = rtcheck.gen_prog(rng, depth=rng.choice([2, 3]), cancel=True, leftover=True, maxfan=5)
        else:
            progs = rtcheck.gen_prog(rng, depth=rng.choice([1, 2, 3]), maxfan=rng.choice([3, 5, 6]))
        nclients = 1 if topo[0] == 'attached' else rng.choice([1, 1, 2])
        clients = [[['submit', 'H%d' % c, 'root'], ['result', 'H%d' % c]] for c in range(nclients)]
        sched = ['random', ctx.seed * 100003 + i] if i % 3 else ['pct', ctx.seed * 100003 + i, rng.choice([2, 3, 5])]
        scs.append({'topo': topo, 'progs': progs, 'clients': clients, 'sched': sched, 'lines': False, 'crash': None, 'probe': False})
    rng2 = random.Random(ctx.seed * 6700417 + 1515)
    # read receipts at line level: the idle count is corrected "by tasks sent since the read receipt", which is only right if a
    # worker's WAITING carries a receipt consistent with what it has consumed.  One or two workers under a server that manages
    # them directly, small batches, every source line of the worker's two threads a scheduling point, and a scheduler that
    # puts a thread to sleep for long stretches (preferably the incoming thread, preferably between two lines) - so that the
    # main thread runs what was just enqueued, goes idle and reports WAITING while the incoming thread is still inside its
    # SUBMIT / SUBMIT_BATCH handler.  The evidence counts how often that happened (situations_reached.receipt_window_*).
    m = 110 if ctx.quick else 3000
    for j in range(m):
        b = rng2.randint(1, 3)
        progs = [{'root': [['ret']]},
                 {'root': [['map', 'm', 'leaf', b], ['await', 'm'], ['ret']], 'leaf': [['ret']]},
                 {'root': [['submit', 'a', 'leaf'], ['await', 'a'], ['ret']], 'leaf': [['ret']]},
                 {'root': [['map', 'm', 'mid', 2], ['await', 'm'], ['ret']], 'mid': [['submit', 'x', 'leaf'], ['await', 'x'], ['ret']], 'leaf': [['ret']]},
                 {'root': [['map', 'm', 'leaf', b], ['await', 'm'], ['submit', 'a', 'leaf'], ['await', 'a'], ['ret']], 'leaf': [['ret']]}][j % 5]
        sd = ctx.seed * 100003 + n + j
        sched = [['delay', sd, 0.06, 160, ['recv_incoming']], ['delay', sd, 0.12, 80, ['recv_incoming']], ['pct', sd, 5]][j % 3]
        scs.append({'topo': ['attached', 1 + (j % 7) % 2], 'progs': progs, 'clients': [[['submit', 'H0', 'root'], ['result', 'H0']]],
                    'sched': sched, 'lines': True, 'crash': None, 'probe': False, 'family': 'receipt-window'})
    # a client cancels its compilation around the moment it finishes: the CANCEL may be read before or after the RESULT of the
    # finished root task that is already on its way.  Either way the worker HAS finished and said so; the count must return
    # to zero.  (A count left for a task that was dropped unreported is the recorded finding; L1 tells the two apart.)
    m2 = 80 if ctx.quick else 2000
    for j in range(m2):
        progs = [{'root': [['ret']]}, rtcheck.LIB['A'], {'root': [['map', 'm', 'leaf', rng2.randint(1, 4)], ['await', 'm'], ['ret']], 'leaf': [['ret']]},
                 rtcheck.LIB['B']][j % 4]
        script = [[['submit', 'H', 'root'], ['when', 'root-result'], ['cancel', 'H']],
                  [['submit', 'H', 'root'], ['when', 'root-result'], ['cancel', 'H'], ['submit', 'H2', 'root'], ['result', 'H2']],
                  [['submit', 'H', 'root'], ['status', 'H'], ['cancel', 'H']],
                  [['submit', 'H', 'root'], ['settle'], ['cancel', 'H']],
                  [['submit', 'H', 'root'], ['cancel', 'H'], ['submit', 'H2', 'root'], ['result', 'H2']]][j % 5]
        sd = ctx.seed * 100003 + n + m + j
        sched = ['race', sd, 'client-cancel', 'root-result'] if j % 3 != 2 else ['random', sd]
        scs.append({'topo': ['attached', 1 + j % 3], 'progs': progs, 'clients': [script], 'sched': sched, 'lines': j % 4 == 3,
                    'crash': None, 'probe': False, 'family': 'cancel-crossing'})
    return scs


def run(ctx: Ctx) -> Outcome:
    if ctx.replay:
        return rtcheck.replay_outcome('C15', ctx)
    scs = scenarios(ctx)
    # TLC works on the L2 models (JVM subprocesses) while the scenarios run in this process' worker pool
    from concurrent.futures import ThreadPoolExecutor
    with ThreadPoolExecutor(2) as ex:
        f_mg = ex.submit(rtmodel.managed_model, ctx)          # the manager layer (send_up_or_schedule_tasks, idle propagation, receipts)
        f_ex = ex.submit(rtmodel.exhaustive, ctx, 'C15')
        results = rtcheck.run_scenarios(scs)
        model_cov, notes = f_ex.result()
        mg = f_mg.result()
    cov2, guided, notes2 = rtmodel.simulate_and_replay(ctx, 'C15')
    model_cov.update(cov2)
    notes = notes + notes2
    model_cov.update(mg)
    model_cov['l2_states'] = model_cov.get('l2_states', 0) + mg['l2_managed_states']
    model_cov['l2_transitions'] = model_cov.get('l2_transitions', 0) + mg['l2_managed_transitions']
    out = rtcheck.validate('C15', scs, ctx, extra_traces=guided, extra_cov=model_cov, results=results)
    out.notes += notes
    out.assumptions = ['ground truth for "forwarded to exactly one worker" is the set of SUBMIT/SUBMIT_BATCH payloads put on worker channels']
    return out
