"""C02 -- compile() output is executable on the target machine model (specs/compile/Compat.tla, Pipeline.tla, PipelineTrace.tla).

Three parts, all decided by TLC:
  1. Compat.tla on (output circuit, model) pairs of real compile() runs (circuit / unitary / state / state-system inputs,
     sparse coupling graphs, several gate sets, machine wider than the input), run through the real runtime
     (harness/simcompile.py): clauses width / radix / gate-not-native / uncoupled-location.
  2. Compat.tla on (circuit, model, placement) triples handed to MachineModel.is_compatible (exhaustive small space +
     seeded random): clause is_compatible-verdict.
  3. Pipeline.tla, model-checked on the programs extracted from the real build_workflow(): every path of the workflow
     for levels 1-4 and every input kind ends Executable; its counterexamples are replayed on the real compile()
     (part 1 decides).  PipelineTrace.tla validates the recorded pass / predicate sequence of every real run against the
     transcription of compile.py and its contracts; disagreements there are DRIFT (implementation-shaped layer), not
     violations."""
from __future__ import annotations

import itertools
import json
import os
import random
import threading

from harness import common, exact
from harness import compile_common as cc
from harness.common import Ctx, MachineryError, Outcome, Violation

D = os.path.join(common.SPECS, 'compile')
PROCS = 14       # compilations side by side (each is one mostly single-threaded process)
COMPAT, COMPAT_CFG = os.path.join(D, 'Compat.tla'), os.path.join(D, 'Compat.cfg')
PIPE = os.path.join(D, 'Pipeline.tla')
PTRACE, PTRACE_CFG = os.path.join(D, 'PipelineTrace.tla'), os.path.join(D, 'PipelineTrace.cfg')

MANIFEST_ENTRY = dict(
    engine='compile',
    technique='TLA+ definition of executability (specs/compile/Compat.tla) evaluated by TLC on outputs of real compile() runs and on '
              'is_compatible queries; TLA+ state machine of the compile() workflow (specs/compile/Pipeline.tla) model-checked by TLC on '
              'the programs extracted from the real build_workflow(), bound to the code by trace validation (PipelineTrace.tla)',
    text='(1) Outputs of real compile() runs on the real runtime (circuit, unitary, state and state-system inputs; line / ring / star / '
         'grid / tree / random connected graphs; CNOT+U3, CZ+RZ+SX, iSWAP+U3, CZ+U3+SWAP, CNOT+RZ+RX gate sets; machine wider than the '
         'input; levels 1-2 quick, 1-4 thorough) are judged by Compat.tla: width = model width, radixes equal, every non-placeholder '
         'gate native, every pair of a multi-qudit gate coupled.  (2) MachineModel.is_compatible(circuit[, placement]) is compared '
         'with the same definition on an exhaustively enumerated small space (all graphs on 3 qudits x op lists of length <= 2 x all '
         'placements x 3 gate sets; length-2 lists sampled in the quick tier) and on seeded random triples up to 5 qudits.  (3) Pipeline.tla: the workflow trees that '
         'build_workflow() really builds for levels 1-4 and the four input kinds are interpreted over an abstract circuit record '
         '(width class, fits, wide gate, multi-/single-qudit gates native, coupled, folded, connectivity extracted, measurements; 6 gate-set '
         'classes, 3 of them in the quick tier) with '
         'one contract per pass; TLC checks no run gets stuck, every run ends, and lists every terminal record that is not Executable; '
         'each such design-level counterexample is replayed on the real compile() and judged by (1).  Every real run\'s recorded pass and '
         'predicate sequence is validated against the transcription of compile.py and the contracts (reported as DRIFT if it disagrees).',
    note='Trusted: TLC; harness/compile_common.py (gate naming cross-checked against gate equality, model / input builders, the recorder '
         'that wraps Workflow.run and PassPredicate.__call__ from outside); the classification of a gate as placeholder.  The pass '
         'contracts in PipelineDefs.tla are assumptions about passes checked elsewhere (C08-C11) and hold "if the search succeeds"; '
         'gate sets without parameterised single-qudit gates are exempt from the single-qudit clause in the model (the workflow itself '
         'warns).  Vendor models and qutrit models are not explored here (C01 / C03 compile qutrit inputs).  Every run ends with an oracle '
         'self-test: corrupted copies of an accepted (output, model) observation -- narrower output, changed radix, renamed gate, entangler '
         'moved to uncoupled qudits, flipped is_compatible answer -- must each be rejected by Compat.tla with its clause.  The recorded '
         'traces are also checked (DRIFT layer) for the bookkeeping of PassData.placement / initial_mapping / final_mapping around every pass.',
    ref='DESIGN.md section 4 / C02',
)

# --------------------------------------------------------------------------- part 2: is_compatible triples
DIRECTION = {'FN': 'false-negative', 'FP': 'false-positive'}
CAUSE = {'none': 'unexplained', 'd1': 'placeholder-tested-against-gate-set', 'd2': 'placement-pair-not-sorted',
         'd3': 'barrier-counted-as-coupling', 'd23': 'barrier-with-unsorted-pair'}
TRIPLE_GATES = {'CNOT': 2, 'CZ': 2, 'U3': 1, 'H': 1, 'RZ': 1, 'CCX': 3, 'SWAP': 2}


def triple_features(ops, placement, has_pl, edges):
    es = {tuple(e) for e in edges}

    def coupled(a, b):
        pa, pb = placement[a], placement[b]
        return (min(pa, pb), max(pa, pb)) in es
    f = []
    if any(o['placeholder'] for o in ops):
        f.append('placeholder')
    if has_pl and any(placement[a] > placement[b] for o in ops for a, b in cc.all_pairs(o['loc'])):
        f.append('nonmonotone')
    if any(o['gate'] == 'barrier' and not coupled(a, b) for o in ops for a, b in cc.all_pairs(o['loc'])):
        f.append('barrier-uncoupled')
    return '+'.join(f) or 'none'


def observe_triple(t):
    """t = dict(N, n, edges, gates, ops=[(name, loc)], placement or None) -> Compat.tla case of kind 'triple'."""
    from bqskit.compiler.machine import MachineModel
    from bqskit.ir import gates as G
    from bqskit.ir.circuit import Circuit
    from bqskit.qis.graph import CouplingGraph
    names = cc.NameRegistry()
    gs = [cc.mk_gate(g) for g in t['gates'] if g != 'BARRIERS']
    if 'BARRIERS' in t['gates']:        # a user working around the placeholder test by declaring barriers native
        gs += [G.BarrierPlaceholder(k) for k in range(1, t['N'] + 1)]
    model = MachineModel(t['N'], CouplingGraph([tuple(e) for e in t['edges']], t['N']), set(gs))
    c = Circuit(t['n'])
    ops = []
    for name, loc in t['ops']:
        if name == 'barrier':
            g = G.BarrierPlaceholder(len(loc))
        elif name == 'measure':
            g = G.MeasurementPlaceholder([('c', 4)], {q: ('c', i) for i, q in enumerate(loc)})
        elif name == 'reset':
            g = G.Reset()
        else:
            g = cc.mk_gate(name)
        c.append_gate(g, loc, [0.1] * g.num_params)
        ops.append({'gate': names.name(g), 'loc': list(loc), 'placeholder': cc.is_placeholder(g)})
    has_pl = t['placement'] is not None
    placement = list(t['placement']) if has_pl else list(range(t['n']))
    try:
        v = bool(model.is_compatible(c, placement if has_pl else None))
        err = ''
    except Exception as e:      # noqa  (is_compatible documents no failure for a valid placement)
        v, err = False, repr(e)[:200]
    edges = sorted([min(a, b), max(a, b)] for a, b in t['edges'])
    return {'kind': 'triple', 'width': t['n'], 'radixes': [2] * t['n'], 'mwidth': t['N'], 'mradixes': [2] * t['N'],
            'edges': edges or [[0, 0]], 'gateset': [names.name(g) for g in gs], 'ops': ops or [{'gate': 'none', 'loc': [0], 'placeholder': True}],
            'placement': placement, 'has_placement': has_pl, 'has_verdict': True, 'verdict': v, 'err': err,
            'features': triple_features(ops, placement, has_pl, edges), 'src': t}


def triple_specs(ctx: Ctx):
    rng = random.Random(ctx.seed * 104729 + 7)
    out = []
    # exhaustive: every graph on 3 qudits x op lists of length 1..2 over a small alphabet x every placement x 3 gate sets
    N = 3
    pairs = list(itertools.combinations(range(N), 2))
    for n in (2, 3):
        alpha = [('CNOT', [0, 1]), ('CNOT', [1, 0]), ('H', [0]), ('CZ', [0, 1]), ('barrier', [0, 1]), ('measure', [1]), ('reset', [0])]
        if n == 3:
            alpha += [('CNOT', [0, 2]), ('CNOT', [2, 1]), ('barrier', [0, 2]), ('barrier', [0, 1, 2]), ('CCX', [0, 1, 2])]
        singles = [[a] for a in alpha]
        pairs_ = [[a, b] for a in alpha for b in alpha]
        if ctx.quick:       # length 1 fully, length 2 sampled
            pairs_ = rng.sample(pairs_, 3 if n == 2 else 4)
        placements = [None] + [list(p) for p in itertools.permutations(range(N), n)]
        for mask in range(2 ** len(pairs)):
            edges = [list(p) for i, p in enumerate(pairs) if mask >> i & 1]
            for gi, gates in enumerate((['CNOT', 'H'], ['CZ', 'H', 'CCX'], ['CNOT', 'H', 'CCX', 'BARRIERS'])):
                for ops in singles + pairs_:
                    # the third gate set differs from the first only for barriers (quick tier: only those op lists)
                    if ctx.quick and gi == 2 and not any(o[0] == 'barrier' for o in ops):
                        continue
                    for pl in placements:
                        out.append({'N': N, 'n': n, 'edges': edges, 'gates': gates, 'ops': ops, 'placement': pl})
    n_exh = len(out)
    # random: up to 5 qudits
    for _ in range(700 if ctx.quick else 6000):
        N = rng.randint(2, 5)
        n = rng.randint(1, N)
        edges = set()
        for v in range(1, N):
            if rng.random() < 0.85:
                edges.add((rng.randrange(v), v))
        for _ in range(rng.randint(0, 2)):
            a, b = rng.sample(range(N), 2)
            edges.add((min(a, b), max(a, b)))
        gates = rng.sample(sorted(TRIPLE_GATES), rng.randint(2, 4)) + (['BARRIERS'] if rng.random() < 0.25 else [])
        ops = []
        for _ in range(rng.randint(1, 6)):
            r = rng.random()
            if r < 0.12 and n >= 1:
                k = rng.randint(1, n)
                ops.append(('barrier', sorted(rng.sample(range(n), k)) if rng.random() < 0.7 else rng.sample(range(n), k)))
            elif r < 0.2:
                ops.append(('measure', [rng.randrange(n)]))
            elif r < 0.24:
                ops.append(('reset', [rng.randrange(n)]))
            else:
                pool = [g for g in (sorted(TRIPLE_GATES) if rng.random() < 0.3 else gates) if TRIPLE_GATES.get(g, 9) <= n] or \
                       [g for g in sorted(TRIPLE_GATES) if TRIPLE_GATES[g] <= n]
                g = rng.choice(pool)
                ops.append((g, rng.sample(range(n), TRIPLE_GATES[g])))
        pl = None
        if rng.random() < 0.6:
            pl = rng.sample(range(N), n)
            if rng.random() < 0.5:
                pl = sorted(pl)
        out.append({'N': N, 'n': n, 'edges': [list(e) for e in sorted(edges)], 'gates': gates, 'ops': [(g, list(l)) for g, l in ops], 'placement': pl})
    return out, n_exh


# --------------------------------------------------------------------------- part 1: compile cases
GS_OF_CLASS = {1: 'cx_u3', 2: 'cz_rz_sx', 3: 'cz_u3_swap', 4: 'cx_ry_rz', 5: 'cx_h_t', 6: 'cx'}      # GSList of PipelineDefs.tla


def directed_ops(w, rich):
    R = exact.op_record
    if w == 1:
        return [R('X', [], [0]), R('T', [], [0])] + ([R('H', [], [0])] if rich else [])
    if w == 2:
        return [R('CX', [], [0, 1]), R('T', [], [1])] + ([R('CY', [], [1, 0]), R('H', [], [0]), R('SWAP', [], [0, 1])] if rich else [])
    ops = [R('CX', [], [0, 1]), R('T', [], [1]), R('CX', [], [1, 2]), R('CX', [], [0, 2])]
    if rich:
        ops += [R('CCX', [], [2, 0, 1]), R('H', [], [2]), R('CZ', [], [2, 0]), R('MEASURE', [1, 0], [0, 2])]
    return ops


def input_case(kind, n, rng, radix=2):
    dim = radix ** n
    c = {'kind': kind, 'radix': radix, 'n': n}
    if kind == 'unitary':
        c['table'] = cc.random_table(rng, dim, rng.choice(['perm', 'diag', 'mono']))
    elif kind == 'state':
        c['state'] = {'idx': rng.randrange(dim), 'ph': rng.choice([0, 12, 24, 6])}
    elif kind == 'system':
        k = rng.randint(1, min(dim, 3))
        ins = rng.sample(range(dim), k)
        outs = rng.sample(range(dim), k)
        c['pairs'] = [{'i': i, 'o': o, 'ph': rng.choice([0, 12, 24])} for i, o in zip(ins, outs)]
    return c


def compile_cases(ctx: Ctx):
    rng = random.Random(ctx.seed * 15485863 + 11)
    gsq = ('cx_u3', 'cz_rz_sx', 'iswap_u3', 'cz_u3_swap', 'cx_rz_rx')
    cases = []
    # directed circuits: a triangle on a line needs swaps; CCX; non-native one- and two-qudit gates
    for w, rich, topo, extra, gs, lvl in ((3, True, 'line', 1, 'cz_rz_sx', 1), (3, False, 'line', 0, 'cx_u3', 1), (3, True, 'star', 1, 'iswap_u3', 1),
                                          (2, True, 'line', 1, 'cx_rz_rx', 1), (1, True, 'line', 2, 'cz_rz_sx', 1), (3, True, 'ring', 2, 'cz_u3_swap', 2)):
        N = w + extra
        cases.append({'kind': 'circuit', 'radix': 2, 'n': w, 'ops': directed_ops(w, rich), 'level': lvl,
                      'model': {'n': N, 'edges': cc.topo_edges(topo, N, rng), 'gates': cc.GATESETS[gs], 'radix': 2, 'topo': topo, 'gs': gs}})
    nrand = 15 if ctx.quick else 80
    for _ in range(nrand):
        n = rng.choice([1, 2, 3, 3, 4]) if ctx.quick else rng.choice([1, 2, 3, 4, 4, 5, 6])
        level = rng.choice([1, 1, 1, 2]) if ctx.quick else (rng.choice([1, 2, 3, 4]) if n <= 4 else rng.choice([1, 2]))
        ops = cc.random_ops(rng, n, 2, rng.randint(2, 4 + n), nonexact=True)
        cases.append({'kind': 'circuit', 'radix': 2, 'n': n, 'ops': ops, 'level': level, 'model': cc.model_spec(rng, n, gatesets=gsq)})
    nsyn = 6 if ctx.quick else 30
    for i in range(nsyn):
        kind = ['unitary', 'state', 'system'][i % 3]
        n = rng.choice([1, 2, 2]) if ctx.quick else rng.choice([1, 2, 2, 3])
        c = input_case(kind, n, rng)
        c['level'] = 1 if ctx.quick or kind != 'unitary' else rng.choice([1, 2, 3])
        c['model'] = cc.model_spec(rng, n, gatesets=('cx_u3', 'cz_rz_sx', 'iswap_u3'), extra=(0, 0, 0, 1))
        cases.append(c)
    return cases, rng


def finish_cases(cases, rng, quick):
    for i, c in enumerate(cases):
        c['id'] = i
        c.setdefault('workers', [2, 1, 4][i % 3])
        c.setdefault('sched', rng.randrange(1 << 20))
        c.setdefault('cseed', rng.randrange(1 << 16))
        c['trace'] = True
        c.setdefault('timeout', 200 if c['level'] <= 2 else 500)        # CPU seconds (see run_cases)
    return cases


def cex_cases(cex, rng, quick):
    """Concrete inputs for the design-level counterexamples TLC found in Pipeline.tla: one group per (kind, clause, fits, w)
    (quick tier: per (kind, clause, fits), at the smallest width it occurs at), replayed at the lowest level it occurs at
    (plus one higher level in the thorough tier)."""
    groups = {}
    for kind, level, clause, w, fits, gsi in cex:
        groups.setdefault((kind, clause, fits, w), {}).setdefault(level, set()).add(gsi)
    if quick:
        first = {}
        for (kind, clause, fits, w) in sorted(groups):
            # (width 2 where possible: a one-qudit target never needs an entangler, a three-qudit one costs minutes)
            cur = first.get((kind, clause, fits))
            if cur is None or (cur[3] != 2 and w == 2):
                first[(kind, clause, fits)] = (kind, clause, fits, w)
        groups = {g: groups[g] for g in first.values()}
    out = []
    for (kind, clause, fits, w), lv in sorted(groups.items()):
        levels = sorted(lv)[:1] if quick else sorted(lv)[:2]
        for level in levels:
            gsis = lv[level]
            gsi = 2 if 2 in gsis else min(gsis)
            gs = GS_OF_CLASS[gsi]
            N = w if fits else w + 1
            model = {'n': N, 'edges': cc.topo_edges('line', N), 'gates': cc.GATESETS[gs], 'radix': 2, 'topo': 'line', 'gs': gs}
            if kind == 'circuit':
                for rich in ((True,) if quick else (False, True)):
                    out.append({'kind': 'circuit', 'radix': 2, 'n': w, 'ops': directed_ops(w, rich), 'level': level, 'model': model,
                                'cex': [kind, level, clause, w, fits]})
            else:
                c = input_case(kind, w, rng)
                c.update(level=level, model=model, cex=[kind, level, clause, w, fits])
                out.append(c)
    return out


def gateset_desc(m):
    from bqskit.ir.gates.generalgate import GeneralGate
    names = cc.NameRegistry()
    out = []
    for g in m['gates']:
        gate = cc.mk_gate(g, m.get('radix', 2))
        out.append({'name': names.name(gate), 'ar': gate.num_qudits, 'param': not gate.is_constant(), 'general': isinstance(gate, GeneralGate)})
    return out


def trace_cases(case, res):
    out = []
    m = case['model']
    for t in res.get('traces', []):
        kind = {'Off-the-Shelf Circuit Compilation': 'circuit', 'Off-the-Shelf Unitary Synthesis': 'unitary',
                'Off-the-Shelf State Synthesis': 'state', 'Off-the-Shelf State System Synthesis': 'system'}.get(t['workflow'], 'circuit')
        out.append({'what': 'trace', 'kind': kind, 'level': case['level'], 'n': t['start']['width'], 'seeded': case.get('cseed') is not None,
                    'edges': m['edges'] or [[0, 0]], 'mwidth': m['n'], 'gateset': gateset_desc(m), 'start': t['start'], 'ev': t['ev']})
    return out


def built_programs():
    from bqskit.compiler.machine import MachineModel
    out = []
    for level in (1, 2, 3, 4):
        out.append({'kind': 'circuit', 'level': level, 'n': 0, 'prog': cc.built_program('circuit', level, n=3)})
        for kind in ('unitary', 'state', 'system'):
            for n in (1, 2, 3):
                out.append({'kind': kind, 'level': level, 'n': n, 'prog': cc.built_program(kind, level, n=n)})
    return out


REQUIRED_ACTIONS = ['UnfoldPass', 'ExtractMeasurements', 'RestoreMeasurements', 'SetModelPass', 'SetTargetPass', 'LogPass', 'LogErrorPass', 'NOOPPass',
                    'QuickPartitioner', 'ExtendBlockSizePass', 'GroupSingleQuditGatePass', 'GreedyPlacementPass', 'GeneralizedSabreLayoutPass',
                    'GeneralizedSabreRoutingPass', 'ApplyPlacement', 'ExtractModelConnectivityPass', 'RestoreModelConnectivityPass',
                    'SubtopologySelectionPass', 'PAMLayoutPass', 'PAMRoutingPass', 'QSearchSynthesisPass', 'LEAPSynthesisPass',
                    'PermutationAwareSynthesisPass', 'ScanningGateRemovalPass', 'ForEachRetargetMQ', 'ForEachRetargetSQ', 'ForEachScan',
                    'ForEachResynth', 'ForEachPAMCache', 'IfTrue', 'IfFalse', 'WhileEnter', 'WhileExit']


def model_check(ctx: Ctx, built, box):
    try:
        path = os.path.join(ctx.scratch, 'built.json')
        with open(path, 'w') as f:
            json.dump(built, f)
        cfg = os.path.join(ctx.scratch, 'PipelineBuilt.cfg')
        with open(cfg, 'w') as f:
            # quick tier: three of the six gate-set classes -- general single-qudit gate (CNOT+U3), ZX pair (CZ+RZ+SX), no single-qudit
            # gate at all (CNOT) -- which between them take every branch of the workflow (checked below: REQUIRED_ACTIONS)
            f.write('CONSTANTS\n  UseBuilt = TRUE\n  KindsUsed = {"circuit", "unitary", "state", "system"}\n  LevelsUsed = {1, 2, 3, 4}\n  GSUsed = %s\n'
                    % ('{1, 2, 6}' if ctx.quick else '{1, 2, 3, 4, 5, 6}') +
                    'SPECIFICATION Spec\nINVARIANT TypeOK\nINVARIANT NeverStuck\nINVARIANT EndsExecutable\nPROPERTY Terminates\nCHECK_DEADLOCK FALSE\n')
        box['r'] = common.tlc(PIPE, cfg, env=dict(cc.JVM_ENV, BUILT_FILE=path), coverage=True, workers=4, timeout=1500, scratch=ctx.scratch, heap='6g')
    except BaseException as e:      # noqa
        box['exc'] = e


def key_of_out(case, clause, extra):
    m = case.get('model') or {}
    k = {'clause': clause, 'kind': case['kind'], 'level': case['level'], 'gateset': m.get('gs', 'default'), 'wider': bool(m) and m['n'] > case['n'],
         'n': case['n']}
    return k


# --------------------------------------------------------------------------- oracle self-test (corrupted observations)
def corrupted_compat_cases(compat):
    """Corrupted copies of an accepted (output, model) observation with the clause Compat.tla must answer for each."""
    import copy
    out = []
    for c in compat:
        multi = [i for i, o in enumerate(c['ops']) if len(o['loc']) >= 2 and not o['placeholder']]
        if not (c['width'] == c['mwidth'] >= 3 and multi and c['verdict']):
            continue
        k = copy.deepcopy(c)
        k['width'] -= 1
        k['radixes'] = k['radixes'][:-1]
        k['placement'] = k['placement'][:-1]
        k['ops'] = [o for o in k['ops'] if max(o['loc']) < k['width']] or [{'gate': 'none', 'loc': [0], 'placeholder': True}]
        k['has_verdict'] = False
        out.append(('output-narrower-than-the-machine', k, 'width'))
        k = copy.deepcopy(c)
        k['radixes'][0] = 3
        k['has_verdict'] = False
        out.append(('output-radix-changed', k, 'radix'))
        k = copy.deepcopy(c)
        k['ops'][multi[0]]['gate'] = 'NotAGate/x'
        k['has_verdict'] = False
        out.append(('gate-renamed', k, 'gate-not-native'))
        pairs = [[a, b] for a in range(c['width']) for b in range(a + 1, c['width']) if [a, b] not in c['edges'] and [b, a] not in c['edges']]
        if pairs:
            k = copy.deepcopy(c)
            k['ops'][multi[0]]['loc'] = pairs[0] + [q for q in range(c['width']) if q not in pairs[0]][:len(k['ops'][multi[0]]['loc']) - 2]
            k['has_verdict'] = False
            out.append(('entangler-moved-to-uncoupled-qudits', k, 'uncoupled-location'))
        k = copy.deepcopy(c)
        k['verdict'] = not k['verdict']
        out.append(('is_compatible-answer-flipped', k, 'is_compatible-verdict'))
        if len(out) >= 5:
            break
    return out


def triples_part(ctx: Ctx, rp, box):
    """Part 2 (is_compatible): Compat.tla judges the observed triples (TLC runs beside the compilations; the triples
    themselves are observed before any thread or child process exists)."""
    try:
        tv, s, t_, _ = exact.par_validate(COMPAT, COMPAT_CFG, [{k: v for k, v in c.items() if k != 'src'} for c in box['triples']], ctx.scratch,
                                          groups=2 if rp is None else 1, chunk=3000, env=cc.JVM_ENV)
        box.update(tv=tv, states=s, trans=t_)
    except BaseException as e:      # noqa
        box['exc'] = e


def run(ctx: Ctx) -> Outcome:
    common.use_repo()
    out = Outcome('C02')
    rp = ctx.replay['replay'] if ctx.replay else None
    states = trans = 0
    cov = {}
    specs = []
    decided = {'width': 0, 'radix': 0, 'gate-not-native': 0, 'uncoupled-location': 0, 'is_compatible-verdict': 0}

    # ---- part 2: is_compatible -- observe now, judge in the background
    tbox = {}
    tth = None
    if rp is None or rp.get('what') == 'triple':
        if rp is None:
            tbox['specs'], tbox['n_exh'] = triple_specs(ctx)
        else:
            tbox['specs'], tbox['n_exh'] = [rp['triple']], 0
        tbox['triples'] = [observe_triple(t) for t in tbox['specs']]
    built = built_programs()

    # ---- part 3a: model-check the as-built workflow (in the background)
    box = {}
    th = None
    if rp is None:
        th = threading.Thread(target=model_check, args=(ctx, built, box))
        th.start()
    if 'triples' in tbox:
        tth = threading.Thread(target=triples_part, args=(ctx, rp, tbox))
        tth.start()

    # ---- part 1: compile
    keep = []
    timeouts = raised = rejected = 0
    selftest = {}
    cpu = 0.0
    if rp is None or rp.get('what') == 'compile':
        if rp is None:
            cases, rng = compile_cases(ctx)
            finish_cases(cases, rng, ctx.quick)
        else:
            cases, rng = [rp['case']], random.Random(0)
        results = cc.run_compile_cases(cases, procs=PROCS)
        # ---- part 3b: replay the design-level counterexamples of the model on the real code
        cex = []
        if th is not None:
            th.join()
            if 'exc' in box:
                raise box['exc']
            r = box['r']
            if not r.ok:
                raise MachineryError('TLC failed on Pipeline.tla: %s' % (r.error or r.out[-1500:]))
            states += r.distinct
            trans += r.states
            cex = sorted({tuple(p[1:7]) for p in r.prints if p and p[0] == 'CEX'})
            # (an action named after a pass can only be taken if compile() still builds a workflow with that pass; a
            # workflow that lost a pass is for Compat.tla / PipelineTrace.tla to judge, not a failure of the machinery)
            present = set()

            def leaves(prog):
                for nd in prog:
                    if nd['t'] == 'pass':
                        present.add(nd['name'])
                    elif nd['t'] == 'if':
                        leaves(nd['then']), leaves(nd['else'])
                    else:
                        leaves(nd['body'])
            for b in built:
                leaves(b['prog'])
            structural = {a for a in REQUIRED_ACTIONS if a.startswith(('ForEach', 'If', 'While'))}
            missing = [a for a in REQUIRED_ACTIONS if r.coverage.get(a, 0) == 0 and (a in structural or a in present)]
            if missing:
                raise MachineryError('Pipeline.tla: actions never taken (vacuous model): %s' % missing)
            more = finish_cases(cex_cases(cex, rng, ctx.quick), rng, ctx.quick)
            for i, c in enumerate(more):
                c['id'] = 'cex%d' % i
            results += cc.run_compile_cases(more, procs=PROCS)
            cases = cases + more
            classes = sorted({(k, l, cl, w, f) for k, l, cl, w, f, _ in cex})
            for k in sorted({(k, cl, f) for k, _, cl, _, f in classes}):
                out.notes.append('DESIGN-COUNTEREXAMPLE property=C02 Pipeline.tla: a %s input that %s the machine can end not Executable (%s) at level(s) %s; replayed on the real compile()'
                                 % (k[0], 'fits' if k[2] else 'is narrower than', k[1], sorted({l for kk, l, cl, _, f in classes if (kk, cl, f) == k})))
            cov['pipeline_model'] = {'states': r.distinct, 'transitions': r.states, 'depth': r.depth, 'wall_s': round(r.wall, 1),
                                     'action_coverage': {a: r.coverage.get(a, 0) for a in REQUIRED_ACTIONS},
                                     'counterexample_classes': [list(c) for c in classes], 'replayed': len(more),
                                     'checked': ['TypeOK', 'NeverStuck', 'EndsExecutable (total: lists every non-executable end)', 'Terminates (WF Next, SF WhileExit)']}
        compat, ptr, owner = [], [], []
        for c, r in zip(cases, results):
            if r['status'] == 'timeout':
                timeouts += 1
                out.notes.append('NOTE property=C02 case %s (%s n=%d level=%d) did not finish within %d CPU seconds: undecided' % (c.get('id'), c['kind'], c['n'], c['level'], c['timeout']))
                continue
            if r['status'] == 'harness-error':
                raise MachineryError('case %s failed inside the harness: %s\n%s' % (c.get('id'), r['exc'], r.get('tb')))
            cpu += r.get('cpu', 0)
            if r['status'] in ('raised', 'rejected'):
                raised += r['status'] == 'raised'
                rejected += r['status'] == 'rejected'
                out.notes.append('NOTE property=C02 case %s (%s radix %d n=%d level=%d): compile() %s %s at %s -- no output to judge (C01 / C03 decide failed compilations)'
                                 % (c.get('id'), c['kind'], c['radix'], c['n'], c['level'], r['status'], r['excline'][:120], r['where']))
                continue
            keep.append((c, r))
            for o in r['results']:
                cc_ = cc.compat_case_of_output(c, o)
                cc_['has_verdict'] = True
                compat.append(cc_)
                owner.append((c, r, o))
                decided['width'] += 1
                decided['radix'] += 1
                decided['gate-not-native'] += any(not x['placeholder'] for x in o['ops'])
                decided['uncoupled-location'] += any(len(x['loc']) >= 2 and not x['placeholder'] for x in o['ops'])
                decided['is_compatible-verdict'] += 1
            ptr += [(c, t) for t in trace_cases(c, r)]
        # ---- part 3c: trace validation + as-built = transcription (beside the Compat run)
        pcases = [t for _, t in ptr] + [dict(b, what='program') for b in built]
        pbox = {}

        def traces_part():
            try:
                pbox['r'] = exact.par_validate(PTRACE, PTRACE_CFG, pcases, ctx.scratch, groups=2, chunk=200, env=cc.JVM_ENV)
            except BaseException as e:      # noqa
                pbox['exc'] = e
        pth = threading.Thread(target=traces_part)
        pth.start()
        if compat:
            cv, s, t_, _ = exact.par_validate(COMPAT, COMPAT_CFG, compat, ctx.scratch, groups=1, chunk=400, env=cc.JVM_ENV)
            states += s
            trans += t_
            # oracle self-test on corrupted copies of an output the oracle accepted (second, small TLC run)
            refused = {v[0] for v in cv}
            bad = corrupted_compat_cases([c for i, c in enumerate(compat) if i not in refused]) if rp is None else []
            if bad:
                bv, s, t_, _ = exact.par_validate(COMPAT, COMPAT_CFG, [c for _, c, _ in bad], ctx.scratch, groups=1, chunk=400, env=cc.JVM_ENV)
                states += s
                trans += t_
                got = {}
                for idx, _st, clause, extra in bv:
                    got.setdefault(idx, clause)
                for i, (name, _c, want) in enumerate(bad):
                    selftest[name] = got.get(i, 'ACCEPTED')
                    if got.get(i) != want:
                        raise MachineryError('C02 oracle self-test: corrupted observation %r was judged %r, expected %r' % (name, got.get(i, 'accepted'), want))
            for idx, _st, clause, extra in cv:
                c, r, o = owner[idx]
                native = set(compat[idx]['gateset'])
                key = key_of_out(c, clause, extra)
                if clause == 'gate-not-native':
                    off = [x for x in o['ops'] if not x['placeholder'] and x['gate'] not in native]
                    key['offending'] = ','.join(sorted({x['gate'] for x in off}))
                    key['offending_arity'] = 'single-qudit' if all(len(x['loc']) == 1 for x in off) else 'multi-qudit'
                if clause == 'is_compatible-verdict':
                    key.update(input='compile-output', direction=DIRECTION[extra[0]], cause=CAUSE[extra[1]])
                    key.pop('level'), key.pop('gateset'), key.pop('wider'), key.pop('n'), key.pop('kind')
                detail = ('compile(%s of %d qudits, model %s, optimization_level=%d) returned a %d-qudit circuit with gates %s, mappings %s / %s: clause %s%s\ninput: %s'
                          % (c['kind'], c['n'], {k: v for k, v in c['model'].items() if k != 'gs'}, c['level'], o['width'], o['gate_counts'], o['pi'], o['pf'], clause,
                             ' ' + str(extra) if extra else '', json.dumps({k: c[k] for k in ('ops', 'table', 'state', 'pairs') if k in c})[:700]))
                out.violations.append(Violation('C02', clause, key, detail, {'what': 'compile', 'case': c}))
        pth.join()
        if 'exc' in pbox:
            raise pbox['exc']
        pv, s, t_, _ = pbox['r']
        states += s
        trans += t_
        drift = {}
        for idx, step, clause, _extra in pv:
            if idx < len(ptr):
                c, t = ptr[idx]
                e = t['ev'][step - 1] if 0 < step <= len(t['ev']) else {'name': '<end>', 'k': ''}
                msg = 'DRIFT property=C02 %s at event %d (%s %s) of a level-%d %s compilation (case %s)' % (clause, step, e['k'], e['name'], c['level'], t['kind'], c.get('id'))
            else:
                b = built[idx - len(ptr)]
                msg = 'DRIFT property=C02 %s: build_workflow(%s, level %d, %d qudits)' % (clause, b['kind'], b['level'], b['n'])
            drift[clause] = drift.get(clause, 0) + 1
            if drift[clause] <= 4:
                out.notes.append(msg)
        cov['pipeline_traces'] = {'traces': len(ptr), 'events': sum(len(t['ev']) for _, t in ptr), 'programs_compared': len(built), 'drift': drift}
    elif th is not None:
        th.join()

    # ---- part 2, collected
    if tth is not None:
        tth.join()
        if 'exc' in tbox:
            raise tbox['exc']
        specs, triples, tv = tbox['specs'], tbox['triples'], tbox['tv']
        states += tbox['states']
        trans += tbox['trans']
        decided['is_compatible-verdict'] += len(triples)
        for idx, _st, clause, extra in tv:
            c = triples[idx]
            direction, cause = DIRECTION[extra[0]], CAUSE[extra[1]]
            key = {'clause': clause, 'input': 'is_compatible-query', 'direction': direction, 'cause': cause, 'features': c['features']}
            if c['err']:
                key['raised'] = True
            detail = ('MachineModel(%d, edges=%s, gates=%s).is_compatible(circuit(%d qudits, ops=%s), placement=%s) = %s, the definition says %s '
                      '(cause named by the implementation-shaped reading: %s)%s'
                      % (c['mwidth'], c['src']['edges'], c['src']['gates'], c['width'], c['src']['ops'], c['src']['placement'], c['verdict'],
                         not c['verdict'], cause, ' raised ' + c['err'] if c['err'] else ''))
            out.violations.append(Violation('C02', clause, key, detail, {'what': 'triple', 'triple': c['src']}))
        feat = {}
        for c in triples:
            feat[c['features']] = feat.get(c['features'], 0) + 1
        cov['is_compatible'] = {'triples': len(triples), 'exhaustive_part': tbox['n_exh'], 'by_feature': feat,
                                'disagreements': len(tv), 'verdict_true': sum(c['verdict'] for c in triples)}

    by = {'kind': {}, 'level': {}, 'gateset': {}, 'topo': {}, 'wider': 0}
    distinct = set()
    for c, r in keep:
        m = c['model']
        for k, v in (('kind', c['kind']), ('level', c['level']), ('gateset', m.get('gs')), ('topo', m.get('topo'))):
            by[k][str(v)] = by[k].get(str(v), 0) + 1
        by['wider'] += m['n'] > c['n']
        if any(len(x['loc']) >= 2 for o in r['results'] for x in o['ops']) or c['kind'] != 'circuit' or m['n'] > c['n']:
            distinct.add(common.digest([{k: c.get(k) for k in ('kind', 'ops', 'table', 'state', 'pairs')}, m, c['level']]))
    ntr = cov.get('is_compatible', {}).get('triples', 0)
    out.coverage = dict(cov)
    out.coverage.update({
        'states': states, 'transitions': trans,
        'traces_validated_against_impl': len(keep) + cov.get('pipeline_traces', {}).get('traces', 0),
        'evaluations': len(keep) + timeouts + raised + rejected + ntr,
        'distinct_nontrivial': len(distinct) + len({common.digest(t) for t in specs}),
        'rule': 'compile cases: one real compile() call (input, model, level, workers, schedule) with its output judged by Compat.tla and its '
                'recorded pass/predicate trace validated by PipelineTrace.tla; non-trivial = output has a multi-qudit gate, or the input is a '
                'unitary/state/system, or the machine is wider than the input; distinct by hash of (input, model, level).  is_compatible '
                'triples: distinct by hash of (circuit ops, model, placement), all non-trivial (every triple has at least one operation).',
        'compile_by': by, 'compile_cases': len(keep), 'timeouts': timeouts, 'raised': raised, 'rejected': rejected, 'compile_cpu_s': round(cpu, 1),
        'clause_decisions': decided, 'oracle_selftest': selftest,
        'samples': ([{'case': c, 'output': cc.short_result(r)} for c, r in keep[:2]] + [{'triple': t} for t in specs[len(specs) // 2:len(specs) // 2 + 1]]) or [{'replay': True}],
        'exhaustive': False,
        'exhaustive_part': 'is_compatible: all graphs on 3 qudits x all placements x op lists (length 1 fully, length 2 %s) over a 7/12-op alphabet x 3 gate sets%s; '
                           'Pipeline.tla: complete state graph for 4 kinds x 4 levels x %d gate-set classes x all consistent abstract inputs'
                           % (('sampled', ' (the gate set that declares barriers native: only op lists with a barrier)', 3) if ctx.quick else ('fully', '', 6)),
        'checker_cmd': 'tlc Compat.tla (batch); tlc -coverage 1 -config PipelineBuilt.cfg Pipeline.tla (BUILT_FILE = programs extracted from build_workflow); tlc PipelineTrace.tla (batch)',
        'trusted_base': ['TLC', 'harness/compile_common.py (gate naming, builders, Workflow.run / PassPredicate.__call__ recorder)', 'harness/sim.py + simcompile.py',
                         'pass contracts of specs/compile/PipelineDefs.tla (assumptions about passes decided by C08-C11)'],
    })
    out.assumptions = ['pass contracts hold when the pass\'s search succeeds', 'placeholders = MeasurementPlaceholder, BarrierPlaceholder, Reset',
                       'multi-qudit gate: every pair of its location must be an edge (the reading is_compatible itself uses)']
    return out
