"""C16 - objects shipped between processes arrive equal (specs/objstore)."""
from __future__ import annotations

import copy
import hashlib
import json
import os
import pickle
import random

from harness import common
from harness.common import Ctx, MachineryError, Outcome, Violation

SPEC = os.path.join(common.SPECS, 'objstore', 'ObjStore.tla')
CFG = os.path.join(common.SPECS, 'objstore', 'ObjStore.cfg')
CFG_SHARING = os.path.join(common.SPECS, 'objstore', 'ObjStore_sharing.cfg')
TSPEC = os.path.join(common.SPECS, 'objstore', 'ObjStoreTrace.tla')
TCFG = os.path.join(common.SPECS, 'objstore', 'ObjStoreTrace.cfg')

MANIFEST_ENTRY = dict(
    engine='objstore',
    technique='TLA+ abstract object store (specs/objstore/ObjStore.tla: Pickle, Copy, Become, Mutate over cells) model-checked with '
              'TLC; recorded pickle/copy/become/mutate histories of real BQSKit objects judged by specs/objstore/ObjStoreTrace.tla',
    text='TLC model-checks what sharing means on an abstract store (3 handles, 2 fields): a replica equals its source in every '
         'field, mutation of one object never shows in another, become equalises every field; the same clauses are then evaluated '
         'by TLC on recorded histories of real objects: circuits reached by the C04 editing drivers (pickle, copy, become, then '
         'mutation of either side; cycle layout, operation identities, bit-equal parameters, all public views, unitary), every '
         'library gate and composed gate, Operations, CouplingGraphs with remote edges, GateSets, MachineModels, PassData with '
         'every reserved and user key (copy, become shallow and deep), and Workflows nesting every control pass with '
         'module-level callables (dill). Fields are projected by introspection of the object attributes plus the public API.',
    note='Equality of a field is decided on a canonical serialisation (floats by hex, arrays by content hash); which fields exist '
         'is found by introspection (vars()), so a new field is compared automatically, but a field that legitimately differs '
         'after a round trip (a pure cache) has to be listed in CACHE_ATTRS. Objects are shipped through pickle in-process, not '
         'through a real runtime connection.',
    ref='DESIGN.md section 4 / C16',
)

# attributes that are memo caches, filled lazily on use and irrelevant to equality (none needed so far on this tree)
CACHE_ATTRS: set = set()


# ------------------------------------------------------------------ canonical projection

def _h(s: str) -> str:
    return hashlib.sha1(s.encode()).hexdigest()[:16]


def canon(x, depth=0, seen=None):
    """Nested JSON-able structure, all leaves strings, independent of object identity and dict/set order."""
    import numpy as np
    from bqskit.ir.circuit import Circuit
    from bqskit.ir.gate import Gate
    seen = seen or ()
    if depth > 14:
        return 'too-deep'
    if x is None or isinstance(x, (bool, int)):
        return repr(x)
    if isinstance(x, float):
        return 'f:' + float(x).hex()
    if isinstance(x, complex):
        return 'c:%s,%s' % (x.real.hex(), x.imag.hex())
    if isinstance(x, str):
        return 's:' + x
    if isinstance(x, bytes):
        return 'b:' + hashlib.sha1(x).hexdigest()[:16]
    if isinstance(x, np.generic):
        return canon(x.item(), depth + 1, seen)
    if isinstance(x, np.ndarray):
        a = np.ascontiguousarray(x)
        return 'nd:%s:%s:%s' % (a.dtype, a.shape, hashlib.sha1(a.tobytes()).hexdigest()[:16])
    if id(x) in seen:
        return 'cycle'
    seen = seen + (id(x),)
    if isinstance(x, (list, tuple)):
        return [type(x).__name__] + [canon(v, depth + 1, seen) for v in x]
    if isinstance(x, (set, frozenset)):
        return ['set'] + sorted((canon(v, depth + 1, seen) for v in x), key=lambda v: json.dumps(v, sort_keys=True))
    if isinstance(x, dict):
        return ['dict'] + sorted(([canon(k, depth + 1, seen), canon(v, depth + 1, seen)] for k, v in x.items()),
                                 key=lambda v: json.dumps(v, sort_keys=True))
    if isinstance(x, Circuit):
        from harness import circuit_rec
        return {'circuit': [x.num_qudits, [int(r) for r in x.radixes], circuit_rec.snap(x), [float(p).hex() for p in x.params]]}
    if isinstance(x, type):
        return 'cls:%s.%s' % (x.__module__, x.__qualname__)
    if callable(x) and hasattr(x, '__qualname__') and not hasattr(x, '__dict__') or type(x).__name__ in ('function', 'builtin_function_or_method', 'method'):
        return 'fn:%s.%s' % (getattr(x, '__module__', '?'), getattr(x, '__qualname__', repr(x)))
    if hasattr(x, 'numpy') and hasattr(x, 'radixes'):          # UnitaryMatrix, StateVector
        return {'matrix': [type(x).__name__, canon(np.asarray(x.numpy), depth + 1, seen), [int(r) for r in x.radixes]]}
    d = None
    if hasattr(x, '__dict__'):
        d = dict(vars(x))
    elif hasattr(x, '__slots__'):
        d = {k: getattr(x, k) for k in x.__slots__ if hasattr(x, k)}
    if d is not None:
        body = {k: canon(v, depth + 1, seen) for k, v in sorted(d.items()) if k not in CACHE_ATTRS}
        return {('gate' if isinstance(x, Gate) else 'obj'): '%s.%s' % (type(x).__module__, type(x).__qualname__), 'vars': body}
    return 'repr:' + repr(x)


def fld(x) -> str:
    """One field of an abstract value: a short readable prefix plus the hash of the canonical form."""
    s = json.dumps(canon(x), sort_keys=True)
    return s if len(s) <= 60 else s[:40] + '#' + _h(s)


def attrs(x) -> dict:
    """Every instance attribute, found by introspection."""
    d = dict(vars(x)) if hasattr(x, '__dict__') else {k: getattr(x, k) for k in getattr(x, '__slots__', ()) if hasattr(x, k)}
    return {'attr:' + k: fld(v) for k, v in d.items() if k not in CACHE_ATTRS}


def value_of(x) -> dict:
    """Abstract value of an object: field name -> canonical content."""
    import numpy as np
    from bqskit.compiler.machine import MachineModel
    from bqskit.compiler.passdata import PassData
    from bqskit.compiler.workflow import Workflow
    from bqskit.ir.circuit import Circuit
    from bqskit.ir.gate import Gate
    from bqskit.ir.operation import Operation
    from harness import circuit_rec
    v = {'class': '%s.%s' % (type(x).__module__, type(x).__qualname__)}
    if isinstance(x, Circuit):
        v['num_qudits'] = str(x.num_qudits)
        v['radixes'] = fld(list(x.radixes))
        v['layout'] = fld(circuit_rec.snap(x))
        try:
            v['params'] = fld([float(p) for p in x.params])
        except Exception as e:
            v['params'] = 'raised:' + type(e).__name__
        vw = circuit_rec.views(x)
        for k in ('num_operations', 'num_params', 'depth', 'active', 'edges', 'gate_counts', 'dag', 'front', 'rear', 'first_on', 'last_on', 'iter', 'verr'):
            val = vw[k] if k != 'verr' else vw[k].split(':')[0]
            if k == 'gate_counts':          # a mapping: order of the dict is immaterial
                val = sorted(val, key=lambda e: json.dumps(e, sort_keys=True))
            v['view:' + k] = fld(val)
        try:
            if x.dim <= 64:
                u = np.round(np.asarray(x.get_unitary().numpy), 9) + 0.0
                v['unitary'] = fld(u)
            else:
                v['unitary'] = 'not-computed'
        except Exception as e:
            v['unitary'] = 'raised:' + type(e).__name__
        return v
    if isinstance(x, PassData):
        for k in x:                      # every reserved and user key, through the mapping interface
            try:
                v['key:' + k] = fld(x[k])
            except Exception as e:
                v['key:' + k] = 'raised:' + type(e).__name__
        v.update(attrs(x))
        return v
    if isinstance(x, Gate):
        for k in ('name', 'num_qudits', 'num_params', 'radixes', 'qasm_name'):
            try:
                v[k] = fld(getattr(x, k))
            except Exception as e:
                v[k] = 'raised:' + type(e).__name__
        try:
            u = np.round(np.asarray(x.get_unitary([0.1 * (i + 1) for i in range(x.num_params)]).numpy), 9) + 0.0
            v['unitary'] = fld(u)
        except Exception as e:
            v['unitary'] = 'raised:' + type(e).__name__
        v.update(attrs(x))
        return v
    if isinstance(x, Operation):
        v['gate'] = fld(x.gate)
        v['location'] = fld(list(x.location))
        v['params'] = fld([float(p) for p in x.params])
        v.update(attrs(x))
        return v
    if isinstance(x, Workflow):
        v['tree'] = fld(x)
        v['len'] = str(len(x))
        v.update(attrs(x))
        return v
    v.update(attrs(x))                   # MachineModel, CouplingGraph, GateSet, ...
    if isinstance(x, MachineModel):
        v['gate_set'] = fld(x.gate_set)
        v['coupling_graph'] = fld(x.coupling_graph)
        v['radixes'] = fld(list(x.radixes))
    return v


def eq_hash(a, b):
    """o == o' and hash(o) == hash(o') where the class defines them."""
    def owner(cls, name):
        for k in cls.__mro__:
            if name in vars(k):
                return k.__module__
        return ''
    eq = 'undefined'          # equality inherited from collections.abc / object is not BQSKit's equality
    if owner(type(a), '__eq__').startswith('bqskit'):
        try:
            r = (a == b)
            eq = 'equal' if (bool(r) if not hasattr(r, 'all') else bool(r.all())) else 'differ'
        except Exception:
            eq = 'differ'
    hs = 'undefined'
    if getattr(type(a), '__hash__', None) is not None and owner(type(a), '__hash__').startswith('bqskit'):
        try:
            hs = 'equal' if hash(a) == hash(b) else 'differ'
        except Exception:
            hs = 'undefined'
    return eq, hs


class Store:
    """Named handles of real objects; records one step per action with the values of all handles before and after."""

    def __init__(self, family, descr):
        self.objs = {}
        self.steps = []
        self.family = family
        self.descr = descr

    def vals(self):
        return {h: value_of(o) for h, o in self.objs.items()}

    def new(self, h, o):
        self.objs[h] = o

    def act(self, act, src, dst, fn, aliased=(), detail=''):
        before = self.vals()
        eq = hs = 'undefined'
        err = ''
        try:
            fn()
        except Exception as e:          # a reducer that raises is an observation: the replica does not exist
            err = '%s: %s' % (type(e).__name__, str(e)[:200])
        after = self.vals()
        if dst not in after:
            after[dst] = {'class': 'missing', 'error': err[:80]}
        elif act in ('pickle', 'copy'):
            eq, hs = eq_hash(self.objs[src], self.objs[dst])
        feat = {}
        if self.family == 'circuit' and src in self.objs:
            o = self.objs[src]
            feat['src_empty_cycle'] = any(all(o.is_point_idle((cy, q)) for q in range(o.num_qudits)) for cy in range(o.num_cycles))
        self.steps.append({'act': act, 'src': src, 'dst': dst, 'before': before, 'after': after, 'eq': eq, 'hash': hs,
                           'aliased': list(aliased), 'detail': detail, 'err': err, 'feat': feat})

    def pickle(self, src, dst):
        self.act('pickle', src, dst, lambda: self.objs.__setitem__(dst, pickle.loads(pickle.dumps(self.objs[src]))))

    def copy(self, src, dst, how=None):
        self.act('copy', src, dst, lambda: self.objs.__setitem__(dst, (how or (lambda o: o.copy()))(self.objs[src])))

    def become(self, dst, src, **kw):
        self.act('become', src, dst, lambda: self.objs[dst].become(self.objs[src], **kw), detail=json.dumps(kw))

    def mutate(self, h, fn, detail, aliased=()):
        self.act('mutate', h, h, lambda: fn(self.objs[h]), aliased=aliased, detail=detail)

    def history(self):
        return {'family': self.family, 'descr': self.descr, 'steps': self.steps}


# ------------------------------------------------------------------ object families

def circuit_histories(seed, n, ncalls):
    """Circuits reached by the C04 editing driver; store actions inserted at random points of the history."""
    import warnings
    warnings.filterwarnings('ignore')
    from bqskit.ir.circuit import Circuit
    from harness import circuit_rec as R
    out = []
    no_ren = [a for a in R.ALL_CALLS if a != 'renumber']
    for i in range(n):
        rng = random.Random(seed * 7919 + i)
        alphabet = R.ALL_CALLS if i % 3 == 0 else no_ren
        nq = rng.choice([2, 3, 3, 4, 5, 6, 7])
        radix = [rng.choice([2, 2, 2, 3, 4]) for _ in range(nq)]
        g = R.Gen(rng, alphabet)
        c = Circuit(nq, radix)
        st = Store('circuit', 'seed %d alphabet %s' % (seed * 7919 + i, 'all' if i % 3 == 0 else 'no-renumber'))
        st.new('c', c)
        calls = []
        done = 0
        tries = 0
        while done < ncalls and tries < ncalls * 5:
            tries += 1
            X = R.snap(st.objs['c'])
            if sum(len(r) for r in X['grid']) > 300:
                call = R.mkcall('pop_last')
            else:
                call = g.gen(X)
            if call is None:
                continue
            try:
                st.objs['c'] = R.exec_call(st.objs['c'], call)
            except Exception as e:
                if type(e).__name__ not in ('ValueError', 'IndexError', 'TypeError'):
                    break           # internal error: object may be half-updated (C05 reports it)
                continue
            calls.append(call)
            done += 1
            if rng.random() < 0.2:
                k = rng.random()
                if k < 0.4:
                    st.pickle('c', 'p')
                    nxt = g.gen(R.snap(st.objs['p']))
                    if nxt is not None and nxt['name'] not in ('copy', 'inverse', 'add', 'mul'):
                        st.mutate('p', lambda o, nxt=nxt: _try(R.exec_call, o, nxt), 'mutate pickled replica: ' + nxt['name'])
                elif k < 0.8:
                    st.copy('c', 'k')
                    nxt = g.gen(R.snap(st.objs['k']))
                    if nxt is not None and nxt['name'] not in ('copy', 'inverse', 'add', 'mul'):
                        if rng.random() < 0.5:
                            st.mutate('k', lambda o, nxt=nxt: _try(R.exec_call, o, nxt), 'mutate copy: ' + nxt['name'])
                        else:
                            st.mutate('c', lambda o, nxt=nxt: _try(R.exec_call, o, nxt), 'mutate original: ' + nxt['name'])
                else:
                    st.new('b', Circuit(1))
                    st.become('b', 'c')
                    nxt = g.gen(R.snap(st.objs['b']))
                    if nxt is not None and nxt['name'] not in ('copy', 'inverse', 'add', 'mul'):
                        st.mutate('b', lambda o, nxt=nxt: _try(R.exec_call, o, nxt), 'mutate receiver of become: ' + nxt['name'])
                for h in ('p', 'k', 'b'):
                    st.objs.pop(h, None)
        h = st.history()
        h['calls'] = calls
        out.append(h)
    return out


def crafted_circuit_histories():
    """Short histories that reach circuits the random driver meets rarely (a layout with an idle cycle, nested blocks)."""
    import warnings
    warnings.filterwarnings('ignore')
    from bqskit.ir.circuit import Circuit
    from harness import circuit_rec as R
    out = []

    def op(tag, loc):
        return {'tag': tag, 'kind': 'gate', 'loc': loc, 'np': 1, 'rad': [2] * len(loc), 'body': []}
    calls = [R.mkcall('append', op=op(1, [0])), R.mkcall('append', op=op(4, [1])), R.mkcall('append', op=op(5, [2])),
             R.mkcall('append', op=op(2, [0])), R.mkcall('append', op=op(3, [0]))]
    reg = [[0, 2, 2], [1, 0, 0], [2, 0, 0]]
    for name, extra in (('straighten over a gap', [R.mkcall('straighten', region=reg)]), ('fold over a gap', [R.mkcall('fold', region=reg)])):
        c = Circuit(3)
        st = Store('circuit', 'crafted: ' + name)
        try:
            for call in calls + extra:
                c = R.exec_call(c, call)
        except Exception:
            continue
        st.new('c', c)
        st.pickle('c', 'p')
        st.copy('c', 'k')
        st.new('b', Circuit(1))
        st.become('b', 'c')
        h = st.history()
        h['calls'] = calls + extra
        out.append(h)
    return out


def _try(fn, *a):
    try:
        fn(*a)
    except (ValueError, IndexError, TypeError):
        pass


GATE_ARGS = None


def gate_zoo():
    """Every class exported by bqskit.ir.gates instantiated (default arguments, or the table below), plus composed gates."""
    import inspect
    import numpy as np
    import bqskit.ir.gates as G
    from bqskit.ir.circuit import Circuit
    from bqskit.ir.gate import Gate
    from bqskit.qis.unitary.unitarymatrix import UnitaryMatrix
    sub = Circuit(2)
    sub.append_gate(G.HGate(), 0)
    sub.append_gate(G.CNOTGate(), (0, 1))
    sub.append_gate(G.U3Gate(), 1, [0.1, 0.2, 0.3])
    sub3 = Circuit(2, [2, 3])
    sub3.append_gate(G.IdentityGate(2, [2, 3]), (0, 1))
    table = {
        'ControlledGate': [lambda: G.ControlledGate(G.XGate()), lambda: G.ControlledGate(G.U3Gate(), 2), lambda: G.ControlledGate(G.ShiftGate(3), 1, 3, 2)],
        'DaggerGate': [lambda: G.DaggerGate(G.U3Gate()), lambda: G.DaggerGate(G.TGate())],
        'PowerGate': [lambda: G.PowerGate(G.SXGate(), 2), lambda: G.PowerGate(G.RZGate(), -3)],
        'FrozenParameterGate': [lambda: G.FrozenParameterGate(G.U3Gate(), {0: 0.25, 2: 1.5})],
        'TaggedGate': [lambda: G.TaggedGate(G.HGate(), 'tag'), lambda: G.TaggedGate(G.U3Gate(), {'a': 1})],
        'EmbeddedGate': [lambda: G.EmbeddedGate(G.XGate(), 3, [0, 2]), lambda: G.EmbeddedGate(G.U3Gate(), [4], [[1, 3]])],
        'CircuitGate': [lambda: G.CircuitGate(sub), lambda: G.CircuitGate(sub3)],
        'PauliGate': [lambda: G.PauliGate(1), lambda: G.PauliGate(2)],
        'PauliZGate': [lambda: G.PauliZGate(2)],
        'VariableUnitaryGate': [lambda: G.VariableUnitaryGate(2), lambda: G.VariableUnitaryGate(1, [3])],
        'ConstantUnitaryGate': [lambda: G.ConstantUnitaryGate(UnitaryMatrix.random(2)), lambda: G.ConstantUnitaryGate(np.eye(6), [2, 3])],
        'IdentityGate': [lambda: G.IdentityGate(1), lambda: G.IdentityGate(2, [3, 2])],
        'PermutationGate': [lambda: G.PermutationGate(2, [1, 0]), lambda: G.PermutationGate(3, [2, 0, 1])],
        'BarrierPlaceholder': [lambda: G.BarrierPlaceholder(2), lambda: G.BarrierPlaceholder(2, [2, 3])],
        'MeasurementPlaceholder': [lambda: G.MeasurementPlaceholder([('c', 2)], {0: ('c', 0), 1: ('c', 1)})],
        'DiagonalGate': [lambda: G.DiagonalGate(2)],
        'MPRYGate': [lambda: G.MPRYGate(3, 1)], 'MPRZGate': [lambda: G.MPRZGate(3, 1)],
        'MCRYGate': [lambda: G.MCRYGate(3, 1)], 'MCRZGate': [lambda: G.MCRZGate(3, 1)],
        'VLGGate': [lambda: G.VLGGate(G.U3Gate(), 2, [(0,), (1,)])],
        'RSU3Gate': [lambda: G.RSU3Gate(1)],
    }
    zoo, skipped = [], []
    names = sorted(getattr(G, '__all__', dir(G)))
    classes = [getattr(G, n, None) for n in names]
    classes = [c for c in classes if inspect.isclass(c) and issubclass(c, Gate)]
    for name in names:
        cls = getattr(G, name, None)
        if not inspect.isclass(cls) or not issubclass(cls, Gate) or inspect.isabstract(cls):
            continue
        if any(o is not cls and issubclass(o, cls) for o in classes):
            continue                                     # a base class of other library gates
        made = False
        for mk in table.get(name, []):
            try:
                zoo.append((name, mk()))
                made = True
            except Exception:
                pass
        if not made:
            for args in ((), (2,), (3,), (1,)):
                try:
                    zoo.append((name, cls(*args)))
                    made = True
                    break
                except Exception:
                    continue
        if not made:
            skipped.append(name)
    # the same classes constructed with KEYWORD arguments (CachedClass keys its singletons by the literal call, and the
    # reducer must ship keyword arguments too): every parameter with a default is passed by keyword with a non-default value
    kw_candidates = {'radix': [3, 4], 'num_qudits': [2, 3], 'num_levels': [3], 'radixes': [[3], [2, 3], [3, 3]],
                     'num_controls': [2], 'control_radixes': [3], 'level': [1], 'levels': [[1]], 'power': [2]}
    for name in names:
        cls = getattr(G, name, None)
        if not inspect.isclass(cls) or not issubclass(cls, Gate) or inspect.isabstract(cls):
            continue
        try:
            sig = inspect.signature(cls.__init__)
        except (TypeError, ValueError):
            continue
        pars = [q for q in list(sig.parameters.values())[1:] if q.kind in (q.POSITIONAL_OR_KEYWORD, q.KEYWORD_ONLY)]
        required = [q for q in pars if q.default is q.empty]
        for q in pars:
            if q.default is q.empty:
                continue
            for val in kw_candidates.get(q.name, []):
                if val == q.default:
                    continue
                for pos in ((), (1,), (2,), (3,)):
                    if len(pos) != len(required):
                        continue
                    try:
                        zoo.append(('%s(%s%s=%r)' % (name, ''.join('%r, ' % a for a in pos), q.name, val), cls(*pos, **{q.name: val})))
                        break
                    except Exception:
                        continue
    # composed gates stacked on each other
    zoo += [('DaggerGate(ControlledGate)', G.DaggerGate(G.ControlledGate(G.U3Gate()))),
            ('TaggedGate(CircuitGate)', G.TaggedGate(G.CircuitGate(sub), 7)),
            ('ControlledGate(CircuitGate)', G.ControlledGate(G.CircuitGate(sub))),
            ('FrozenParameterGate(ControlledGate)', G.FrozenParameterGate(G.ControlledGate(G.U3Gate()), {1: 0.5})),
            ('PowerGate(DaggerGate)', G.PowerGate(G.DaggerGate(G.SGate()), 3)),
            ('CircuitGate(nested)', G.CircuitGate(_nested(sub)))]
    return zoo, skipped


def _nested(sub):
    from bqskit.ir.circuit import Circuit
    c = Circuit(3)
    c.append_circuit(sub, (0, 2), True)
    c.append_circuit(sub, (1, 2), True)
    return c


def gate_histories():
    from bqskit.ir.operation import Operation
    zoo, skipped = gate_zoo()
    out = []
    for name, g in zoo:
        st = Store('gate', name)
        st.new('o', g)
        st.pickle('o', 'p')
        st.copy('o', 'k', how=copy.deepcopy)
        out.append(st.history())
        try:
            op = Operation(g, list(range(g.num_qudits)), [0.01 * (i + 1) for i in range(g.num_params)])
        except Exception:
            continue
        st = Store('operation', name)
        st.new('o', op)
        st.pickle('o', 'p')
        st.copy('o', 'k', how=copy.deepcopy)
        out.append(st.history())
    return out, skipped, len(zoo)


def model_histories(rng, n):
    import bqskit.ir.gates as G
    from bqskit.compiler.gateset import GateSet
    from bqskit.compiler.machine import MachineModel
    from bqskit.qis.graph import CouplingGraph
    out = []
    for i in range(n):
        nq = rng.randint(2, 8)
        edges = [(a, b) for a in range(nq) for b in range(a + 1, nq) if rng.random() < 0.5] or [(0, 1)]
        remote = [e for e in edges if rng.random() < 0.3]
        over = {e: float(rng.randint(1, 9)) for e in edges if rng.random() < 0.2}
        cg = CouplingGraph(edges, nq, remote_edges=remote, default_weight=1.0, default_remote_weight=float(rng.choice([1, 10, 100])),
                           edge_weights_overrides=over)
        radixes = [rng.choice([2, 2, 3]) for _ in range(nq)]
        gs = GateSet(rng.sample([G.U3Gate(), G.CNOTGate(), G.HGate(), G.RZGate(), G.SXGate(), G.CZGate(), G.ControlledGate(G.U3Gate()),
                                 G.TaggedGate(G.HGate(), 1), G.VariableUnitaryGate(1, [3]), G.CSUMGate(), G.ConstantUnitaryGate(G.SwapGate().get_unitary())],
                                rng.randint(1, 6)))
        for fam, obj in (('CouplingGraph', cg), ('GateSet', gs)):
            st = Store(fam, 'random %d' % i)
            st.new('o', obj)
            st.pickle('o', 'p')
            st.copy('o', 'k', how=copy.deepcopy)
            out.append(st.history())
        try:
            mm = MachineModel(nq, cg, gs, radixes)
        except Exception:
            mm = MachineModel(nq, cg, GateSet.default_gate_set(radixes) if len(set(radixes)) > 1 else gs, radixes)
        st = Store('MachineModel', 'random %d' % i)
        st.new('o', mm)
        st.pickle('o', 'p')
        st.copy('o', 'k', how=copy.deepcopy)
        st.mutate('k', lambda o: setattr(o, 'gate_set', GateSet([G.HGate()])), 'gate_set = {H} on the deep copy')
        out.append(st.history())
    return out


def passdata_histories(rng, n):
    import numpy as np
    import bqskit.ir.gates as G
    from bqskit.compiler.gateset import GateSet
    from bqskit.compiler.machine import MachineModel
    from bqskit.compiler.passdata import PassData
    from bqskit.ir.circuit import Circuit
    from bqskit.qis.graph import CouplingGraph
    from bqskit.qis.unitary.unitarymatrix import UnitaryMatrix
    out = []
    for i in range(n):
        nq = rng.randint(2, 4)
        c = Circuit(nq)
        for _ in range(rng.randint(0, 5)):
            a, b = rng.sample(range(nq), 2)
            c.append_gate(G.CNOTGate(), (a, b))
            c.append_gate(G.U3Gate(), a, [rng.random() for _ in range(3)])

        def fill(pd):
            perm = list(range(nq))
            rng.shuffle(perm)
            pd['target'] = UnitaryMatrix.random(nq)
            pd['model'] = MachineModel(nq + 1, CouplingGraph.linear(nq + 1), GateSet([G.CZGate(), G.U3Gate()]))
            pd['placement'] = list(perm)
            pd['error'] = rng.random() * 1e-3
            pd['seed'] = rng.randint(0, 10 ** 6)
            pd['initial_mapping'] = list(reversed(perm))
            pd['final_mapping'] = perm[1:] + perm[:1]
            pd['user_list'] = [1, [2, 3], {'k': 4.5}]
            pd['user_circuit'] = c.copy()
            pd['user_array'] = np.arange(6).reshape(2, 3) * 0.5
            pd['ForEachBlockPass_data'] = [[{'op': 1, 'point': (0, 0)}]]
        reserved = list(getattr(PassData, '_reserved_keys', []))
        pd = PassData(c)
        fill(pd)
        st = Store('PassData', 'filled %d (reserved keys: %s)' % (i, ','.join(reserved)))
        st.new('o', pd)
        st.pickle('o', 'p')
        st.mutate('p', lambda o: o['user_list'].append(9), 'append to user_list of the pickled replica')
        st.copy('o', 'k')
        st.mutate('k', lambda o: o['user_list'][1].append(9), 'nested append in user_list of the copy')
        st.mutate('k', lambda o: o['placement'].reverse(), 'reverse placement of the copy in place')
        st.mutate('k', lambda o: o['initial_mapping'].reverse(), 'reverse initial_mapping of the copy in place')
        st.mutate('k', lambda o: o['user_circuit'].append_gate(G.HGate(), 0), 'edit user_circuit of the copy')
        st.mutate('k', lambda o: setattr(o.model, 'gate_set', GateSet([G.HGate()])), 'model.gate_set of the copy')
        st.mutate('o', lambda o: o['final_mapping'].reverse(), 'reverse final_mapping of the original in place')
        st.new('b', PassData(Circuit(nq)))
        st.become('b', 'o')
        st.new('d', PassData(Circuit(nq)))
        st.become('d', 'o', deepcopy=True)
        st.mutate('d', lambda o: o['user_list'].append(7), 'append to user_list of the deep become receiver')
        out.append(st.history())
        st = Store('PassData', 'fresh %d' % i)     # default-valued (lazy target)
        st.new('o', PassData(c))
        st.pickle('o', 'p')
        st.copy('o', 'k')
        out.append(st.history())
    return out


def workflow_histories():
    import bqskit.ir.gates as G
    from bqskit.compiler.workflow import Workflow
    from bqskit.passes import (ChangePredicate, DoThenDecide, DoWhileLoopPass, ForEachBlockPass, GateCountPredicate, IfThenElsePass,
                               NotPredicate, ParallelDo, QuickPartitioner, ScanningGateRemovalPass, UnfoldPass, WhileLoopPass, WidthPredicate)
    from harness import c16_helpers as H
    leaf = [H.NoOpPass('a', (1, 2)), H.RecordKeyPass('k', [1, {'x': 2.5}])]
    wfs = {
        'flat': Workflow(leaf, 'flat'),
        'if': Workflow([IfThenElsePass(WidthPredicate(3), leaf, [H.NoOpPass('else')])]),
        'while': Workflow([WhileLoopPass(ChangePredicate(), [H.NoOpPass('w')]), DoWhileLoopPass(NotPredicate(GateCountPredicate(G.CNOTGate())), leaf)]),
        'foreach': Workflow([QuickPartitioner(3), ForEachBlockPass([H.NoOpPass('body'), ScanningGateRemovalPass()], collection_filter=H.only_multi_qudit,
                                                                   replace_filter=H.replace_if_shorter), UnfoldPass()]),
        'decide': Workflow([DoThenDecide(H.accept_if_smaller, [H.NoOpPass('d')]), ParallelDo([[H.NoOpPass('p1')], leaf], H.fewer_ops, True)]),
    }
    wfs['nested'] = Workflow([IfThenElsePass(NotPredicate(WidthPredicate(2)), wfs['while'], wfs['foreach']),
                              DoThenDecide(H.accept_if_smaller, wfs['decide']),
                              ForEachBlockPass(WhileLoopPass(ChangePredicate(), wfs['if']), replace_filter='less-than')], 'nested')
    out = []
    for name, wf in wfs.items():
        st = Store('Workflow', name)
        st.new('o', wf)
        st.pickle('o', 'p')
        st.copy('o', 'k', how=copy.deepcopy)
        out.append(st.history())
    return out


# ------------------------------------------------------------------ run

def key_of(h, s, clause, fields):
    key = {'clause': clause, 'family': h['family'], 'act': s['act'], 'fields': ','.join(sorted(fields))}
    key.update(s.get('feat', {}))
    if s['act'] == 'become':
        key['deepcopy'] = 'deepcopy' in s.get('detail', '') and 'true' in s.get('detail', '').lower()
    if h['family'] in ('gate', 'operation'):
        key['gate'] = h['descr']
    return key


def run(ctx: Ctx) -> Outcome:
    common.use_repo()
    import warnings
    warnings.filterwarnings('ignore')
    out = Outcome('C16')
    rng = random.Random(ctx.seed)
    # 1. the abstract store: TLC model-checks what the clauses mean; with a sharing (shallow) copy they must fail
    r = common.tlc(SPEC, CFG, coverage=True, timeout=900, scratch=ctx.scratch)
    if not r.ok:
        raise MachineryError('ObjStore model checking failed: %s' % (r.error or r.out[-1500:]))
    for a in ('New', 'Replicate', 'Become', 'Mutate'):
        if not any(k.split('@')[0] == a and n for k, n in r.coverage.items()):
            raise MachineryError('ObjStore action %s never taken' % a)
    r2 = common.tlc(SPEC, CFG_SHARING, timeout=900, scratch=ctx.scratch)
    if r2.ok or 'NoSharedState' not in r2.out and 'MutationIsLocal' not in r2.out:
        raise MachineryError('ObjStore with a sharing copy was not rejected: the sharing clauses are vacuous')
    states, trans = r.distinct + r2.distinct, r.states + r2.states
    # 2. recorded histories of real objects
    if ctx.replay:
        hists = [rebuild(ctx.replay['replay'])]
    else:
        q = ctx.quick
        hists = circuit_histories(ctx.seed, 60 if q else 600, 60 if q else 150)
        hists += crafted_circuit_histories()
        gh, skipped, nzoo = gate_histories()
        hists += gh
        hists += model_histories(rng, 15 if q else 150)
        hists += passdata_histories(rng, 6 if q else 60)
        hists += workflow_histories()
    cases = [{'steps': [{k: s[k] for k in ('act', 'src', 'dst', 'before', 'after', 'eq', 'hash', 'aliased')} for s in h['steps']]} for h in hists]
    chunk = 400
    verdicts, st, tr, results = common.batch_validate(TSPEC, TCFG, cases, ctx.scratch, chunk=chunk)
    states += st
    trans += tr
    fieldmap = {}
    for i, res in enumerate(results):
        for v in res.prints:
            if v and v[0] == 'FIELD':
                f = v[3] if isinstance(v[3], str) else '/'.join(map(str, v[3]))
                fieldmap.setdefault((i * chunk + v[1] - 1, v[2]), []).append(f)
    for idx, step, clause, extra in verdicts:
        h = hists[idx]
        s = h['steps'][step - 1]
        fields = sorted(fieldmap.get((idx, step), []))
        src, dst = s['src'], s['dst']
        lines = []
        for f in fields[:8]:
            lines.append('  %s: %r -> %r' % (f, s['before'].get(src, {}).get(f), s['after'].get(dst, {}).get(f)))
        out.violations.append(Violation('C16', clause, key_of(h, s, clause, fields),
                                        '%s %s: %s(%s -> %s) %s %s\n%s' % (h['family'], h['descr'], s['act'], src, dst, s.get('detail', ''), s.get('err', ''), '\n'.join(lines)),
                                        {'family': h['family'], 'descr': h['descr'], 'step': step - 1, 'calls': h.get('calls', []), 'seed': ctx.seed}))
    fam = {}
    acts = {}
    for h in hists:
        fam[h['family']] = fam.get(h['family'], 0) + 1
        for s in h['steps']:
            acts[s['act']] = acts.get(s['act'], 0) + 1
    nsteps = sum(len(h['steps']) for h in hists)
    distinct = len({common.digest([[s['act'], s['before'].get(s['src'])] for s in h['steps']]) for h in hists if h['steps']})
    out.coverage = {
        'states': states, 'transitions': trans,
        'traces_validated_against_impl': len(hists),
        'evaluations': nsteps, 'distinct_nontrivial': distinct,
        'rule': 'one evaluation = one store action (pickle / copy / become / mutate) on real objects with the abstract values of every '
                'live handle before and after; a case is the history of one object; distinct by hash of (action, source value) '
                'sequence; non-trivial = at least one action recorded',
        'exhaustive': False,
        'by_family': fam, 'by_action': acts,
        'gate_classes_instantiated': nzoo if not ctx.replay else 0, 'gate_classes_skipped': skipped if not ctx.replay else [],
        'abstract_store': {'distinct_states': r.distinct, 'transitions': r.states, 'coverage': r.coverage,
                           'sharing_variant_rejected_by': 'NoSharedState' if 'NoSharedState' in r2.out else 'MutationIsLocal'},
        'samples': [{'family': h['family'], 'descr': h['descr'],
                     'steps': [[s['act'], s['src'], s['dst'], s.get('detail', ''), sorted(s['before'].get(s['src'], {}).keys())[:12]] for s in h['steps'][:4]]}
                    for h in (hists[0], hists[len(hists) // 2], hists[-1])],
        'checker_cmd': 'tlc -config ObjStore.cfg ObjStore.tla (-coverage 1); tlc -config ObjStore_sharing.cfg ObjStore.tla (must fail); '
                       'tlc -config ObjStoreTrace.cfg ObjStoreTrace.tla (batch, TRACE_FILE)',
        'trusted_base': ['TLC', 'harness/checks/c16.py: canonical projection of object fields (introspection + public API)',
                         'harness/circuit_rec.py projection of circuits'],
    }
    out.assumptions = ['objects cross a pickle round trip in-process (the runtime uses the same reducers over a connection)',
                       'a field is equal when its canonical serialisation is equal (floats by hex, arrays by content hash)',
                       'become(deepcopy=False) may alias nested state by design: no mutation is performed after a shallow become']
    return out


def rebuild(rp):
    """Re-run one recorded case for --replay."""
    fam = rp['family']
    if fam == 'circuit':
        seed = int(rp['descr'].split()[1])
        for h in circuit_histories(0, 0, 0):
            pass
        hs = _circuit_history_for_seed(seed, rp)
        return hs
    pool = {'gate': lambda: gate_histories()[0], 'operation': lambda: gate_histories()[0],
            'Workflow': workflow_histories}.get(fam)
    rng = random.Random(rp.get('seed', 0))
    if pool is None:
        hs = model_histories(rng, 15) + passdata_histories(random.Random(rp.get('seed', 0)), 6)
        hs = model_histories(random.Random(rp.get('seed', 0)), 15)
        rng2 = random.Random(rp.get('seed', 0))
        model_histories(rng2, 15)
        hs += passdata_histories(rng2, 6)
    else:
        hs = pool()
    for h in hs:
        if h['family'] == fam and h['descr'] == rp['descr']:
            return h
    raise MachineryError('replay case not found: %s %s' % (fam, rp['descr']))


def _circuit_history_for_seed(seed, rp):
    base, i = divmod(seed, 7919)
    n = i + 1
    hs = circuit_histories(base, n, max(len(rp.get('calls', [])), 60))
    return hs[i]
