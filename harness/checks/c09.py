"""C09 — placement, layout and routing preserve the program and respect the coupling.

Oracles:
  * specs/mapping/RoutingAbs.tla     L1: replay of the routed output over pi and the input's dependency front
                                     (batch trace validation of real workflow runs);
  * specs/mapping/MappingAlgebra.tla L2: the mapping bookkeeping (placement, initial/final mapping, pi) as a state
                                     machine with tokens on wires, model-checked exhaustively;
  * specs/mapping/MappingTrace.tla   binds L2 to the code: per-pass snapshots of the real PassData are replayed through
                                     MappingAlgebra's actions (a mismatch is DRIFT, not a violation);
  * specs/mapping/CircuitEnum.tla    TLC enumerates the small input circuits.
Python only builds inputs, drives the real passes as coroutines, serialises what it sees, runs TLC, maps VERDICT lines.
"""
from __future__ import annotations

import itertools
import json
import os
import random
import re
import time
import warnings

from harness import common
from harness.checks import c08 as _c08          # shared input builder / identity recovery / TLC print parser
from harness.common import Ctx, MachineryError, Outcome, Violation

DIR = os.path.join(common.SPECS, 'mapping')
ABS = os.path.join(DIR, 'RoutingAbs.tla')
ABS_CFG = os.path.join(DIR, 'RoutingAbs.cfg')
ENUM = os.path.join(DIR, 'CircuitEnum.tla')
ALG = os.path.join(DIR, 'MappingAlgebra.tla')
TRACE = os.path.join(DIR, 'MappingTrace.tla')
GEN = os.path.join(DIR, 'MappingGen.tla')
TRACE_CFG = os.path.join(DIR, 'MappingTrace.cfg')

MANIFEST_ENTRY = dict(
    engine='mapping',
    technique='TLA+ L1 replay specification (specs/mapping/RoutingAbs.tla) checked by TLC on recorded outputs of the real workflow '
              '[SetModelPass, placement, GeneralizedSabreLayoutPass, GeneralizedSabreRoutingPass, ApplyPlacement]; TLA+ L2 state machine of '
              'the mapping bookkeeping (MappingAlgebra.tla) model-checked exhaustively and bound to the code by replaying per-pass '
              'PassData snapshots of the real runs through its actions (MappingTrace.tla)',
    text='The real passes, driven directly as coroutines, are run on every connected coupling graph with up to 5 vertices combined '
         'with circuits enumerated by TLC (CircuitEnum.tla: 2-4 qudits, gates of arity 1-3 in both orientations, barriers) and on seeded '
         'random connected graphs with up to 10 vertices with circuits of 2-8 qudits (3-qudit gates, barriers, partitioned blocks), with '
         'Greedy / Trivial / Static placement, 0-3 layout passes, and varied decay / extended-set parameters. TLC replays each routed '
         'circuit over pi (from the recorded initial mapping) and the dependency front of the input: swaps on edges only, every input '
         'operation once and after its predecessors, at pi of its location, multi-qudit gates on connected physical qudits, parameters '
         'unchanged, final pi = recorded final mapping, mappings injective and in range, placement connected. MappingAlgebra.tla is '
         'model-checked for up to 4 logical on up to 5 physical qudits (all connected graphs up to 4 vertices, representative ones on 5): '
         'published mappings = token positions, injectivity, range, after every action.',
    note='PAM (permutation-aware mapping: PAMLayoutPass / PAMRoutingPass and their block permutations) needs synthesis through the runtime '
         'and is NOT covered; clause block-permutation-wrong is not implemented. Measurements are not used as inputs (their classical '
         'bookkeeping belongs to C01). Runs that the passes refuse by design (trivial placement not connected, no static placement, '
         'model too small) are not cases. Inputs contain no SwapGate, so every SwapGate in the output was inserted. Trusted: TLC, the '
         'observation code in harness/checks/c09.py and the shared builder in harness/checks/c08.py.',
    ref='DESIGN.md section 4 / C09',
)

RUN_TIME_LIMIT = int(os.environ.get('VERIF_C09_PASS_LIMIT', '120'))       # seconds per pass; the router needs milliseconds

REFUSALS = ('The trivial placement is not valid', 'No valid placement found', 'Cannot layout circuit on disconnected qudits',
            'Cannot route circuit on disconnected qudits', 'Machine model is too small')


# Inputs found by a seeded search (3000 candidates, about 0.4 % hits) on which the router of the unchanged tree runs into its
# local-minimum escape DURING ROUTING (leading swaps popped from the circuit, uphill swaps): the path is too rare to rely on chance.
ESCAPE_SEEDS = [
    [9,[[0,1],[1,2],[2,3],[3,4],[4,5],[5,6],[6,7],[7,8]],{"nq":4,"ops":[{"k":"g","loc":[3,2,1],"v":2},{"k":"g","loc":[3,1],"v":2},{"k":"g","loc":[3,1],"v":5},{"k":"g","loc":[0,3,2],"v":0},{"k":"g","loc":[1,0,3],"v":0},{"k":"g","loc":[2,0,1],"v":3},{"k":"g","loc":[3,0],"v":1}]},{"placement":"greedy","layout_passes":0,"decay_delta":0.001,"decay_reset_interval":1,"decay_reset_on_gate":True,"extended_set_size":1,"extended_set_weight":1.0}],
    [7,[[0,2],[0,6],[1,3],[3,4],[3,6],[5,6]],{"nq":7,"ops":[{"k":"g","loc":[4,6],"v":5},{"k":"g","loc":[3,1],"v":2},{"k":"g","loc":[0,3,1],"v":2},{"k":"g","loc":[2,3],"v":3},{"k":"g","loc":[4,6],"v":1},{"k":"g","loc":[3,0,1],"v":1},{"k":"g","loc":[5,4,1],"v":5},{"k":"g","loc":[3,1,4],"v":2},{"k":"g","loc":[5,2,6],"v":0}]},{"placement":"greedy","layout_passes":0,"decay_delta":0.1,"decay_reset_interval":1,"decay_reset_on_gate":True,"extended_set_size":0,"extended_set_weight":0.5}],
    [7,[[0,5],[1,5],[2,3],[2,4],[2,5],[5,6]],{"nq":6,"ops":[{"k":"g","loc":[3,4,0],"v":0},{"k":"g","loc":[0,2,1],"v":4},{"k":"g","loc":[3,5],"v":0},{"k":"g","loc":[3,5,4],"v":1},{"k":"g","loc":[2,5],"v":2},{"k":"g","loc":[1,4,0],"v":5},{"k":"g","loc":[4,1,3],"v":5},{"k":"g","loc":[3,0],"v":4},{"k":"g","loc":[2,3,0],"v":0}]},{"placement":"trivial","layout_passes":0,"decay_delta":0.1,"decay_reset_interval":5,"decay_reset_on_gate":True,"extended_set_size":20,"extended_set_weight":0.5}],
    [5,[[0,1],[0,4],[1,2],[2,3],[3,4]],{"nq":4,"ops":[{"k":"g","loc":[2,3,0],"v":0},{"k":"g","loc":[2,0,1],"v":2},{"k":"g","loc":[1,2,0],"v":2},{"k":"g","loc":[0,3,2],"v":1},{"k":"g","loc":[0,1,2],"v":4},{"k":"g","loc":[0,2,3],"v":5},{"k":"g","loc":[1,2,3],"v":5},{"k":"g","loc":[1,0,3],"v":4},{"k":"g","loc":[3,2],"v":4}]},{"placement":"greedy","layout_passes":0,"decay_delta":0.001,"decay_reset_interval":5,"decay_reset_on_gate":False,"extended_set_size":20,"extended_set_weight":1.0}],
    [9,[[0,1],[0,2],[0,4],[0,7],[1,3],[2,3],[2,5],[3,4],[4,6],[4,8]],{"nq":7,"ops":[{"k":"g","loc":[6,4],"v":5},{"k":"g","loc":[2,1,4],"v":0},{"k":"g","loc":[0,6,4],"v":0},{"k":"g","loc":[3,5,0],"v":1},{"k":"g","loc":[3,0],"v":1},{"k":"g","loc":[4,3],"v":2},{"k":"g","loc":[6,3],"v":5},{"k":"g","loc":[1,2],"v":4},{"k":"g","loc":[6,0,4],"v":5},{"k":"g","loc":[0,4,5],"v":4},{"k":"g","loc":[0,6,2],"v":5}]},{"placement":"greedy","layout_passes":0,"decay_delta":0.1,"decay_reset_interval":5,"decay_reset_on_gate":True,"extended_set_size":20,"extended_set_weight":1.0}],
    [9,[[0,6],[1,2],[1,5],[1,7],[2,4],[2,8],[3,5],[3,6],[5,6]],{"nq":6,"ops":[{"k":"g","loc":[5,0,4],"v":3},{"k":"g","loc":[5,0,2],"v":4},{"k":"g","loc":[1,0,4],"v":0},{"k":"g","loc":[0,2,1],"v":0},{"k":"g","loc":[5,2,1],"v":4},{"k":"g","loc":[1,0,2],"v":5},{"k":"g","loc":[3,5,2],"v":1},{"k":"g","loc":[2,5,0],"v":1},{"k":"g","loc":[2,1,4],"v":2},{"k":"g","loc":[0,3,5],"v":4},{"k":"g","loc":[3,0,2],"v":5}]},{"placement":"greedy","layout_passes":0,"decay_delta":0.001,"decay_reset_interval":5,"decay_reset_on_gate":True,"extended_set_size":20,"extended_set_weight":0.5}],
    [7,[[0,1],[1,3],[1,4],[1,5],[2,5],[5,6]],{"nq":7,"ops":[{"k":"g","loc":[1,2],"v":5},{"k":"g","loc":[1,5,3],"v":0},{"k":"g","loc":[1,5,0],"v":0},{"k":"g","loc":[2,6,5],"v":5},{"k":"g","loc":[0,3,6],"v":0},{"k":"g","loc":[2,3,4],"v":5},{"k":"g","loc":[4,5,0],"v":3},{"k":"g","loc":[1,2,6],"v":5},{"k":"g","loc":[1,3],"v":5},{"k":"g","loc":[2,1,3],"v":3},{"k":"g","loc":[1,4,3],"v":4},{"k":"g","loc":[4,3],"v":0},{"k":"g","loc":[4,6],"v":5},{"k":"g","loc":[2,6,1],"v":1},{"k":"g","loc":[4,2],"v":0}]},{"placement":"trivial","layout_passes":0,"decay_delta":0.0,"decay_reset_interval":5,"decay_reset_on_gate":False,"extended_set_size":20,"extended_set_weight":0.5}],
    [7,[[0,5],[1,3],[1,6],[2,5],[3,4],[4,6],[5,6]],{"nq":7,"ops":[{"k":"g","loc":[3,6,5],"v":3},{"k":"g","loc":[4,6,5],"v":2},{"k":"g","loc":[4,6,5],"v":2},{"k":"g","loc":[5,4,1],"v":2},{"k":"g","loc":[6,1,0],"v":1},{"k":"g","loc":[2,0,3],"v":2},{"k":"g","loc":[4,2,6],"v":0},{"k":"g","loc":[3,1,0],"v":1},{"k":"g","loc":[5,2,6],"v":3},{"k":"g","loc":[3,5,4],"v":1},{"k":"g","loc":[4,5,2],"v":5},{"k":"g","loc":[5,6],"v":3},{"k":"g","loc":[2,3,1],"v":3},{"k":"g","loc":[0,2,3],"v":2},{"k":"g","loc":[0,1],"v":1}]},{"placement":"greedy","layout_passes":0,"decay_delta":0.001,"decay_reset_interval":5,"decay_reset_on_gate":True,"extended_set_size":1,"extended_set_weight":0.5}],
]


# ----------------------------------------------------------------------------- inputs

def connected(n, edges):
    adj = {v: set() for v in range(n)}
    for a, b in edges:
        adj[a].add(b)
        adj[b].add(a)
    seen, todo = {0}, [0]
    while todo:
        v = todo.pop()
        for u in adj[v]:
            if u not in seen:
                seen.add(u)
                todo.append(u)
    return len(seen) == n


def all_connected_graphs(n):
    pairs = list(itertools.combinations(range(n), 2))
    for mask in range(1, 2 ** len(pairs)):
        edges = [p for i, p in enumerate(pairs) if mask >> i & 1]
        if len(edges) >= n - 1 and connected(n, edges):
            yield [list(e) for e in edges]


def random_graph(rng, n):
    edges = set()
    order = list(range(n))
    rng.shuffle(order)
    for i in range(1, n):
        a, b = order[rng.randrange(i)], order[i]
        edges.add((min(a, b), max(a, b)))
    for _ in range(rng.choice([0, 0, 1, 2, n])):
        a, b = rng.sample(range(n), 2)
        edges.add((min(a, b), max(a, b)))
    return [list(e) for e in sorted(edges)]


def random_recipe(rng, n, max_ops):
    ops = []
    style = rng.choice(['mixed', 'mixed', 'far', 'three', 'blocks'])
    for _ in range(rng.randint(1, max_ops)):
        r = rng.random()
        if r < 0.06 and n >= 2:
            k = rng.randint(2, min(n, 4))
            ops.append({'k': 'b', 'loc': sorted(rng.sample(range(n), k))})
        elif style == 'blocks' and r < 0.3:
            k = rng.randint(1, min(n, 3))
            loc = rng.sample(range(n), k)
            inner = []
            if rng.random() < 0.3:        # a block of single-qudit gates only: the router may put it anywhere
                inner = [{'k': 'g', 'loc': [q], 'v': rng.randrange(6)} for q in range(k)]
            else:
                for _j in range(rng.randint(1, 3)):
                    a = rng.randint(1, k)
                    inner.append({'k': 'g', 'loc': rng.sample(range(k), a), 'v': rng.randrange(6)})
                used = {q for io in inner for q in io['loc']}
                inner += [{'k': 'g', 'loc': [q], 'v': 0} for q in range(k) if q not in used]
            ops.append({'k': 'blk', 'loc': loc, 'inner': inner})
        else:
            if style == 'three' and n >= 3:
                a = rng.choice([1, 2, 3, 3])
            elif style == 'far':
                a = 2
            else:
                a = rng.choice([1, 2, 2, 2, 3]) if n >= 3 else rng.choice([1, 2])
            a = min(a, n)
            ops.append({'k': 'g', 'loc': rng.sample(range(n), a), 'v': rng.randrange(6)})
    return {'nq': n, 'ops': ops}


def random_config(rng):
    return {'gate_count_weight': rng.choice([0.1, 0.1, 0.3, 0.0]), 'placement': rng.choice(['greedy', 'greedy', 'trivial', 'static']),
            'layout_passes': rng.choice([0, 1, 1, 2, 3]),
            'decay_delta': rng.choice([0.0, 0.001, 0.001, 0.1]),
            'decay_reset_interval': rng.choice([1, 5, 5]),
            'decay_reset_on_gate': rng.random() < 0.7,
            'extended_set_size': rng.choice([0, 1, 20, 20]),
            'extended_set_weight': rng.choice([0.0, 0.5, 0.5, 1.0])}


# ----------------------------------------------------------------------------- workflows

def single_stage(nphys, edges, cfg):
    """The one-stage workflow [SetModel, placement, (layout), routing, ApplyPlacement] as a list of steps."""
    steps = [{'kind': 'setmodel', 'flavour': '', 'n': nphys, 'edges': [list(e) for e in edges]},
             {'kind': 'place', 'flavour': cfg['placement']}]
    if cfg['layout_passes'] > 0:
        steps.append({'kind': 'layout', 'flavour': 'sabre'})
    steps += [{'kind': 'route', 'flavour': 'sabre'}, {'kind': 'apply', 'flavour': ''}]
    return steps


def as_job(j):
    """A job is {'recipe', 'steps', 'cfg'}; replay files written before workflows existed hold [nphys, edges, recipe, cfg]."""
    if isinstance(j, dict):
        return j
    nphys, edges, recipe, cfg = j
    return {'recipe': recipe, 'steps': single_stage(nphys, edges, cfg), 'cfg': cfg}


def shape_of(steps):
    return ' '.join('%s%s' % (s['kind'], (':' + s['flavour']) if s.get('flavour') else (':%d' % s['n']) if s['kind'] == 'setmodel' else '')
                    for s in steps)


def degrade(rng, n, edges):
    """The same machine with one coupler lost (still connected), or one gained."""
    edges = [list(e) for e in edges]
    rng.shuffle(edges)
    if rng.random() < 0.7:
        for e in edges:
            rest = [x for x in edges if x != e]
            if len(rest) >= n - 1 and connected(n, rest):
                return sorted(rest)
    missing = [[a, b] for a in range(n) for b in range(a + 1, n) if [a, b] not in edges]
    if missing:
        return sorted(edges + [rng.choice(missing)])
    return sorted(edges)


def scale_workflow(rng, steps, nlog):
    """The SHAPE of a TLC-generated workflow on larger machines: the order relation between the machine sizes is kept
    (same size -> same size, larger -> larger), a machine of the same size is the previous one with a coupler lost / gained
    or a fresh one."""
    sizes = sorted({s['n'] for s in steps if s['kind'] == 'setmodel'})
    lo = nlog
    newsize = {}
    for k, sz in enumerate(sizes):
        hi = max(lo, 10 - (len(sizes) - 1 - k))
        newsize[sz] = rng.randint(lo, min(hi, lo + 3))
        lo = newsize[sz] + 1
    out, prev = [], None
    for s in steps:
        s = dict(s)
        if s['kind'] == 'setmodel':
            n = min(newsize[s['n']], 10)
            if prev is not None and prev[0] == n and rng.random() < 0.7:
                edges = degrade(rng, n, prev[1])
            else:
                edges = random_graph(rng, n)
                if rng.random() < 0.5 and n >= 3:
                    edges = rng.choice([[[a, a + 1] for a in range(n - 1)], [[a, (a + 1) % n] for a in range(n)] if n > 2 else [[0, 1]],
                                        [[0, a] for a in range(1, n)]])
                    edges = sorted(sorted(e) for e in edges)
            s['n'], s['edges'] = n, edges
            prev = (n, edges)
        out.append(s)
    return out


def dense_recipe(rng, n, nops):
    """Many far-apart two- and three-qudit gates: the first routing has to move logical qudits."""
    ops = []
    for _ in range(nops):
        a = rng.choice([2, 2, 2, 3]) if n >= 3 else 2
        ops.append({'k': 'g', 'loc': rng.sample(range(n), a), 'v': rng.randrange(6)})
    return {'nq': n, 'ops': ops}


# ----------------------------------------------------------------------------- driving the real passes

def _run(p, circ, data):
    co = p.run(circ, data)
    try:
        co.send(None)
    except StopIteration:
        return
    co.close()
    raise MachineryError('%s awaited the runtime; it cannot be driven as a plain coroutine' % type(p).__name__)


def _needconn(o):
    if o['k'] == 'g':
        return len(o['loc']) > 1
    if o['k'] == 'blk':
        return len(o['loc']) > 1 and any(len(io['loc']) > 1 for io in o['inner'])
    return False


_SWAP_MSG = re.compile(r'applying swap \((\d+), (\d+)\)')
_PERM_MSG = re.compile(r'applying permutation \(([\d, ]+)\)')


def _as_blocks(circ, data):
    """What a partitioner hands to the PAM passes, in its simplest form: every operation becomes a block of its own (a CircuitGate
    on the SORTED location, the operation inside on the accordingly permuted wires); barriers stay bare."""
    from bqskit.ir.circuit import Circuit
    from bqskit.ir.gates import BarrierPlaceholder, CircuitGate
    new = Circuit(circ.num_qudits, circ.radixes)
    for op in circ:
        if isinstance(op.gate, BarrierPlaceholder):
            new.append_gate(op.gate, op.location)
            continue
        loc = sorted(int(q) for q in op.location)
        inner = Circuit(len(loc))
        inner.append_gate(op.gate, [loc.index(int(q)) for q in op.location], op.params)
        new.append_gate(CircuitGate(inner), loc, list(inner.params))
    circ.become(new)


def _connected_graphs(k):
    from bqskit.qis.graph import CouplingGraph
    if k == 1:
        return [CouplingGraph([], 1)]
    pairs = list(itertools.combinations(range(k), 2))
    out = []
    for m in range(1, 2 ** len(pairs)):
        es = [pr for i, pr in enumerate(pairs) if m >> i & 1]
        if connected(k, es):
            out.append(CouplingGraph(es, k))
    return out


def _embed_permutations(circ, data):
    """What [ForEachBlockPass(EmbedAllPermutationsPass)] leaves in the PassData, without synthesis: for every block the circuits
    that implement Po^T . U . Pi, keyed by local coupling graph and (input permutation, output permutation).  A block on one or
    three qudits is offered as it is (identity permutations) on every connected graph; a block on two qudits also with a
    SwapGate before it (input permutation (1, 0)) and / or after it (output permutation (1, 0)) -- on two qudits a permutation
    is its own inverse, so no convention is involved."""
    from bqskit.ir.circuit import Circuit
    from bqskit.ir.gates import BarrierPlaceholder, SwapGate
    from bqskit.ir.point import CircuitPoint
    from bqskit.passes.control.foreach import ForEachBlockPass
    from bqskit.qis.graph import CouplingGraph
    graphs = {k: _connected_graphs(k) for k in (1, 2, 3)}
    block_datas = []
    for cyc, op in circ.operations_with_cycles():
        if isinstance(op.gate, BarrierPlaceholder):
            continue
        k = op.num_qudits
        if k > 3:
            raise MachineryError('block on %d qudits in a PAM workflow' % k)
        ident = tuple(range(k))
        plain = Circuit(k)
        plain.append_gate(op.gate, list(range(k)), op.params)
        pd = {g: {(ident, ident): plain} for g in graphs[k]}
        if k == 2:
            for pin in ((0, 1), (1, 0)):
                for pout in ((0, 1), (1, 0)):
                    if pin == ident and pout == ident:
                        continue
                    c = Circuit(2)
                    if pin != ident:
                        c.append_gate(SwapGate(), [0, 1])
                    c.append_gate(op.gate, [0, 1], op.params)
                    if pout != ident:
                        c.append_gate(SwapGate(), [0, 1])
                    pd[CouplingGraph([(0, 1)], 2)][(pin, pout)] = c
        for q in op.location:
            block_datas.append({'point': CircuitPoint(cyc, int(q)), 'permutation_data': pd})
    data[ForEachBlockPass.key] = [block_datas]


def _observe_circuit(circ, meta):
    """The circuit as RoutingAbs reads it: swaps, barriers, identified input operations, anything else."""
    from bqskit.ir.gates import BarrierPlaceholder, CircuitGate, SwapGate, TaggedGate
    ident = _c08._Ident(meta)
    out = []
    for op in circ:
        loc = [int(q) for q in op.location]
        g = op.gate
        par = [_c08._micro(x) for x in op.params]
        if isinstance(g, SwapGate):
            out.append({'k': 's', 'id': 0, 'loc': loc, 'par': []})
        elif isinstance(g, BarrierPlaceholder):
            out.append({'k': 'b', 'id': 0, 'loc': loc, 'par': []})
        elif isinstance(g, (TaggedGate, CircuitGate)):
            i = ident.of(op, loc)
            out.append({'k': 'g' if i else 'x', 'id': i, 'loc': loc, 'par': par})
        else:
            out.append({'k': 'x', 'id': 0, 'loc': loc, 'par': par})
    return out


def observe(job):
    """job = {'recipe', 'steps', 'cfg'} -> run (JSON-able): a snapshot of PassData after every pass, the circuit at every point
    where it is as wide as the machine under the identity placement, or {'skip': reason} when the first passes already refuse."""
    job = as_job(job)
    recipe, steps, cfg = job['recipe'], job['steps'], job['cfg']
    warnings.filterwarnings('ignore')
    from bqskit import passes as P
    from bqskit.compiler.machine import MachineModel
    from bqskit.compiler.passdata import PassData
    from bqskit.ir.gates import SwapGate
    from bqskit.qis.graph import CouplingGraph
    circ, meta = _c08.build(recipe)
    n = recipe['nq']
    inseq = [[] for _ in range(n)]
    for ident, o in enumerate(recipe['ops'], 1):
        for q in o['loc']:
            inseq[q].append(ident)
    data = PassData(circ)
    sab = (cfg['decay_delta'], cfg['decay_reset_interval'], cfg['decay_reset_on_gate'], cfg['extended_set_size'], cfg['extended_set_weight'])
    # the router announces its local-minimum escape and every swap it applies to pi on the module logger (no hook needed)
    import logging

    class _Listen(logging.Handler):
        n = 0
        routing = 0
        now = ''
        swaps = []

        def emit(self, record):
            msg = record.getMessage()
            if 'backtracking' in msg:
                _Listen.n += 1
                if _Listen.now == 'route':
                    _Listen.routing += 1
            elif _Listen.now == 'route':
                m = _SWAP_MSG.match(msg)
                if m:
                    _Listen.swaps.append([0, int(m.group(1)), int(m.group(2))])
                    return
                m = _PERM_MSG.match(msg)
                if m:
                    perm = [int(x) for x in m.group(1).replace(' ', '').split(',') if x]
                    if perm != sorted(perm):          # the identity changes nothing
                        _Listen.swaps.append([1, perm[1], perm[0]] if len(perm) == 2 else [2, 0, 0])
    _Listen.n = 0
    _Listen.routing = 0
    _Listen.swaps = []
    loggers = [logging.getLogger('bqskit.passes.mapping.sabre'), logging.getLogger('bqskit.passes.mapping.pam')]
    h = _Listen(level=logging.DEBUG)
    old = [(lg.level, lg.propagate) for lg in loggers]
    old_disable = logging.root.manager.disable
    logging.disable(logging.NOTSET)
    for lg in loggers:
        lg.setLevel(logging.DEBUG)
        lg.propagate = False
        lg.addHandler(h)

    def restore():
        for lg, (lv, pr) in zip(loggers, old):
            lg.removeHandler(h)
            lg.setLevel(lv)
            lg.propagate = pr
        logging.disable(old_disable)

    def make(st):
        """The passes of one step.  A PAM step is [blocks, permutation data, the PAM pass, UnfoldPass]: the first two stand for
        the partitioner and the permutation-aware synthesis of the blocks (see _as_blocks, _embed_permutations)."""
        k, fl = st['kind'], st.get('flavour', '')
        if k == 'setmodel':
            return [P.SetModelPass(MachineModel(st['n'], CouplingGraph([tuple(e) for e in st['edges']], st['n'])))]
        if k == 'place':
            return [{'greedy': P.GreedyPlacementPass, 'trivial': P.TrivialPlacementPass, 'static': P.StaticPlacementPass}[fl]()]
        if k == 'layout' and fl == 'sabre':
            return [P.GeneralizedSabreLayoutPass(max(1, cfg['layout_passes']), *sab)]
        if k == 'route' and fl == 'sabre':
            return [P.GeneralizedSabreRoutingPass(*sab)]
        if k == 'layout' and fl == 'pam':
            return [_as_blocks, _embed_permutations, P.PAMLayoutPass(max(1, cfg['layout_passes']), cfg.get('gate_count_weight', 0.1), *sab), P.UnfoldPass()]
        if k == 'route' and fl == 'pam':
            return [_as_blocks, _embed_permutations, P.PAMRoutingPass(cfg.get('gate_count_weight', 0.1), *sab), P.UnfoldPass()]
        if k == 'apply':
            return [P.ApplyPlacement()]
        raise MachineryError('no pass for step %r' % (st,))

    snaps, points = [], {}
    raised, refused = '', ''
    machine = (0, [])
    before_apply = []
    mech = 0            # routing passes that started with final_mapping != initial_mapping
    nroute = 0
    ran = []
    for si, st in enumerate(steps, 1):
        kind = st['kind']
        if kind == 'apply':
            before_apply = [int(x) for x in data.placement]
        if kind == 'route':
            _Listen.swaps = []
            moved = [int(x) for x in data.initial_mapping] != [int(x) for x in data.final_mapping]
        _Listen.now = kind
        try:
            with _c08._Limit(RUN_TIME_LIMIT):
                for p in make(st):
                    if callable(p) and not hasattr(p, 'run'):
                        p(circ, data)
                    else:
                        _run(p, circ, data)
        except MachineryError:
            restore()
            raise
        except Exception as e:           # noqa
            msg = '%s: %s' % (type(e).__name__, str(e)[:160])
            if any(r in msg for r in REFUSALS):
                refused = 'refused by design: ' + next(r for r in REFUSALS if r in msg)     # the workflow ends before this pass
            else:
                raised = '%s in %s (pass %d of the workflow)' % (msg, kind, si)
            break
        _Listen.now = ''
        ran.append(st)
        if kind == 'setmodel':
            machine = (st['n'], [list(e) for e in st['edges']])
        snap = {'after': kind, 'flavour': st.get('flavour', ''), 'n': st.get('n', 0) if kind == 'setmodel' else 0,
                'edges': [list(e) for e in st['edges']] if kind == 'setmodel' else [],
                'placement': [int(x) for x in data.placement], 'im': [int(x) for x in data.initial_mapping],
                'fm': [int(x) for x in data.final_mapping], 'swaps': [], 'cswaps': [], 'cand': False}
        if kind == 'route':
            nroute += 1
            mech += 1 if moved else 0
            snap['swaps'] = _Listen.swaps
            snap['cswaps'] = [[int(q) for q in op.location] for op in circ if isinstance(op.gate, SwapGate)]
            snap['moved'] = moved
        # the circuit is observed wherever it is as wide as the machine and the placement is the identity; whether it is a
        # circuit the property speaks about at that point is for the model to say (MappingTrace.tla prints JUDGE)
        if kind in ('route', 'apply') and machine[0] and circ.num_qudits == machine[0] \
                and [int(x) for x in data.placement] == list(range(machine[0])):
            snap['cand'] = True
            pl = before_apply if kind == 'apply' else [int(x) for x in data.placement]
            points[str(si)] = {'nphys': machine[0], 'edges': machine[1], 'out': _observe_circuit(circ, meta),
                               'pinit': snap['im'], 'pfinal': snap['fm'], 'placement': pl, 'pw': len(pl),
                               'routes_before': nroute, 'mech_before': mech}
        snaps.append(snap)
    restore()
    if not raised and (not snaps or (refused and not any(s['after'] == 'route' for s in snaps))):
        return {'skip': refused or 'empty workflow'}       # refused before anything was routed: not a run
    return {'nlog': n, 'inseq': inseq, 'oploc': meta['oploc'], 'kind': meta['kind'], 'par': meta['par'],
            'needconn': [_needconn(o) for o in recipe['ops']], 'snaps': snaps, 'points': points,
            'raised': raised, 'refused': refused, 'machine': list(machine), 'width': int(circ.num_qudits),
            'escapes': _Listen.n, 'escapes_routing': _Listen.routing, 'routes': nroute, 'mech': mech,
            'steps': ran, 'cfg': cfg, 'recipe': recipe}


def l1_case(run, point):
    """What RoutingAbs reads: the input's operations, the machine, the circuit and the mappings recorded at one point."""
    return {'nphys': point['nphys'], 'edges': point['edges'], 'nlog': run['nlog'], 'inseq': run['inseq'], 'oploc': run['oploc'],
            'kind': run['kind'], 'par': run['par'], 'needconn': run['needconn'], 'out': point['out'], 'pinit': point['pinit'],
            'pfinal': point['pfinal'], 'placement': point['placement'], 'pw': point['pw'], 'raised': point.get('raised', '')}


# ----------------------------------------------------------------------------- TLC runs

ALG_ACTIONS = ['DoSetModel', 'DoPlace', 'DoLayout', 'DoRouteStart', 'DoRouteSwap', 'ExecGate', 'Backtrack', 'RouteEnd', 'DoApply']
ALG_INVARIANTS = 'PublishedAreTokens PiTracksTokens MappingsInjective MappingsInRange PlacementConnected TokensConserved AppliedMeans'


def _coverage(out):
    cov = {}
    for m in re.finditer(r'<(\w+) line [^>]*>: (\d+):(\d+)', out):
        cov[m.group(1)] = cov.get(m.group(1), 0) + int(m.group(3))
    return cov


def _sizes(s):
    return '{%s}' % ', '.join(str(x) for x in s)


def run_algebra(ctx, stats):
    """MappingAlgebra.tla, exhaustively: the pass counter is hidden (VIEW) and its bound out of reach, so the search covers
    workflows of every length over the given machine sizes."""
    configs = [(2, (2, 3), 'all', 2), (3, (3,), 'all', 2)] if ctx.quick else \
              [(2, (2, 3), 'all', 3), (3, (3,), 'all', 3), (2, (3, 4), 'rep', 1), (3, (3, 4), 'rep', 1)]
    cov = {a: 0 for a in ALG_ACTIONS}
    runs = []
    for nl, sizes, gm, ms in configs:
        cfg = os.path.join(ctx.scratch, 'MappingAlgebra_%d_%s.cfg' % (nl, '_'.join(map(str, sizes))))
        with open(cfg, 'w') as f:
            f.write('SPECIFICATION Spec\nCONSTANTS\n  NL = %d\n  Sizes = %s\n  GraphMode = "%s"\n  MaxSwaps = %d\n  MaxSteps = 1000000\n'
                    'VIEW NoSteps\nINVARIANTS %s\nCHECK_DEADLOCK FALSE\n' % (nl, _sizes(sizes), gm, ms, ALG_INVARIANTS))
        r = common.tlc(ALG, cfg, coverage=True, scratch=ctx.scratch, timeout=3000, workers=8)
        if not r.ok:
            raise MachineryError('MappingAlgebra.tla (%d logical, machines of %s): %s' % (nl, sizes, r.error or r.out[-1500:]))
        c = _coverage(r.out)
        for a in ALG_ACTIONS:
            cov[a] += c.get(a, 0)
        stats['states'] += r.distinct
        stats['transitions'] += r.states
        runs.append({'NL': nl, 'Sizes': list(sizes), 'graphs': gm, 'MaxSwaps': ms, 'workflow_length': 'unbounded', 'states': r.distinct,
                     'transitions': r.states, 'depth': r.depth, 'wall_s': round(r.wall, 1)})
    vac = [a for a, n in cov.items() if n == 0]
    if vac:
        raise MachineryError('MappingAlgebra.tla: action(s) never taken: %s' % vac)
    stats['algebra_runs'] = runs
    stats['algebra_action_coverage'] = cov


def _edges_of(v):
    return sorted(sorted(int(x) for x in e['set']) for e in v['set'])


def generate_workflows(ctx, stats):
    """Workflows generated by TLC (simulation of MappingGen.tla over MappingAlgebra's actions), distinct, each with the number of
    routing passes that started with fm # im in the generating behaviour."""
    configs = [(2, (2, 3, 4), 4, 9, 500), (3, (3, 4, 5), 4, 9, 700)] if ctx.quick else \
              [(2, (2, 3, 4), 3, 12, 3000), (3, (3, 4, 5), 3, 12, 4000), (4, (4, 5), 3, 10, 2000)]
    out = []
    gen = []
    for nl, sizes, lo, hi, num in configs:
        cfg = os.path.join(ctx.scratch, 'MappingGen_%d.cfg' % nl)
        with open(cfg, 'w') as f:
            f.write('SPECIFICATION GSpec\nCONSTANTS\n  NL = %d\n  Sizes = %s\n  GraphMode = "%s"\n  MaxSwaps = 2\n  MaxSteps = %d\n  MinLen = %d\n'
                    '  GenFlavours = {"sabre"}\nCHECK_DEADLOCK FALSE\n' % (nl, _sizes(sizes), 'mixed', hi, lo))
        r = common.tlc(GEN, cfg, simulate='num=%d' % num, depth=40 * hi, seed=ctx.seed * 7919 + nl, workers=1, scratch=ctx.scratch, timeout=1500)
        if not r.ok:
            raise MachineryError('MappingGen.tla (%d logical): %s' % (nl, r.error or r.out[-1500:]))
        seen = {}
        for v in r.prints:
            if not v or v[0] != 'WF':
                continue
            steps = []
            for kind, fl, n, E in v[2]:
                st = {'kind': kind, 'flavour': fl}
                if kind == 'setmodel':
                    st['n'], st['edges'] = int(n), _edges_of(E)
                steps.append(st)
            key = json.dumps(steps, sort_keys=True)
            if key not in seen or seen[key]['hits'] < v[1]:
                seen[key] = {'nl': nl, 'steps': steps, 'hits': int(v[1])}
        ws = list(seen.values())
        out += ws
        stats['states'] += r.distinct
        stats['transitions'] += r.states
        gen.append({'NL': nl, 'Sizes': list(sizes), 'length': [lo, hi], 'behaviours': num, 'printed': sum(1 for v in r.prints if v and v[0] == 'WF'),
                    'distinct_workflows': len(ws), 'with_second_routing_that_matters': sum(1 for x in ws if x['hits']),
                    'wall_s': round(r.wall, 1)})
    if not any(x['hits'] for x in out):
        raise MachineryError('MappingGen.tla generated no workflow in which a routing pass starts with fm # im')
    stats['generated_workflows'] = gen
    return out


def enumerate_circuits(ctx, stats):
    """{width: [recipe]} from TLC (CircuitEnum.tla)."""
    sizes = [(2, 3), (3, 3), (4, 2)] if ctx.quick else [(2, 4), (3, 3), (4, 3)]
    out = {}
    for nq, maxops in sizes:
        cfg = os.path.join(ctx.scratch, 'CircuitEnum_%d.cfg' % nq)
        with open(cfg, 'w') as f:
            f.write('SPECIFICATION Spec\nCONSTANTS\n  NQ = %d\n  MaxOps = %d\n  GateArities = {1, 2, 3}\n  Barriers = TRUE\nCHECK_DEADLOCK FALSE\n' % (nq, maxops))
        r = common.tlc(ENUM, cfg, scratch=ctx.scratch, timeout=1200, workers=4)
        if not r.ok:
            raise MachineryError('CircuitEnum.tla failed: %s' % (r.error or r.out[-800:]))
        stats['states'] += r.distinct
        stats['transitions'] += r.states
        circs = _c08.parse_marked(r.out, 'CIRC')
        out[nq] = [_c08.recipe_of(nq, ops) for _, _, ops in circs]
    stats['enumerated_circuits'] = {str(k): len(v) for k, v in out.items()}
    return out


def key_of(run, point, clause):
    places = [s['flavour'] for s in run['steps'] if s['kind'] == 'place']
    k = {'clause': clause, 'placement': places[0] if places else 'none', 'layout': any(s['kind'] == 'layout' for s in run['steps']),
         # how many routing passes had run when the circuit was judged, and whether one of them started with fm != im
         'routings': '1' if point.get('routes_before', 1) <= 1 else '2+', 'second_routing_matters': point.get('mech_before', 0) > 0}
    if clause == 'workflow-raised':
        k['error'] = re.sub(r'\d+', 'N', point.get('raised', ''))[:70]
    return k


def run(ctx: Ctx) -> Outcome:
    import logging
    common.use_repo()
    warnings.filterwarnings('ignore')
    logging.disable(logging.CRITICAL)
    out = Outcome('C09')
    stats = {'states': 0, 'transitions': 0}
    rng = random.Random(ctx.seed * 104729 + 9)
    t0 = time.time()
    if ctx.replay:
        jobs = [as_job(ctx.replay['replay']['job'])]
        srcs = ['replay']
    else:
        # three independent groups of TLC runs (exhaustive L2, circuit enumeration, workflow generation) side by side
        from concurrent.futures import ThreadPoolExecutor
        parts = [{'states': 0, 'transitions': 0} for _ in range(3)]
        with ThreadPoolExecutor(3) as ex:
            fa = ex.submit(run_algebra, ctx, parts[0])
            fe = ex.submit(enumerate_circuits, ctx, parts[1])
            fg = ex.submit(generate_workflows, ctx, parts[2])
            fa.result()
            enum = fe.result()
            wfs = fg.result()
        for part in parts:
            for k, v in part.items():
                stats[k] = stats.get(k, 0) + v if k in ('states', 'transitions') else v
        multi = {w: [r for r in rs if len({tuple(sorted(o['loc'])) for o in r['ops'] if len(o['loc']) > 1 and o['k'] == 'g'}) >= (2 if w > 2 else 1)]
                 for w, rs in enum.items()}
        jobs, srcs = [], []

        def add(src, nphys, edges, rec, cfg):
            jobs.append({'recipe': rec, 'steps': single_stage(nphys, edges, cfg), 'cfg': cfg})
            srcs.append(src)
        # (1) every connected coupling graph with up to 5 vertices x TLC-enumerated circuits, one-stage workflow
        per = 1 if ctx.quick else 6
        for nphys in range(2, 6):
            for edges in all_connected_graphs(nphys):
                for w in range(2, min(nphys, 4) + 1):
                    for _ in range(per):
                        rec = rng.choice(multi[w]) if rng.random() < 0.85 else rng.choice(enum[w])
                        add('exhaustive-graphs', nphys, edges, rec, random_config(rng))
        # (2) random connected graphs with up to 10 vertices, circuits of 2-8 qudits, one-stage workflow
        for i in range(500 if ctx.quick else 8000):
            nphys = rng.randint(3, 10)
            n = rng.randint(2, min(nphys, 8))
            add('random', nphys, random_graph(rng, nphys), random_recipe(rng, n, 14 if ctx.quick else rng.choice([14, 14, 40])), random_config(rng))
        # (3) sparse machines with circuits dominated by 3-qudit gates: the inputs on which the router runs into its
        #     local-minimum escape (backtrack the leading swaps, then uphill swaps)
        for i in range(120 if ctx.quick else 1500):
            nphys = rng.randint(6, 10)
            n = rng.randint(5, min(nphys, 8))
            gk = rng.choice(['line', 'ring', 'ring', 'tree', 'tree', 'star'])
            edges = ([[a, a + 1] for a in range(nphys - 1)] if gk == 'line' else [[a, (a + 1) % nphys] for a in range(nphys)] if gk == 'ring'
                     else [[0, a] for a in range(1, nphys)] if gk == 'star' else random_graph(rng, nphys))
            edges = sorted([sorted(e) for e in edges])
            rec = {'nq': n, 'ops': [{'k': 'g', 'loc': rng.sample(range(n), rng.choice([2, 3, 3, 3])), 'v': rng.randrange(6)}
                                    for _ in range(rng.randint(10, 25))]}
            cfg = random_config(rng)
            cfg['placement'] = rng.choice(['greedy', 'trivial'])
            cfg['layout_passes'] = rng.choice([0, 0, 1])
            add('hard', nphys, edges, rec, cfg)
        for nphys, edges, rec, cfg in ESCAPE_SEEDS:
            add('escape-seed', nphys, edges, rec, cfg)
        # (4) the workflows TLC generated from MappingAlgebra (MappingGen.tla), as generated: the machines of the model,
        #     circuits enumerated by TLC (those with two or more interacting pairs: the first routing has to move qudits)
        rng.shuffle(wfs)
        hot = [x for x in wfs if x['hits']]
        cold = [x for x in wfs if not x['hits']]
        quota = 260 if ctx.quick else 3000
        chosen = hot[:int(quota * 0.75)] + cold[:quota - min(len(hot), int(quota * 0.75))]
        for x in chosen:
            for _ in range(1 if ctx.quick else 2):
                pool = multi.get(x['nl']) or enum[x['nl']]
                rec = rng.choice(pool) if rng.random() < 0.5 else dense_recipe(rng, x['nl'], rng.randint(3, 8))
                jobs.append({'recipe': rec, 'steps': x['steps'], 'cfg': random_config(rng)})
                srcs.append('tlc-workflow')
        # (5) the same shapes on machines of up to 10 qudits with circuits of 3-7 qudits
        for x in (hot[:200] if ctx.quick else hot[:2500]):
            nlog = rng.randint(3, 7)
            rec = dense_recipe(rng, nlog, rng.randint(5, 16)) if rng.random() < 0.7 else random_recipe(rng, nlog, 14)
            jobs.append({'recipe': rec, 'steps': scale_workflow(rng, x['steps'], nlog), 'cfg': random_config(rng)})
            srcs.append('tlc-workflow-scaled')
        stats['workflows_replayed'] = {'as_generated': len(chosen), 'of_which_second_routing_matters_in_model': sum(1 for x in chosen if x['hits']),
                                       'scaled': sum(1 for s in srcs if s == 'tlc-workflow-scaled')}
    t1 = time.time()
    results = _c08._pool_map(observe, jobs)
    t2 = time.time()
    runs, skipped, jobs_kept = [], {}, []
    for r, s, j in zip(results, srcs, jobs):
        if 'skip' in r:
            skipped[r['skip']] = skipped.get(r['skip'], 0) + 1
            continue
        r['src'] = s
        runs.append(r)
        jobs_kept.append(j)
    if not runs:
        if ctx.replay:
            out.notes.append('NOTE property=C09 the replayed input is now refused by the passes: %s' % skipped)
            out.coverage = {'evaluations': 1, 'distinct_nontrivial': 0, 'samples': [], 'states': 0, 'transitions': 0}
            return out
        raise MachineryError('no case could be observed')

    # L2 binding: replay the per-pass PassData snapshots of every run through MappingAlgebra's actions.  The model says where the
    # circuit is one the property speaks about (JUDGE); disagreements are DRIFT.
    path = os.path.join(ctx.scratch, 'mapping_traces.json')
    keep = ('after', 'flavour', 'n', 'edges', 'placement', 'im', 'fm', 'swaps', 'cswaps', 'cand')
    with open(path, 'w') as f:
        json.dump([{'nlog': r['nlog'], 'snaps': [{k: s[k] for k in keep} for s in r['snaps']]} for r in runs], f)
    r = common.tlc(TRACE, TRACE_CFG, env={'TRACE_FILE': path}, scratch=ctx.scratch, timeout=3000)
    if not r.ok:
        raise MachineryError('MappingTrace.tla failed: %s' % (r.error or r.out[-1500:]))
    stats['states'] += r.distinct
    stats['transitions'] += r.states
    done, drifts, judge = {}, {}, {}
    for v in r.prints:
        if not v:
            continue
        if v[0] == 'DONE':
            done[v[1]] = v[2]
        elif v[0] == 'DRIFT':
            drifts.setdefault(v[1], v[2:])
        elif v[0] == 'JUDGE':
            judge.setdefault(v[1], []).append(v[2])
    drift = 0
    logged_swaps = sum(len(s['swaps']) for x in runs for s in x['snaps'])
    circuit_swaps = sum(len(s['cswaps']) for x in runs for s in x['snaps'])
    unobservable = logged_swaps == 0 and circuit_swaps > 0
    if unobservable:
        out.notes.append('UNOBSERVABLE property=C09 clause=L2-binding-of-routing: the router no longer announces the swaps it applies '
                         '("applying swap (a, b)" on the logger of bqskit.passes.mapping.sabre); routing passes are not compared with the model')
    for i, x in enumerate(runs, 1):
        d = drifts.get(i)
        if i in done and done[i] == 'none' and d is None:
            continue
        if unobservable and d is not None and d[1] in ('route', 'route-tokens'):
            continue
        drift += 1
        if drift <= 5:
            where = ('pass %d "%s": %s' % (d[0], d[1], json.dumps(d[2:])[:300])) if d is not None else 'the replay stopped before the end of the run'
            out.notes.append('DRIFT property=C09 MappingAlgebra.tla and the passes disagree at %s (workflow [%s], circuit of %d qudits, snapshots %s)'
                             % (where, shape_of(x['steps']), x['nlog'], json.dumps([{k: s[k] for k in ('after', 'placement', 'im', 'fm')} for s in x['snaps']])[:500]))
    if drift > 5:
        out.notes.append('DRIFT property=C09 %d runs in total disagree with MappingAlgebra.tla' % drift)
    t3 = time.time()

    # L1: every point the model marked, and every run that raised, judged by RoutingAbs
    cases, origin = [], []
    for i, x in enumerate(runs, 1):
        for s in sorted(set(judge.get(i, []))):
            p = x['points'].get(str(s))
            if p is None:
                raise MachineryError('MappingTrace.tla marked pass %d of run %d, where no circuit was observed' % (s, i))
            cases.append(l1_case(x, p))
            origin.append((i - 1, str(s)))
        if x['raised']:
            p = {'nphys': max(1, x['machine'][0]), 'edges': x['machine'][1], 'out': [], 'pinit': list(range(x['nlog'])), 'pfinal': list(range(x['nlog'])),
                 'placement': list(range(x['nlog'])), 'pw': x['nlog'], 'raised': x['raised'], 'routes_before': x['routes'], 'mech_before': x['mech']}
            x['points']['raised'] = p
            cases.append(l1_case(x, p))
            origin.append((i - 1, 'raised'))
    if not cases:
        if not ctx.replay:
            raise MachineryError('the model marked no point of any run as one the property speaks about')
        out.notes.append('NOTE property=C09 the replayed workflow no longer reaches a point the property speaks about')
    verdicts, st, tr, _ = common.batch_validate(ABS, ABS_CFG, cases, ctx.scratch, chunk=3000) if cases else ([], 0, 0, None)
    stats['states'] += st
    stats['transitions'] += tr
    t4 = time.time()
    for idx, step, clause, _ in verdicts:
        ri, pk = origin[idx]
        x, c = runs[ri], cases[idx]
        p = x['points'][pk]
        item = c['out'][step - 1] if 0 < step <= len(c['out']) else None
        detail = ('workflow [%s]%s with Sabre parameters %s; circuit of %d qudits, judged after pass %s on a machine with %d qudits, edges %s: '
                  'clause %s at output operation %d%s%s\ninput (id: kind logical-location): %s\ninitial mapping %s final mapping %s '
                  'placement %s; output %s\nPassData after each pass: %s' % (
                      shape_of(x['steps']), ' (%d-pass layout)' % x['cfg']['layout_passes'] if any(s['kind'] == 'layout' for s in x['steps']) else '',
                      json.dumps({k: v for k, v in x['cfg'].items() if k not in ('placement', 'layout_passes')}), x['nlog'], pk,
                      c['nphys'], c['edges'], clause, step, (' ' + json.dumps(item)) if item else '',
                      (' raised ' + c['raised']) if c['raised'] else '',
                      ' '.join('%d:%s%s' % (i + 1, c['kind'][i], c['oploc'][i]) for i in range(min(len(c['oploc']), 30))),
                      c['pinit'], c['pfinal'], c['placement'],
                      ' '.join('%s%s%s' % (o['k'], o['id'] or '', o['loc']) for o in c['out'][:40]),
                      json.dumps([[s['after'], s['placement'], s['im'], s['fm']] for s in x['snaps']])[:600]))
        out.violations.append(Violation('C09', clause, key_of(x, p, clause), detail, {'job': jobs_kept[ri]}))

    by_src, by_place = {}, {}
    for x in runs:
        by_src[x['src']] = by_src.get(x['src'], 0) + 1
        for s in x['steps']:
            if s['kind'] == 'place':
                by_place[s['flavour']] = by_place.get(s['flavour'], 0) + 1
    nswaps = sum(sum(1 for o in c['out'] if o['k'] == 's') for c in cases)
    nontrivial = {common.digest(c) for c in cases
                  if any(o['k'] == 's' for o in c['out']) or c['pinit'] != list(range(c['nlog'])) or c['pfinal'] != c['pinit']}
    by_clause = {}
    for v in out.violations:
        by_clause[v.clause] = by_clause.get(v.clause, 0) + 1
    multi_runs = [x for x in runs if x['routes'] >= 2]
    mech_runs = [x for x in runs if x['mech']]
    judged_after_mech = sum(1 for (ri, pk) in origin if runs[ri]['points'][pk].get('mech_before', 0) > 0)
    if not ctx.replay and not judged_after_mech:
        raise MachineryError('no real run was judged after a routing pass that started with final_mapping != initial_mapping')
    shapes = {shape_of(x['steps']) for x in runs}

    def sample(x):
        pk = sorted(x['points'])[-1] if x['points'] else None
        p = x['points'][pk] if pk else {}
        return {'workflow': shape_of(x['steps']), 'machine': x['machine'], 'config': x['cfg'],
                'input': ['%s%s' % (x['kind'][i], x['oploc'][i]) for i in range(len(x['oploc']))][:12],
                'output': ['%s%s%s' % (o['k'], o['id'] or '', o['loc']) for o in p.get('out', [])][:16],
                'passdata_after_each_pass': [[s['after'], s['placement'], s['im'], s['fm']] for s in x['snaps']][:12]}
    withsw = [x for x in runs if any(s['cswaps'] for s in x['snaps'])]
    picks = (mech_runs[:2] if mech_runs else withsw[:2]) + [runs[len(runs) // 2]]
    out.coverage = {
        'states': stats['states'], 'transitions': stats['transitions'],
        'traces_validated_against_impl': len(runs),
        'evaluations': len(cases), 'distinct_nontrivial': len(nontrivial),
        'rule': 'one run = one workflow of the real passes (SetModelPass, Greedy/Trivial/Static placement, GeneralizedSabreLayoutPass, '
                'GeneralizedSabreRoutingPass, ApplyPlacement in the order and number the workflow says) on one PassData; every run is replayed '
                'pass by pass through MappingAlgebra.tla (MappingTrace.tla); one evaluation = the real circuit and mappings at one point of a run '
                'that the model marks as routed and applied, judged by TLC (RoutingAbs.tla) against the original input. One-stage workflows: all '
                'connected labelled graphs on 2-5 vertices x circuits enumerated by TLC (CircuitEnum.tla), seeded random connected graphs on 3-10 '
                'vertices with random circuits of 2-8 qudits. Multi-stage workflows: generated by TLC from MappingAlgebra.tla (MappingGen.tla), '
                'run as generated and scaled to machines of up to 10 qudits. non-trivial = at least one swap in the circuit or a non-identity '
                'mapping; distinct by content hash of the whole case',
        'exhaustive': False,
        'exhaustive_part': 'MappingAlgebra.tla state graphs (workflows of every length): ' + '; '.join(
            '%d logical, machines of %s qudits (%s graphs, <=%d swaps per routing): %d states' % (r['NL'], r['Sizes'], r['graphs'], r['MaxSwaps'], r['states'])
            for r in stats.get('algebra_runs', [])) + '; every connected labelled graph on 2-5 vertices is used as a machine',
        'algebra_runs': stats.get('algebra_runs', []), 'algebra_action_coverage': stats.get('algebra_action_coverage', {}),
        'enumerated_circuits': stats.get('enumerated_circuits', {}),
        'generated_workflows': stats.get('generated_workflows', []), 'workflows_replayed': stats.get('workflows_replayed', {}),
        'distinct_workflow_shapes_run': len(shapes),
        'runs_with_two_or_more_routing_passes': len(multi_runs),
        'routing_passes_run': sum(x['routes'] for x in runs),
        'routing_passes_started_with_fm_ne_im': sum(x['mech'] for x in runs),
        'runs_in_which_second_routing_matters': len(mech_runs),
        'points_judged_by_L1': len(cases), 'points_judged_after_a_routing_that_started_with_fm_ne_im': judged_after_mech,
        'mapping_traces_replayed_through_L2': len(runs), 'drift': drift,
        'swaps_logged_by_router': logged_swaps, 'swaps_in_judged_circuits': nswaps, 'runs_with_swaps': len(withsw),
        'local_minimum_escapes': sum(x['escapes'] for x in runs), 'runs_with_local_minimum_escape': sum(1 for x in runs if x['escapes']),
        'local_minimum_escapes_while_routing': sum(x['escapes_routing'] for x in runs),
        'by_source': by_src, 'placement_passes_by_kind': by_place, 'skipped_refused_by_design': skipped,
        'runs_cut_short_by_a_refusal': sum(1 for x in runs if x['refused']),
        'verdicts_by_clause': by_clause,
        'max_machine': max(x['machine'][0] for x in runs), 'max_circuit_width': max(x['nlog'] for x in runs),
        'longest_workflow': max(len(x['steps']) for x in runs),
        'timing_s': {'model_checking_and_generation': round(t1 - t0, 1), 'real_passes': round(t2 - t1, 1), 'l2_binding': round(t3 - t2, 1),
                     'trace_validation': round(t4 - t3, 1)},
        'samples': [sample(x) for x in picks],
        'checker_cmd': 'tlc -config <generated> specs/mapping/MappingAlgebra.tla (-coverage 1, VIEW NoSteps); tlc specs/mapping/CircuitEnum.tla; '
                       'tlc -simulate num=N -seed S -config <generated> specs/mapping/MappingGen.tla; '
                       'tlc -config specs/mapping/MappingTrace.cfg specs/mapping/MappingTrace.tla (batch, TRACE_FILE=runs.json); '
                       'tlc -config specs/mapping/RoutingAbs.cfg specs/mapping/RoutingAbs.tla (batch, TRACE_FILE=cases.json)',
        'trusted_base': ['TLC', 'harness/checks/c09.py observation code (operations identified by TaggedGate tag, blocks by the tags inside, '
                         'SwapGate = swap; parameters rounded to 1e-6; swaps applied by the router read from its debug log)',
                         'harness/checks/c08.py circuit builder'],
    }
    out.assumptions = ['all qudits are qubits; inputs contain no SwapGate and no measurement',
                       'a pass that refuses by design (trivial placement disconnected, no placement found, routing / layout on disconnected '
                       'qudits, model too small) ends the workflow before it; a workflow refused before its first routing is not a run',
                       'PAM layout/routing is not exercised (needs synthesis through the runtime)']
    return out
