"""C09 — placement, layout and routing preserve the program and respect the coupling.

Oracles:
  * specs/mapping/RoutingAbs.tla     L1: replay of the routed output over pi and the input's dependency front
                                     (batch trace validation of real workflow runs);
  * specs/mapping/MappingAlgebra.tla L2: the mapping bookkeeping (placement, initial/final mapping, pi) as a state
                                     machine with tokens on wires, model-checked exhaustively;
  * specs/mapping/MappingTrace.tla   binds L2 to the code: per-pass snapshots of the real PassData are replayed through
                                     MappingAlgebra's actions (a mismatch is DRIFT, not a violation);
  * specs/mapping/CircuitEnum.tla    TLC enumerates the small input circuits.
Python only builds inputs, drives the real passes as coroutines, serialises what it sees, runs TLC, maps VERDICT lines.
"""
from __future__ import annotations

import itertools
import json
import os
import random
import re
import time
import warnings

from harness import common
from harness.checks import c08 as _c08          # shared input builder / identity recovery / TLC print parser
from harness.common import Ctx, MachineryError, Outcome, Violation

DIR = os.path.join(common.SPECS, 'mapping')
ABS = os.path.join(DIR, 'RoutingAbs.tla')
ABS_CFG = os.path.join(DIR, 'RoutingAbs.cfg')
ENUM = os.path.join(DIR, 'CircuitEnum.tla')
ALG = os.path.join(DIR, 'MappingAlgebra.tla')
TRACE = os.path.join(DIR, 'MappingTrace.tla')
TRACE_CFG = os.path.join(DIR, 'MappingTrace.cfg')

MANIFEST_ENTRY = dict(
    engine='mapping',
    technique='TLA+ L1 replay specification (specs/mapping/RoutingAbs.tla) checked by TLC on recorded outputs of the real workflow '
              '[SetModelPass, placement, GeneralizedSabreLayoutPass, GeneralizedSabreRoutingPass, ApplyPlacement]; TLA+ L2 state machine of '
              'the mapping bookkeeping (MappingAlgebra.tla) model-checked exhaustively and bound to the code by replaying per-pass '
              'PassData snapshots of the real runs through its actions (MappingTrace.tla)',
    text='The real passes, driven directly as coroutines, are run on every connected coupling graph with up to 5 vertices combined '
         'with circuits enumerated by TLC (CircuitEnum.tla: 2-4 qudits, gates of arity 1-3 in both orientations, barriers) and on seeded '
         'random connected graphs with up to 10 vertices with circuits of 2-8 qudits (3-qudit gates, barriers, partitioned blocks), with '
         'Greedy / Trivial / Static placement, 0-3 layout passes, and varied decay / extended-set parameters. TLC replays each routed '
         'circuit over pi (from the recorded initial mapping) and the dependency front of the input: swaps on edges only, every input '
         'operation once and after its predecessors, at pi of its location, multi-qudit gates on connected physical qudits, parameters '
         'unchanged, final pi = recorded final mapping, mappings injective and in range, placement connected. MappingAlgebra.tla is '
         'model-checked for up to 4 logical on up to 5 physical qudits (all connected graphs up to 4 vertices, representative ones on 5): '
         'published mappings = token positions, injectivity, range, after every action.',
    note='PAM (permutation-aware mapping: PAMLayoutPass / PAMRoutingPass and their block permutations) needs synthesis through the runtime '
         'and is NOT covered; clause block-permutation-wrong is not implemented. Measurements are not used as inputs (their classical '
         'bookkeeping belongs to C01). Runs that the passes refuse by design (trivial placement not connected, no static placement, '
         'model too small) are not cases. Inputs contain no SwapGate, so every SwapGate in the output was inserted. Trusted: TLC, the '
         'observation code in harness/checks/c09.py and the shared builder in harness/checks/c08.py.',
    ref='DESIGN.md section 4 / C09',
)

RUN_TIME_LIMIT = int(os.environ.get('VERIF_C09_PASS_LIMIT', '120'))       # seconds per pass; the router needs milliseconds

REFUSALS = ('The trivial placement is not valid', 'No valid placement found', 'Cannot layout circuit on disconnected qudits',
            'Cannot route circuit on disconnected qudits', 'Machine model is too small')


# Inputs found by a seeded search (3000 candidates, about 0.4 % hits) on which the router of the unchanged tree runs into its
# local-minimum escape DURING ROUTING (leading swaps popped from the circuit, uphill swaps): the path is too rare to rely on chance.
ESCAPE_SEEDS = [
    [9,[[0,1],[1,2],[2,3],[3,4],[4,5],[5,6],[6,7],[7,8]],{"nq":4,"ops":[{"k":"g","loc":[3,2,1],"v":2},{"k":"g","loc":[3,1],"v":2},{"k":"g","loc":[3,1],"v":5},{"k":"g","loc":[0,3,2],"v":0},{"k":"g","loc":[1,0,3],"v":0},{"k":"g","loc":[2,0,1],"v":3},{"k":"g","loc":[3,0],"v":1}]},{"placement":"greedy","layout_passes":0,"decay_delta":0.001,"decay_reset_interval":1,"decay_reset_on_gate":True,"extended_set_size":1,"extended_set_weight":1.0}],
    [7,[[0,2],[0,6],[1,3],[3,4],[3,6],[5,6]],{"nq":7,"ops":[{"k":"g","loc":[4,6],"v":5},{"k":"g","loc":[3,1],"v":2},{"k":"g","loc":[0,3,1],"v":2},{"k":"g","loc":[2,3],"v":3},{"k":"g","loc":[4,6],"v":1},{"k":"g","loc":[3,0,1],"v":1},{"k":"g","loc":[5,4,1],"v":5},{"k":"g","loc":[3,1,4],"v":2},{"k":"g","loc":[5,2,6],"v":0}]},{"placement":"greedy","layout_passes":0,"decay_delta":0.1,"decay_reset_interval":1,"decay_reset_on_gate":True,"extended_set_size":0,"extended_set_weight":0.5}],
    [7,[[0,5],[1,5],[2,3],[2,4],[2,5],[5,6]],{"nq":6,"ops":[{"k":"g","loc":[3,4,0],"v":0},{"k":"g","loc":[0,2,1],"v":4},{"k":"g","loc":[3,5],"v":0},{"k":"g","loc":[3,5,4],"v":1},{"k":"g","loc":[2,5],"v":2},{"k":"g","loc":[1,4,0],"v":5},{"k":"g","loc":[4,1,3],"v":5},{"k":"g","loc":[3,0],"v":4},{"k":"g","loc":[2,3,0],"v":0}]},{"placement":"trivial","layout_passes":0,"decay_delta":0.1,"decay_reset_interval":5,"decay_reset_on_gate":True,"extended_set_size":20,"extended_set_weight":0.5}],
    [5,[[0,1],[0,4],[1,2],[2,3],[3,4]],{"nq":4,"ops":[{"k":"g","loc":[2,3,0],"v":0},{"k":"g","loc":[2,0,1],"v":2},{"k":"g","loc":[1,2,0],"v":2},{"k":"g","loc":[0,3,2],"v":1},{"k":"g","loc":[0,1,2],"v":4},{"k":"g","loc":[0,2,3],"v":5},{"k":"g","loc":[1,2,3],"v":5},{"k":"g","loc":[1,0,3],"v":4},{"k":"g","loc":[3,2],"v":4}]},{"placement":"greedy","layout_passes":0,"decay_delta":0.001,"decay_reset_interval":5,"decay_reset_on_gate":False,"extended_set_size":20,"extended_set_weight":1.0}],
    [9,[[0,1],[0,2],[0,4],[0,7],[1,3],[2,3],[2,5],[3,4],[4,6],[4,8]],{"nq":7,"ops":[{"k":"g","loc":[6,4],"v":5},{"k":"g","loc":[2,1,4],"v":0},{"k":"g","loc":[0,6,4],"v":0},{"k":"g","loc":[3,5,0],"v":1},{"k":"g","loc":[3,0],"v":1},{"k":"g","loc":[4,3],"v":2},{"k":"g","loc":[6,3],"v":5},{"k":"g","loc":[1,2],"v":4},{"k":"g","loc":[6,0,4],"v":5},{"k":"g","loc":[0,4,5],"v":4},{"k":"g","loc":[0,6,2],"v":5}]},{"placement":"greedy","layout_passes":0,"decay_delta":0.1,"decay_reset_interval":5,"decay_reset_on_gate":True,"extended_set_size":20,"extended_set_weight":1.0}],
    [9,[[0,6],[1,2],[1,5],[1,7],[2,4],[2,8],[3,5],[3,6],[5,6]],{"nq":6,"ops":[{"k":"g","loc":[5,0,4],"v":3},{"k":"g","loc":[5,0,2],"v":4},{"k":"g","loc":[1,0,4],"v":0},{"k":"g","loc":[0,2,1],"v":0},{"k":"g","loc":[5,2,1],"v":4},{"k":"g","loc":[1,0,2],"v":5},{"k":"g","loc":[3,5,2],"v":1},{"k":"g","loc":[2,5,0],"v":1},{"k":"g","loc":[2,1,4],"v":2},{"k":"g","loc":[0,3,5],"v":4},{"k":"g","loc":[3,0,2],"v":5}]},{"placement":"greedy","layout_passes":0,"decay_delta":0.001,"decay_reset_interval":5,"decay_reset_on_gate":True,"extended_set_size":20,"extended_set_weight":0.5}],
    [7,[[0,1],[1,3],[1,4],[1,5],[2,5],[5,6]],{"nq":7,"ops":[{"k":"g","loc":[1,2],"v":5},{"k":"g","loc":[1,5,3],"v":0},{"k":"g","loc":[1,5,0],"v":0},{"k":"g","loc":[2,6,5],"v":5},{"k":"g","loc":[0,3,6],"v":0},{"k":"g","loc":[2,3,4],"v":5},{"k":"g","loc":[4,5,0],"v":3},{"k":"g","loc":[1,2,6],"v":5},{"k":"g","loc":[1,3],"v":5},{"k":"g","loc":[2,1,3],"v":3},{"k":"g","loc":[1,4,3],"v":4},{"k":"g","loc":[4,3],"v":0},{"k":"g","loc":[4,6],"v":5},{"k":"g","loc":[2,6,1],"v":1},{"k":"g","loc":[4,2],"v":0}]},{"placement":"trivial","layout_passes":0,"decay_delta":0.0,"decay_reset_interval":5,"decay_reset_on_gate":False,"extended_set_size":20,"extended_set_weight":0.5}],
    [7,[[0,5],[1,3],[1,6],[2,5],[3,4],[4,6],[5,6]],{"nq":7,"ops":[{"k":"g","loc":[3,6,5],"v":3},{"k":"g","loc":[4,6,5],"v":2},{"k":"g","loc":[4,6,5],"v":2},{"k":"g","loc":[5,4,1],"v":2},{"k":"g","loc":[6,1,0],"v":1},{"k":"g","loc":[2,0,3],"v":2},{"k":"g","loc":[4,2,6],"v":0},{"k":"g","loc":[3,1,0],"v":1},{"k":"g","loc":[5,2,6],"v":3},{"k":"g","loc":[3,5,4],"v":1},{"k":"g","loc":[4,5,2],"v":5},{"k":"g","loc":[5,6],"v":3},{"k":"g","loc":[2,3,1],"v":3},{"k":"g","loc":[0,2,3],"v":2},{"k":"g","loc":[0,1],"v":1}]},{"placement":"greedy","layout_passes":0,"decay_delta":0.001,"decay_reset_interval":5,"decay_reset_on_gate":True,"extended_set_size":1,"extended_set_weight":0.5}],
]


# ----------------------------------------------------------------------------- inputs

def connected(n, edges):
    adj = {v: set() for v in range(n)}
    for a, b in edges:
        adj[a].add(b)
        adj[b].add(a)
    seen, todo = {0}, [0]
    while todo:
        v = todo.pop()
        for u in adj[v]:
            if u not in seen:
                seen.add(u)
                todo.append(u)
    return len(seen) == n


def all_connected_graphs(n):
    pairs = list(itertools.combinations(range(n), 2))
    for mask in range(1, 2 ** len(pairs)):
        edges = [p for i, p in enumerate(pairs) if mask >> i & 1]
        if len(edges) >= n - 1 and connected(n, edges):
            yield [list(e) for e in edges]


def random_graph(rng, n):
    edges = set()
    order = list(range(n))
    rng.shuffle(order)
    for i in range(1, n):
        a, b = order[rng.randrange(i)], order[i]
        edges.add((min(a, b), max(a, b)))
    for _ in range(rng.choice([0, 0, 1, 2, n])):
        a, b = rng.sample(range(n), 2)
        edges.add((min(a, b), max(a, b)))
    return [list(e) for e in sorted(edges)]


def random_recipe(rng, n, max_ops):
    ops = []
    style = rng.choice(['mixed', 'mixed', 'far', 'three', 'blocks'])
    for _ in range(rng.randint(1, max_ops)):
        r = rng.random()
        if r < 0.06 and n >= 2:
            k = rng.randint(2, min(n, 4))
            ops.append({'k': 'b', 'loc': sorted(rng.sample(range(n), k))})
        elif style == 'blocks' and r < 0.3:
            k = rng.randint(1, min(n, 3))
            loc = rng.sample(range(n), k)
            inner = []
            if rng.random() < 0.3:        # a block of single-qudit gates only: the router may put it anywhere
                inner = [{'k': 'g', 'loc': [q], 'v': rng.randrange(6)} for q in range(k)]
            else:
                for _j in range(rng.randint(1, 3)):
                    a = rng.randint(1, k)
                    inner.append({'k': 'g', 'loc': rng.sample(range(k), a), 'v': rng.randrange(6)})
                used = {q for io in inner for q in io['loc']}
                inner += [{'k': 'g', 'loc': [q], 'v': 0} for q in range(k) if q not in used]
            ops.append({'k': 'blk', 'loc': loc, 'inner': inner})
        else:
            if style == 'three' and n >= 3:
                a = rng.choice([1, 2, 3, 3])
            elif style == 'far':
                a = 2
            else:
                a = rng.choice([1, 2, 2, 2, 3]) if n >= 3 else rng.choice([1, 2])
            a = min(a, n)
            ops.append({'k': 'g', 'loc': rng.sample(range(n), a), 'v': rng.randrange(6)})
    return {'nq': n, 'ops': ops}


def random_config(rng):
    return {'placement': rng.choice(['greedy', 'greedy', 'trivial', 'static']),
            'layout_passes': rng.choice([0, 1, 1, 2, 3]),
            'decay_delta': rng.choice([0.0, 0.001, 0.001, 0.1]),
            'decay_reset_interval': rng.choice([1, 5, 5]),
            'decay_reset_on_gate': rng.random() < 0.7,
            'extended_set_size': rng.choice([0, 1, 20, 20]),
            'extended_set_weight': rng.choice([0.0, 0.5, 0.5, 1.0])}


# ----------------------------------------------------------------------------- driving the real passes

def _run(p, circ, data):
    co = p.run(circ, data)
    try:
        co.send(None)
    except StopIteration:
        return
    co.close()
    raise MachineryError('%s awaited the runtime; it cannot be driven as a plain coroutine' % type(p).__name__)


def _needconn(o):
    if o['k'] == 'g':
        return len(o['loc']) > 1
    if o['k'] == 'blk':
        return len(o['loc']) > 1 and any(len(io['loc']) > 1 for io in o['inner'])
    return False


def observe(job):
    """job = (nphys, edges, recipe, cfg) -> case (JSON-able) or {'skip': reason}."""
    nphys, edges, recipe, cfg = job
    warnings.filterwarnings('ignore')
    from bqskit import passes as P
    from bqskit.compiler.machine import MachineModel
    from bqskit.compiler.passdata import PassData
    from bqskit.ir.gates import BarrierPlaceholder, CircuitGate, SwapGate, TaggedGate
    from bqskit.qis.graph import CouplingGraph
    circ, meta = _c08.build(recipe)
    n = recipe['nq']
    inseq = [[] for _ in range(n)]
    for ident, o in enumerate(recipe['ops'], 1):
        for q in o['loc']:
            inseq[q].append(ident)
    model = MachineModel(nphys, CouplingGraph([tuple(e) for e in edges], nphys))
    data = PassData(circ)
    sab = (cfg['decay_delta'], cfg['decay_reset_interval'], cfg['decay_reset_on_gate'], cfg['extended_set_size'], cfg['extended_set_weight'])
    place = {'greedy': P.GreedyPlacementPass, 'trivial': P.TrivialPlacementPass, 'static': P.StaticPlacementPass}[cfg['placement']]()
    steps = [('setmodel', P.SetModelPass(model)), ('place', place)]
    if cfg['layout_passes'] > 0:
        steps.append(('layout', P.GeneralizedSabreLayoutPass(cfg['layout_passes'], *sab)))
    steps += [('route', P.GeneralizedSabreRoutingPass(*sab)), ('apply', P.ApplyPlacement())]
    snaps = []
    raised = ''
    # the local-minimum escape of the router announces itself on the module logger: count it (no hook needed)
    import logging

    class _Count(logging.Handler):
        n = 0

        routing = 0
        now = ''

        def emit(self, record):
            if 'backtracking' in record.getMessage():
                _Count.n += 1
                if _Count.now == 'route':
                    _Count.routing += 1
    _Count.n = 0
    _Count.routing = 0
    lg = logging.getLogger('bqskit.passes.mapping.sabre')
    h = _Count(level=logging.DEBUG)
    old = (lg.level, lg.propagate, logging.root.manager.disable)
    logging.disable(logging.NOTSET)
    lg.setLevel(logging.DEBUG)
    lg.propagate = False
    lg.addHandler(h)
    pre_apply_swaps = []
    placement_before_apply = []

    def snap(name):
        return {'after': name, 'placement': [int(x) for x in data.placement], 'im': [int(x) for x in data.initial_mapping],
                'fm': [int(x) for x in data.final_mapping]}
    snaps.append(snap('start'))
    for name, p in steps:
        if name == 'apply':
            placement_before_apply = [int(x) for x in data.placement]
            pre_apply_swaps = [[int(q) for q in op.location] for op in circ if isinstance(op.gate, SwapGate)]
        _Count.now = name
        try:
            with _c08._Limit(RUN_TIME_LIMIT):
                _run(p, circ, data)
        except MachineryError:
            raise
        except Exception as e:           # noqa
            msg = '%s: %s' % (type(e).__name__, str(e)[:160])
            if any(r in msg for r in REFUSALS):
                lg.removeHandler(h)
                lg.setLevel(old[0])
                lg.propagate = old[1]
                logging.disable(old[2])
                return {'skip': 'refused by design: ' + next(r for r in REFUSALS if r in msg)}
            raised = '%s in %s' % (msg, name)
            break
        snaps.append(snap(name))
    lg.removeHandler(h)
    lg.setLevel(old[0])
    lg.propagate = old[1]
    logging.disable(old[2])
    ident = _c08._Ident(meta)
    out = []
    if not raised:
        for op in circ:
            loc = [int(q) for q in op.location]
            g = op.gate
            par = [_c08._micro(x) for x in op.params]
            if isinstance(g, SwapGate):
                out.append({'k': 's', 'id': 0, 'loc': loc, 'par': []})
            elif isinstance(g, BarrierPlaceholder):
                out.append({'k': 'b', 'id': 0, 'loc': loc, 'par': []})
            elif isinstance(g, (TaggedGate, CircuitGate)):
                i = ident.of(op, loc)
                out.append({'k': 'g' if i else 'x', 'id': i, 'loc': loc, 'par': par})
            else:
                out.append({'k': 'x', 'id': 0, 'loc': loc, 'par': par})
    return {'nphys': nphys, 'edges': edges, 'nlog': n, 'inseq': inseq, 'oploc': meta['oploc'], 'kind': meta['kind'], 'par': meta['par'],
            'needconn': [_needconn(o) for o in recipe['ops']], 'out': out,
            'pinit': [int(x) for x in data.initial_mapping], 'pfinal': [int(x) for x in data.final_mapping],
            'placement': placement_before_apply if placement_before_apply else [int(x) for x in data.placement][:n],
            'raised': raised, 'width': int(circ.num_qudits), 'escapes': _Count.n, 'escapes_routing': _Count.routing,
            'snaps': snaps, 'swaps': pre_apply_swaps, 'cfg': cfg, 'recipe': recipe}


def _strip(c):
    return {k: v for k, v in c.items() if k not in ('snaps', 'swaps', 'cfg', 'recipe', 'src', 'width', 'escapes', 'escapes_routing')}


# ----------------------------------------------------------------------------- TLC runs

ALG_ACTIONS = ['SetModel', 'Place', 'Layout', 'RouteStart', 'DoRouteSwap', 'ExecGate', 'Backtrack', 'RouteEnd', 'Apply']
ALG_INVARIANTS = 'PublishedAreTokens PiTracksTokens MappingsInjective MappingsInRange PlacementConnected TokensConserved'


def _coverage(out):
    cov = {}
    for m in re.finditer(r'<(\w+) line [^>]*>: (\d+):(\d+)', out):
        cov[m.group(1)] = cov.get(m.group(1), 0) + int(m.group(3))
    return cov


def run_algebra(ctx, stats):
    configs = [(2, 3, 'all', 3), (3, 4, 'all', 3), (4, 5, 'rep', 2)] if ctx.quick else \
              [(2, 3, 'all', 4), (3, 4, 'all', 4), (3, 5, 'rep', 4), (4, 4, 'all', 3), (4, 5, 'rep', 3)]
    cov = {a: 0 for a in ALG_ACTIONS}
    runs = []
    for nl, np_, gm, ms in configs:
        cfg = os.path.join(ctx.scratch, 'MappingAlgebra_%d_%d.cfg' % (nl, np_))
        with open(cfg, 'w') as f:
            f.write('SPECIFICATION Spec\nCONSTANTS\n  NL = %d\n  NP = %d\n  GraphMode = "%s"\n  MaxSwaps = %d\nINVARIANTS %s\nCHECK_DEADLOCK FALSE\n'
                    % (nl, np_, gm, ms, ALG_INVARIANTS))
        r = common.tlc(ALG, cfg, coverage=True, scratch=ctx.scratch, timeout=3000)
        if not r.ok:
            raise MachineryError('MappingAlgebra.tla (%d logical on %d physical): %s' % (nl, np_, r.error or r.out[-1500:]))
        c = _coverage(r.out)
        for a in ALG_ACTIONS:
            cov[a] += c.get(a, 0)
        stats['states'] += r.distinct
        stats['transitions'] += r.states
        runs.append({'NL': nl, 'NP': np_, 'graphs': gm, 'MaxSwaps': ms, 'states': r.distinct, 'transitions': r.states, 'depth': r.depth,
                     'wall_s': round(r.wall, 1)})
    vac = [a for a, n in cov.items() if n == 0]
    if vac:
        raise MachineryError('MappingAlgebra.tla: action(s) never taken: %s' % vac)
    stats['algebra_runs'] = runs
    stats['algebra_action_coverage'] = cov


def enumerate_circuits(ctx, stats):
    """{width: [recipe]} from TLC (CircuitEnum.tla)."""
    sizes = [(2, 3), (3, 3), (4, 2)] if ctx.quick else [(2, 4), (3, 3), (4, 3)]
    out = {}
    for nq, maxops in sizes:
        cfg = os.path.join(ctx.scratch, 'CircuitEnum_%d.cfg' % nq)
        with open(cfg, 'w') as f:
            f.write('SPECIFICATION Spec\nCONSTANTS\n  NQ = %d\n  MaxOps = %d\n  GateArities = {1, 2, 3}\n  Barriers = TRUE\nCHECK_DEADLOCK FALSE\n' % (nq, maxops))
        r = common.tlc(ENUM, cfg, scratch=ctx.scratch, timeout=1200)
        if not r.ok:
            raise MachineryError('CircuitEnum.tla failed: %s' % (r.error or r.out[-800:]))
        stats['states'] += r.distinct
        stats['transitions'] += r.states
        circs = _c08.parse_marked(r.out, 'CIRC')
        out[nq] = [_c08.recipe_of(nq, ops) for _, _, ops in circs]
    stats['enumerated_circuits'] = {str(k): len(v) for k, v in out.items()}
    return out


def key_of(case, clause):
    k = {'clause': clause, 'placement': case['cfg']['placement'], 'layout': case['cfg']['layout_passes'] > 0}
    if clause == 'workflow-raised':
        k['error'] = re.sub(r'\d+', 'N', case['raised'])[:70]
    return k


def run(ctx: Ctx) -> Outcome:
    import logging
    common.use_repo()
    warnings.filterwarnings('ignore')
    logging.disable(logging.CRITICAL)
    out = Outcome('C09')
    stats = {'states': 0, 'transitions': 0}
    rng = random.Random(ctx.seed * 104729 + 9)
    t0 = time.time()
    if ctx.replay:
        jobs = [tuple(ctx.replay['replay']['job'])]
        srcs = ['replay']
    else:
        run_algebra(ctx, stats)
        enum = enumerate_circuits(ctx, stats)
        multi = {w: [r for r in rs if len({tuple(sorted(o['loc'])) for o in r['ops'] if len(o['loc']) > 1 and o['k'] == 'g'}) >= (2 if w > 2 else 1)]
                 for w, rs in enum.items()}
        jobs, srcs = [], []
        # (1) every connected coupling graph with up to 5 vertices x TLC-enumerated circuits
        per = 1 if ctx.quick else 6
        for nphys in range(2, 6):
            for edges in all_connected_graphs(nphys):
                for w in range(2, min(nphys, 4) + 1):
                    for _ in range(per):
                        rec = rng.choice(multi[w]) if rng.random() < 0.85 else rng.choice(enum[w])
                        jobs.append((nphys, edges, rec, random_config(rng)))
                        srcs.append('exhaustive-graphs')
        # (2) random connected graphs with up to 10 vertices, circuits of 2-8 qudits
        for i in range(700 if ctx.quick else 8000):
            nphys = rng.randint(3, 10)
            n = rng.randint(2, min(nphys, 8))
            jobs.append((nphys, random_graph(rng, nphys), random_recipe(rng, n, 14 if ctx.quick else rng.choice([14, 14, 40])), random_config(rng)))
            srcs.append('random')
        # (3) sparse machines with circuits dominated by 3-qudit gates: the inputs on which the router runs into its
        #     local-minimum escape (backtrack the leading swaps, then uphill swaps)
        for i in range(120 if ctx.quick else 1500):
            nphys = rng.randint(6, 10)
            n = rng.randint(5, min(nphys, 8))
            gk = rng.choice(['line', 'ring', 'ring', 'tree', 'tree', 'star'])
            edges = ([[a, a + 1] for a in range(nphys - 1)] if gk == 'line' else [[a, (a + 1) % nphys] for a in range(nphys)] if gk == 'ring'
                     else [[0, a] for a in range(1, nphys)] if gk == 'star' else random_graph(rng, nphys))
            edges = sorted([sorted(e) for e in edges])
            rec = {'nq': n, 'ops': [{'k': 'g', 'loc': rng.sample(range(n), rng.choice([2, 3, 3, 3])), 'v': rng.randrange(6)}
                                    for _ in range(rng.randint(10, 25))]}
            cfg = random_config(rng)
            cfg['placement'] = rng.choice(['greedy', 'trivial'])
            cfg['layout_passes'] = rng.choice([0, 0, 1])
            jobs.append((nphys, edges, rec, cfg))
            srcs.append('hard')
        for nphys, edges, rec, cfg in ESCAPE_SEEDS:
            jobs.append((nphys, edges, rec, cfg))
            srcs.append('escape-seed')
    t1 = time.time()
    results = _c08._pool_map(observe, jobs)
    t2 = time.time()
    cases, skipped = [], {}
    for r, s in zip(results, srcs):
        if 'skip' in r:
            skipped[r['skip']] = skipped.get(r['skip'], 0) + 1
            continue
        r['src'] = s
        r['job'] = None
        cases.append(r)
    jobs_kept = [j for j, r in zip(jobs, results) if 'skip' not in r]
    if not cases:
        if ctx.replay:
            out.notes.append('NOTE property=C09 the replayed input is now refused by the passes: %s' % skipped)
            out.coverage = {'evaluations': 1, 'distinct_nontrivial': 0, 'samples': [], 'states': 0, 'transitions': 0}
            return out
        raise MachineryError('no case could be observed')

    verdicts, st, tr, _ = common.batch_validate(ABS, ABS_CFG, [{k: v for k, v in _strip(c).items() if k != 'job'} for c in cases],
                                                ctx.scratch, chunk=3000)
    stats['states'] += st
    stats['transitions'] += tr
    t3 = time.time()
    for idx, step, clause, _ in verdicts:
        c = cases[idx]
        item = c['out'][step - 1] if 0 < step <= len(c['out']) else None
        detail = ('workflow [SetModel, %s placement, %s, SabreRouting, ApplyPlacement] on a machine with %d qudits, edges %s, circuit of %d '
                  'qudits: clause %s at output operation %d%s%s\ninput (id: kind logical-location): %s\ninitial mapping %s final mapping %s '
                  'placement %s; output %s' % (
                      c['cfg']['placement'], 'SabreLayout(%d)' % c['cfg']['layout_passes'] if c['cfg']['layout_passes'] else 'no layout',
                      c['nphys'], c['edges'], c['nlog'], clause, step, (' ' + json.dumps(item)) if item else '',
                      (' raised ' + c['raised']) if c['raised'] else '',
                      ' '.join('%d:%s%s' % (i + 1, c['kind'][i], c['oploc'][i]) for i in range(min(len(c['oploc']), 30))),
                      c['pinit'], c['pfinal'], c['placement'],
                      ' '.join('%s%s%s' % (o['k'], o['id'] or '', o['loc']) for o in c['out'][:40])))
        out.violations.append(Violation('C09', clause, key_of(c, clause), detail, {'job': list(jobs_kept[idx])}))

    # binding of MappingAlgebra: replay the per-pass PassData snapshots through its actions
    traced = [c for c in cases if not c['raised']]
    drift = 0
    if traced:
        path = os.path.join(ctx.scratch, 'mapping_traces.json')
        with open(path, 'w') as f:
            json.dump([{k: c[k] for k in ('nlog', 'nphys', 'edges', 'snaps', 'swaps')} for c in traced], f)
        r = common.tlc(TRACE, TRACE_CFG, env={'TRACE_FILE': path}, scratch=ctx.scratch, timeout=3000)
        if not r.ok:
            raise MachineryError('MappingTrace.tla failed: %s' % (r.error or r.out[-1500:]))
        stats['states'] += r.distinct
        stats['transitions'] += r.states
        done = {v[1] for v in _c08.parse_marked(r.out, 'DONE')}
        drifts = {}
        for m in re.finditer(r'<<\s*"DRIFT",\s*(\d+),\s*"(\w+)"', r.out):
            drifts.setdefault(int(m.group(1)), m.group(2))
        for i in range(1, len(traced) + 1):
            if i in done:
                continue
            drift += 1
            if drift <= 5:
                c = traced[i - 1]
                out.notes.append('DRIFT property=C09 MappingAlgebra.tla and the passes disagree after pass "%s" (machine %d qudits edges %s, %s placement, '
                                 'snapshots %s)' % (drifts.get(i, 'not-enabled'), c['nphys'], c['edges'], c['cfg']['placement'], json.dumps(c['snaps'])[:400]))
        if drift > 5:
            out.notes.append('DRIFT property=C09 %d runs in total disagree with MappingAlgebra.tla' % drift)
    t4 = time.time()

    by_src, by_place = {}, {}
    for c in cases:
        by_src[c['src']] = by_src.get(c['src'], 0) + 1
        by_place[c['cfg']['placement']] = by_place.get(c['cfg']['placement'], 0) + 1
    nswaps = sum(sum(1 for o in c['out'] if o['k'] == 's') for c in cases)
    nontrivial = {common.digest({k: v for k, v in _strip(c).items() if k != 'job'}) for c in cases
                  if any(o['k'] == 's' for o in c['out']) or c['pinit'] != list(range(c['nlog'])) or c['pfinal'] != c['pinit']}
    by_clause = {}
    for v in out.violations:
        by_clause[v.clause] = by_clause.get(v.clause, 0) + 1

    def sample(c):
        return {'nphys': c['nphys'], 'edges': c['edges'], 'config': c['cfg'], 'input': ['%s%s' % (c['kind'][i], c['oploc'][i]) for i in range(len(c['oploc']))][:12],
                'output': ['%s%s%s' % (o['k'], o['id'] or '', o['loc']) for o in c['out']][:16],
                'initial_mapping': c['pinit'], 'final_mapping': c['pfinal'], 'placement': c['placement']}
    withsw = [c for c in cases if any(o['k'] == 's' for o in c['out'])]
    picks = (withsw[:2] if withsw else []) + [cases[len(cases) // 2]]
    out.coverage = {
        'states': stats['states'], 'transitions': stats['transitions'],
        'traces_validated_against_impl': len(cases),
        'evaluations': len(cases), 'distinct_nontrivial': len(nontrivial),
        'rule': 'one case = one run of the real workflow [SetModelPass, Greedy/Trivial/Static placement, GeneralizedSabreLayoutPass (0-3 passes), '
                'GeneralizedSabreRoutingPass, ApplyPlacement] on one (coupling graph, circuit, parameter) triple, judged by TLC (RoutingAbs.tla); '
                'all connected labelled graphs on 2-5 vertices x circuits enumerated by TLC (CircuitEnum.tla), plus seeded random connected graphs '
                'on 3-10 vertices with random circuits of 2-8 qudits; non-trivial = at least one swap inserted or a non-identity mapping; '
                'distinct by content hash of the whole case',
        'exhaustive': False,
        'exhaustive_part': 'MappingAlgebra.tla state graphs: ' + '; '.join(
            '%d logical on %d physical (%s graphs, <=%d swaps): %d states' % (r['NL'], r['NP'], r['graphs'], r['MaxSwaps'], r['states'])
            for r in stats.get('algebra_runs', [])) + '; every connected labelled graph on 2-5 vertices is used as a machine',
        'algebra_runs': stats.get('algebra_runs', []), 'algebra_action_coverage': stats.get('algebra_action_coverage', {}),
        'enumerated_circuits': stats.get('enumerated_circuits', {}),
        'mapping_traces_replayed_through_L2': len(traced), 'drift': drift,
        'swaps_inserted': nswaps, 'runs_with_swaps': len(withsw),
        'local_minimum_escapes': sum(c['escapes'] for c in cases), 'runs_with_local_minimum_escape': sum(1 for c in cases if c['escapes']),
        'local_minimum_escapes_while_routing': sum(c['escapes_routing'] for c in cases),
        'by_source': by_src, 'by_placement': by_place, 'skipped_refused_by_design': skipped,
        'verdicts_by_clause': by_clause,
        'max_machine': max(c['nphys'] for c in cases), 'max_circuit_width': max(c['nlog'] for c in cases),
        'timing_s': {'model_checking': round(t1 - t0, 1), 'real_passes': round(t2 - t1, 1), 'trace_validation': round(t3 - t2, 1),
                     'l2_binding': round(t4 - t3, 1)},
        'samples': [sample(c) for c in picks],
        'checker_cmd': 'tlc -config <generated> specs/mapping/MappingAlgebra.tla (-coverage 1); tlc specs/mapping/CircuitEnum.tla; '
                       'tlc -config specs/mapping/RoutingAbs.cfg specs/mapping/RoutingAbs.tla (batch, TRACE_FILE=cases.json); '
                       'tlc -config specs/mapping/MappingTrace.cfg specs/mapping/MappingTrace.tla (batch)',
        'trusted_base': ['TLC', 'harness/checks/c09.py observation code (operations identified by TaggedGate tag, blocks by the tags inside, '
                         'SwapGate = inserted swap; parameters rounded to 1e-6)', 'harness/checks/c08.py circuit builder'],
    }
    out.assumptions = ['all qudits are qubits; inputs contain no SwapGate and no measurement',
                       'runs the passes refuse by design (trivial placement disconnected, no static placement found, model too small) are not cases',
                       'PAM layout/routing is not exercised (needs synthesis through the runtime)']
    return out
