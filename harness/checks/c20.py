"""C20 — coupling-graph and qudit-permutation utilities match their definitions (specs/graph/Graph.tla)."""
from __future__ import annotations

import itertools
import math
import os
import random
import warnings

import numpy as np

from harness import common, exact
from harness.common import Ctx, Outcome, Violation

SPEC = os.path.join(common.SPECS, 'graph', 'Graph.tla')
CFG = os.path.join(common.SPECS, 'graph', 'Graph.cfg')

MANIFEST_ENTRY = dict(
    engine='graph',
    technique='TLA+ definitions (specs/graph/Graph.tla, specs/exact/Monomial.tla) evaluated by TLC over observations of the real methods',
    text='Every public CouplingGraph query, topology constructor, embedding test, PermutationMatrix.from_qudit_location and the '
         'UnitaryMatrix/UnitaryBuilder tensor, power and apply operations are observed on the real code and recomputed by TLC from '
         'textbook definitions written in TLA+: exhaustively for all labelled graphs on up to 5 vertices (6 sampled in thorough), '
         'random weighted/remote-edge graphs up to 12 vertices, all location orders up to 4 qudits (5 thorough) with radix 2-4, '
         'random monomial matrices for the algebra.',
    note='Trusted: TLC, the discretiser in harness/exact.py (argmax, phase class in units of 2*pi/48, 1e-7 tolerance), the observation '
         'code in harness/checks/c20.py. Matrices in the algebra cases are monomial; generic complex matrices are not explored.',
    ref='DESIGN.md section 4 / C20',
)


def _inf(x):
    return -1 if math.isinf(x) else int(round(x))


def observe_graph(n, edges, rng, remote=(), wl=1, wr=1, overrides=None):
    from bqskit.qis.graph import CouplingGraph
    overrides = overrides or {}
    g = CouplingGraph([tuple(e) for e in edges], n, remote_edges=[tuple(e) for e in remote],
                      default_weight=wl, default_remote_weight=wr, edge_weights_overrides=overrides)
    w = [[-1] * n for _ in range(n)]
    for a, b in edges:
        w[a][b] = w[b][a] = wl
    for a, b in remote:
        w[a][b] = w[b][a] = wr
    for (a, b), x in overrides.items():
        w[a][b] = w[b][a] = x
    c = {'kind': 'graph', 'n': n, 'edges': [list(e) for e in edges], 'w': w}
    c['connected'] = bool(g.is_fully_connected())
    c['apsp'] = [[_inf(x) for x in row] for row in g.all_pairs_shortest_path()]
    c['degrees'] = [int(x) for x in g.get_qudit_degrees()]
    c['neigh'] = [sorted(int(x) for x in g.get_neighbors_of(v)) for v in range(n)]
    c['ksub'] = [[sorted(int(x) for x in loc) for loc in g.get_subgraphs_of_size(k)] for k in range(1, n + 1)] if n <= 6 else []
    spt = []
    for s in range(n):
        try:
            paths = g.get_shortest_path_tree(s)
            spt.append({'raised': False, 'paths': [[int(x) for x in p] for p in paths]})
        except RuntimeError:
            spt.append({'raised': True, 'paths': []})
    c['spt'] = spt
    subs = []
    for _ in range(3):
        k = rng.randint(1, n)
        loc = rng.sample(range(n), k)
        if rng.random() < 0.5:
            ren = list(range(k))
            rng.shuffle(ren)
            sg = g.get_subgraph(loc, {q: r for q, r in zip(loc, ren)})
        else:
            sg = g.get_subgraph(loc)
            srt = sorted(loc)
            # documented default: renumbered "in increasing order by the sequence given in location";
            # CircuitLocation keeps the given order, so position in the given sequence
            ren = list(range(k))
            loc = list(loc)
        subs.append({'loc': loc, 'ren': ren, 'n': int(sg.num_qudits), 'edges': [list(e) for e in sg]})
    c['subs'] = subs
    c['without'] = [bool(g.is_fully_connected_without(q)) if n >= 2 else True for q in range(n)]
    probe = [[a, b] for a in range(n) for b in range(n) if a < b][:12]   # stored edges are (low, high) pairs
    c['probe'] = probe
    c['contains'] = [bool((a, b) in g) for a, b in probe]
    c['len'] = len(g)
    return c


def all_graphs(n):
    pairs = list(itertools.combinations(range(n), 2))
    for mask in range(2 ** len(pairs)):
        yield [p for i, p in enumerate(pairs) if mask >> i & 1]


def ctor_cases():
    from bqskit.qis.graph import CouplingGraph
    out = []
    for n in range(1, 8):
        for name, f in (('all_to_all', CouplingGraph.all_to_all), ('linear', CouplingGraph.linear),
                        ('ring', CouplingGraph.ring), ('star', CouplingGraph.star)):
            if name == 'ring' and n < 2:
                continue            # a one-vertex "ring" is outside any textbook definition
            try:
                g = f(n)
            except Exception as e:       # constructors document no failure for n >= 1
                out.append({'kind': 'ctor', 'name': name, 'n': n, 'nq': -1, 'args': [n], 'edges': [[0, 0]], 'err': repr(e)})
                continue
            out.append({'kind': 'ctor', 'name': name, 'n': n, 'nq': int(g.num_qudits), 'args': [n], 'edges': [list(e) for e in g]})
    for r in range(1, 5):
        for k in range(1, 5):
            g = CouplingGraph.grid(r, k)
            out.append({'kind': 'ctor', 'name': 'grid', 'n': r * k, 'nq': int(g.num_qudits), 'args': [r, k], 'edges': [list(e) for e in g]})
    return out


def embed_cases(rng, count):
    from bqskit.qis.graph import CouplingGraph
    out = []
    for _ in range(count):
        n1 = rng.randint(1, 4)
        n2 = rng.randint(1, 5)
        e1 = [p for p in itertools.combinations(range(n1), 2) if rng.random() < 0.5]
        e2 = [p for p in itertools.combinations(range(n2), 2) if rng.random() < 0.6]
        g1, g2 = CouplingGraph(e1, n1), CouplingGraph(e2, n2)
        out.append({'kind': 'embed', 'n1': n1, 'e1': [list(e) for e in e1], 'n2': n2, 'e2': [list(e) for e in e2],
                    'result': bool(g1.is_embedded_in(g2))})
    return out


def perm_cases(rng, quick):
    from bqskit.qis.permutation import PermutationMatrix
    out = []
    combos = []
    for nq in range(1, 5 if quick else 6):
        for radix in (2, 3) if quick else (2, 3, 4):
            if radix ** nq > (81 if quick else 1024):
                continue
            locs = []
            for k in range(1, nq + 1):
                locs += list(itertools.permutations(range(nq), k))
            if len(locs) > 70:
                locs = rng.sample(locs, 70)
            combos += [(nq, radix, l) for l in locs]
    for nq, radix, loc in combos:
        P = PermutationMatrix.from_qudit_location(nq, radix, loc)
        out.append({'kind': 'perm', 'nq': nq, 'radix': radix, 'loc': list(loc), 'obs': exact.table_of(P.numpy)})
    return out


def rand_table(rng, radixes):
    """Random monomial matrix (numpy) and its table on the given radixes."""
    dim = int(np.prod(radixes))
    perm = list(range(dim))
    rng.shuffle(perm)
    ph = [rng.randrange(48) for _ in range(dim)]
    U = np.zeros((dim, dim), dtype=complex)
    for b in range(dim):
        U[perm[b], b] = np.exp(2j * np.pi * ph[b] / 48)
    return U, [{'idx': perm[b], 'ph': ph[b]} for b in range(dim)]


def alg_cases(rng, count):
    from bqskit.qis.unitary.unitarybuilder import UnitaryBuilder
    from bqskit.qis.unitary.unitarymatrix import UnitaryMatrix
    out = []
    for i in range(count):
        kind = ['otimes', 'ipower', 'dagger', 'matmul', 'builder', 'builder'][i % 6]
        if kind == 'otimes':
            ra = [rng.choice([2, 3]) for _ in range(rng.randint(1, 2))]
            rb = [rng.choice([2, 3]) for _ in range(rng.randint(1, 2))]
            A, ta = rand_table(rng, ra)
            B, tb = rand_table(rng, rb)
            R = UnitaryMatrix(A, ra).otimes(UnitaryMatrix(B, rb))
            ok = list(R.radixes) == ra + rb
            out.append({'kind': 'alg', 'op': 'otimes', 'a': ta, 'b': tb, 'obs': exact.table_of(R.numpy) if ok else [{'idx': 0, 'ph': 0, 'within': False}]})
        elif kind == 'ipower':
            ra = [rng.choice([2, 3]) for _ in range(rng.randint(1, 2))]
            A, ta = rand_table(rng, ra)
            k = rng.randint(-3, 4)
            R = UnitaryMatrix(A, ra).ipower(k)
            out.append({'kind': 'alg', 'op': 'ipower', 'a': ta, 'k': k, 'obs': exact.table_of(R.numpy)})
        elif kind == 'dagger':
            ra = [rng.choice([2, 3, 4]) for _ in range(rng.randint(1, 2))]
            A, ta = rand_table(rng, ra)
            out.append({'kind': 'alg', 'op': 'dagger', 'a': ta, 'obs': exact.table_of(UnitaryMatrix(A, ra).dagger.numpy)})
        elif kind == 'matmul':
            ra = [rng.choice([2, 3]) for _ in range(rng.randint(1, 3))]
            A, ta = rand_table(rng, ra)
            B, tb = rand_table(rng, ra)
            R = UnitaryMatrix(A, ra) @ UnitaryMatrix(B, ra)
            out.append({'kind': 'alg', 'op': 'matmul', 'a': ta, 'b': tb, 'obs': exact.table_of(np.asarray(R))})
        else:
            n = rng.randint(1, 4)
            r = [rng.choice([2, 2, 3]) for _ in range(n)]
            ub = UnitaryBuilder(n, r)
            steps = []
            for _ in range(rng.randint(1, 5)):
                k = rng.randint(1, min(3, n))
                loc = rng.sample(range(n), k)
                G, tg = rand_table(rng, [r[q] for q in loc])
                side = rng.choice(['right', 'left'])
                inv = rng.random() < 0.3
                u = UnitaryMatrix(G, [r[q] for q in loc])
                if side == 'right':
                    ub.apply_right(u, loc, inv)
                else:
                    ub.apply_left(u, loc, inv)
                steps.append({'side': side, 'loc': loc, 't': tg, 'inv': inv})
            out.append({'kind': 'alg', 'op': 'builder', 'r': r, 'steps': steps, 'obs': exact.table_of(ub.get_unitary().numpy)})
    return out


def build_cases(ctx: Ctx):
    rng = random.Random(ctx.seed)
    cases = []
    nmax = 5 if ctx.quick else 6
    for n in range(1, nmax + 1):
        gs = list(all_graphs(n))
        if n == 6:
            gs = rng.sample(gs, 6000)
        for edges in gs:
            cases.append(observe_graph(n, edges, rng))
    exhaustive_upto = 5
    # random larger graphs with weights and remote edges
    for _ in range(150 if ctx.quick else 1500):
        n = rng.randint(3, 9 if ctx.quick else 12)
        p = rng.choice([0.15, 0.3, 0.5, 0.8])
        edges = [e for e in itertools.combinations(range(n), 2) if rng.random() < p]
        remote = [e for e in edges if rng.random() < 0.25]
        wl, wr = rng.choice([(1, 1), (1, 5), (2, 7), (1, 100)])
        ov = {e: rng.randint(1, 9) for e in edges if rng.random() < 0.15}
        cases.append(observe_graph(n, edges, rng, remote, wl, wr, ov))
    cases += ctor_cases()
    cases += embed_cases(rng, 300 if ctx.quick else 3000)
    cases += perm_cases(rng, ctx.quick)
    cases += alg_cases(rng, 300 if ctx.quick else 3000)
    return cases, exhaustive_upto


def key_of(case, clause):
    k = {'kind': case['kind'], 'method': clause}
    return k


def run(ctx: Ctx) -> Outcome:
    common.use_repo()
    warnings.filterwarnings('ignore')
    out = Outcome('C20')
    if ctx.replay:
        cases = [ctx.replay['replay']['case']]
        if cases[0]['kind'] == 'graph' and 'rebuild' in ctx.replay['replay']:
            rb = ctx.replay['replay']['rebuild']
            cases = [observe_graph(rb['n'], [tuple(e) for e in rb['edges']], random.Random(0))]
    else:
        cases, exh = build_cases(ctx)
    verdicts, states, trans, _ = common.batch_validate(SPEC, CFG, cases, ctx.scratch, chunk=1500)
    seen = set()
    for idx, _step, clause, _ in verdicts:
        c = cases[idx]
        small = {k: c[k] for k in c if k not in ('ksub',)}
        out.violations.append(Violation('C20', clause, key_of(c, clause),
                                        'method %s disagrees with its definition on %s' % (clause, str(small)[:600]),
                                        {'case': c, 'rebuild': {'n': c.get('n'), 'edges': c.get('edges')} if c['kind'] == 'graph' else None}))
    kinds = {}
    for c in cases:
        kinds[c['kind']] = kinds.get(c['kind'], 0) + 1
    distinct = len({common.digest({k: v for k, v in c.items()}) for c in cases if c['kind'] != 'graph' or c['edges']})
    out.coverage = {
        'states': states, 'transitions': trans,
        'traces_validated_against_impl': len(cases),
        'evaluations': len(cases), 'distinct_nontrivial': distinct,
        'rule': 'one case = one observed object (graph with every public method result / constructor / embedding query / '
                'permutation matrix / tensor-power-apply expression on random monomial matrices); all labelled graphs on '
                '1..5 vertices are enumerated exhaustively (6: sampled in thorough), the rest is seeded random; '
                'non-trivial = graph has at least one edge, or non-graph case; distinct by content hash',
        'exhaustive': False,
        'exhaustive_part': 'all labelled graphs with 1..5 vertices; all topology constructors n<=7, grids <=4x4',
        'by_kind': kinds,
        'samples': [cases[i] if cases[i]['kind'] != 'graph' else {k: v for k, v in cases[i].items() if k != 'ksub'}
                    for i in (5, len(cases) // 2, len(cases) - 1) if i < len(cases)],
        'checker_cmd': 'tlc -config specs/graph/Graph.cfg specs/graph/Graph.tla (batch, TRACE_FILE=cases.json)',
        'trusted_base': ['TLC', 'harness/exact.py discretiser (argmax + phase class + 1e-7 tolerance)', 'harness/checks/c20.py observation code'],
    }
    out.assumptions = ['distances and weights are small integers; "no path" is encoded as -1',
                       'matrices in tensor/power/apply cases are monomial (phases multiples of 2*pi/48)']
    return out
