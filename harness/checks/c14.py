"""C14 — a crashed worker or manager unblocks every waiting client with an error."""
from __future__ import annotations

import random

from harness import rtcheck, rtmodel
from harness.common import Ctx, Outcome

LEVEL = 'fault_enumeration'

MANIFEST_ENTRY = dict(
    engine='runtime',
    technique='fault enumeration over schedules of the real runtime under a deterministic scheduler (process death after every k-th step), '
              'each run validated by TLC against the L1 specification RuntimeAbs.tla (Crash / client-release / shutdown clauses); L2 '
              'Runtime.tla crash model checked by TLC',
    text='For base schedules of attached and detached topologies, a worker or manager process is killed after the k-th scheduling step '
         'following the first submit, for k swept over the whole run (before receiving work, holding delayed tasks, mid-task, results in '
         'flight, idle), optionally followed by a second crash; a send to the dead peer fails with ConnectionResetError or BrokenPipeError '
         '(scheduler choice). L1 requires: every pending and later client call returns an exception, a result returned after the crash is '
         'the complete own output, and at the final idle snapshot no node of that runtime is still running. A run that never falls idle '
         '(some node spins) is not discarded: after a step bound - and once more with a four-fold bound - its trace ends in a snapshot '
         'marked livelock and is judged by the same clauses. Fault model of the kernel: a recv from a dead peer gives end-of-file or - when '
         'the peer died with unread data from that endpoint - ConnectionResetError (scheduler choice); a connection a process held when it '
         'forked children (the manager\'s link to the server, an attached server\'s link to its client) closes for the peer only when the '
         'process and all those children are gone.',
    note='Faults modelled: process death / connection loss only (no half-open TCP, no paused processes). Crashes before the first client '
         'submit (runtime start-up) are outside the statement. "Bounded time" is judged as "before the system falls idle" under the '
         'maximal-progress reading of timeouts.',
    ref='DESIGN.md section 4 / C14',
)


def scenarios(ctx: Ctx):
    rng = random.Random(ctx.seed * 49979687 + 14)
    scs = []
    bases = []
    progs_list = [rtcheck.LIB['B'], rtcheck.LIB['A'], rtcheck.LIB['W'], rtcheck.LIB['N'],
                  {'root': [['submit', 'a', 'mid'], ['await', 'a'], ['submit', 'b', 'mid'], ['await', 'b'], ['ret']],
                   'mid': [['submit', 'x', 'leaf'], ['await', 'x'], ['ret']], 'leaf': [['ret']]}]
    topos = [(['attached', 2], ['w0', 'w1']), (['attached', 3], ['w0', 'w1', 'w2']),
             (['detached', [2]], ['w0', 'w1', 'man0']), (['detached', [1, 1]], ['w0', 'man0', 'man1', 'w536870912']),
             (['detached', [2, 1]], ['w0', 'w1', 'man0', 'man1', 'w536870912'])]
    nbase = 10 if ctx.quick else 60
    for b in range(nbase):
        topo, victims = topos[b % len(topos)]
        bases.append((topo, victims, progs_list[b % len(progs_list)], ctx.seed * 100003 + b))
    stride = 9 if ctx.quick else 3
    for topo, victims, progs, seed in bases:
        nclients = 1 if topo[0] == 'attached' else rng.choice([1, 2])
        clients = [[['submit', 'H%d' % c, 'root'], ['result', 'H%d' % c]] for c in range(nclients)]
        horizon = 260 if topo[0] == 'attached' else 420
        for k in range(1, horizon, stride):
            v = victims[(k // stride) % len(victims)]
            sc = {'topo': topo, 'progs': progs, 'clients': clients, 'sched': ['random', seed], 'lines': False,
                  'crash': [v, k], 'probe': False}
            if rng.random() < 0.15:
                v2 = rng.choice([x for x in victims if x != v])
                sc['crash2'] = [v2, rng.randint(1, 60)]
            scs.append(sc)
    return scs


def run(ctx: Ctx) -> Outcome:
    if ctx.replay:
        return rtcheck.replay_outcome('C14', ctx, also=('C07',))
    scs = scenarios(ctx)
    model_cov, notes = rtmodel.shutdown_model(ctx), []
    # real processes, real sockets, SIGKILL of a worker / the manager at a random moment after the submit
    import random as _r
    rr = _r.Random(ctx.seed + 77)
    real = []
    for i in range(3 if ctx.quick else 30):
        real.append({'topo': ['detached', [2]], 'progs': rtcheck.LIB[['W', 'B', 'A'][i % 3]],
                     'clients': [[['submit', 'H0', 'root'], ['result', 'H0']]], 'sched': ['os'], 'lines': False,
                     'crash': [['worker', 'worker', 'manager'][i % 3], round(rr.uniform(0.0, 0.25), 3)], 'probe': False})
    real_traces = rtcheck.run_real_scenarios(real, ctx)
    model_cov['real_process_crash_runs'] = len(real_traces)
    out = rtcheck.validate('C14', scs, ctx, also=('C07',), extra_cov=model_cov, extra_traces=real_traces, keep_items=True)
    cov2, notes2 = rtmodel.shutdown_conformance(ctx, out.items)
    out.coverage.update(cov2)
    notes += notes2
    out.notes += notes
    # fault_enumeration evidence keys
    crashed = sum(1 for s in scs if s.get('crash'))
    out.coverage['crash_points_enumerated'] = crashed
    out.coverage['rule'] += '; crash points: one run per (base schedule, victim node, k) with k swept over the run with a fixed stride'
    out.assumptions = ['faults: process death / connection loss only', 'timeouts fire only when nothing else can happen (maximal progress)']
    return out
