"""C03 -- compile() of a unitary, state or state system reaches its target (specs/compile/CompileSem.tla).

Targets are drawn from the exact domain: monomial unitaries (permutation, diagonal, identity, permutation-with-phases;
qubits and qutrits) given as tables [idx, ph], basis states with a phase, state systems of basis -> basis pairs, and
lists of such inputs.  compile() runs on the real runtime (harness/simcompile.py); the returned circuit's action on the
basis states the statement talks about is observed, discretised and compared by TLC with the target."""
from __future__ import annotations

import os
import random

from harness import common, exact
from harness import compile_common as cc
from harness.common import Ctx, MachineryError, Outcome, Violation

SPEC = os.path.join(common.SPECS, 'compile', 'CompileSem.tla')
CFG = os.path.join(common.SPECS, 'compile', 'CompileSem.cfg')

MANIFEST_ENTRY = dict(
    engine='compile',
    technique='TLA+ statement of "reaches its target" on the exact (monomial) domain (specs/compile/CompileSem.tla, specs/exact/Monomial.tla) '
              'evaluated by TLC over observations of real compile() runs through the real runtime',
    text='compile() is called with monomial unitaries (permutation / diagonal / identity / permutation-with-phases tables; 1-3 qubits, 1-2 '
         'qutrits), basis states with a phase, state systems of 1-3 basis->basis pairs with phases, and lists of 2-3 such inputs, for the '
         'default model and for CZ+RZ+SX / iSWAP+U3 / CNOT+U3 models on line / star graphs (one machine wider than the target with coupled '
         'and one with uncoupled leading qudits), at optimization level 1 (a few at 2 and 4, where level 4 reports permutations through the '
         'mappings; 1-4 thorough).  TLC requires: unitary -- the observed table equals the target up to one global phase, every column within the '
         'synthesis budget; state -- |0..0> is sent to the target basis state; state system -- every listed input goes to its listed '
         'output with the listed relative phases; list -- one result per input, in the order of the inputs.',
    note='NOT decided: Haar-random / Clifford / near-identity unitaries, GHZ / W / random states, and the distance budget for any target '
         'outside the exact domain (needs real-number linear algebra as the oracle).  Single states are compared up to a global phase; a '
         'state system up to one common phase (the weaker reading).  A case that does not finish within its CPU-time bound is a note, not '
         'a verdict.  A call that compile() refuses in its own argument checks (documented ValueError / TypeError) is not a violation; a '
         'compilation that was accepted and then raised is (clause compile-raised).  Every run ends with an oracle self-test: corrupted '
         'copies of accepted observations (column moved, phase changed, outside the budget, mapping out of range / repeated, results '
         'exchanged or missing, status raised) must each be rejected by CompileSem.tla with its clause.  Trusted: TLC, harness/exact.py (own_unitary, discretiser), harness/compile_common.py, harness/sim.py + simcompile.py.',
    ref='DESIGN.md section 4 / C03',
)

LINE = lambda n: cc.topo_edges('line', n)        # noqa


def mdl(n, topo, gs, radix=2):
    return {'n': n, 'edges': cc.topo_edges(topo, n), 'gates': cc.GATESETS[gs], 'radix': radix, 'topo': topo, 'gs': gs}


def build_cases(ctx: Ctx):
    rng = random.Random(ctx.seed * 6151 + 3)
    cases = []

    def U(n, kind, radix=2, level=1, model=None):
        return {'kind': 'unitary', 'radix': radix, 'n': n, 'table': cc.random_table(rng, radix ** n, kind), 'tkind': kind, 'level': level, 'model': model}

    def S(n, radix=2, level=1, model=None, idx=None):
        return {'kind': 'state', 'radix': radix, 'n': n, 'state': {'idx': rng.randrange(radix ** n) if idx is None else idx, 'ph': rng.choice([0, 12, 24, 36, 6])},
                'level': level, 'model': model}

    def Y(n, k, radix=2, level=1, model=None):
        dim = radix ** n
        ins, outs = rng.sample(range(dim), k), rng.sample(range(dim), k)
        return {'kind': 'system', 'radix': radix, 'n': n, 'pairs': [{'i': i, 'o': o, 'ph': rng.choice([0, 12, 24, 16])} for i, o in zip(ins, outs)],
                'level': level, 'model': model}
    full = not ctx.quick        # the quick tier keeps one representative per class (every case costs 2-8 CPU seconds)
    # unitaries
    cases += [U(1, 'perm'), U(1, 'mono'), U(1, 'ident'), U(2, 'perm'), U(2, 'diag'), U(2, 'mono')]
    if full:
        cases += [U(1, 'diag'), U(2, 'ident'), U(3, 'diag')]
    cases += [U(2, 'mono', model=mdl(2, 'line', 'cz_rz_sx')), U(2, 'perm', model=mdl(2, 'line', 'iswap_u3')), U(1, 'mono', model=mdl(1, 'line', 'cz_rz_sx')),
              U(3, 'perm', model=mdl(3, 'line', 'cx_u3')), U(2, 'perm', level=2)]
    # qutrits
    cases += [U(1, 'perm', 3), U(1, 'mono', 3), U(2, 'perm', 3), U(1, 'perm', 3, model=mdl(1, 'line', 'csum_vu1', 3))]
    if full:
        cases += [U(1, 'diag', 3), U(1, 'ident', 3)]
    # states (a 2-qubit state at level 2 or 3 needs minutes of CPU before it fails in the final scan: thorough tier only)
    cases += [S(1), S(2), S(2, model=mdl(2, 'line', 'cx_u3')), S(3, model=mdl(3, 'star', 'cx_u3')), S(1, level=2, idx=1), S(1, level=2, idx=0), S(1, level=4, idx=1),
              S(1, 3), S(1, model=mdl(1, 'line', 'cz_rz_sx'))]
    if full:
        cases += [S(3), S(2, 3), S(2, level=2), S(2, level=3)]
    # state systems
    cases += [Y(1, 2), Y(2, 2), Y(2, 3), Y(2, 2, model=mdl(2, 'line', 'cx_u3')), Y(3, 2), Y(2, 2, level=2), Y(1, 2, 3), Y(2, 1, level=4),
              Y(1, 1, model=mdl(1, 'line', 'cz_rz_sx'))]
    if full:
        cases += [Y(1, 1), Y(2, 1)]
    # level 4 synthesises up to permutations and reports them in the mappings: SWAP comes back as (almost) nothing
    SWAP = [{'idx': 0, 'ph': 0}, {'idx': 2, 'ph': 0}, {'idx': 1, 'ph': 0}, {'idx': 3, 'ph': 0}]
    CX = [{'idx': 0, 'ph': 0}, {'idx': 1, 'ph': 0}, {'idx': 3, 'ph': 0}, {'idx': 2, 'ph': 0}]
    cases.append({'kind': 'unitary', 'radix': 2, 'n': 2, 'table': SWAP, 'tkind': 'swap', 'level': 4, 'model': None})
    # seed sweep at the hard end of the search space: two-qubit targets that need the maximal number of entanglers (SWAP and
    # phase-decorated SWAPs need three CNOTs) are where a search that prunes or stops one layer early goes wrong, and only for
    # the seeds whose first instantiation of the full template does not converge -- so the SEED is swept (the statement
    # quantifies over it): 2 CPU seconds per case
    SWAPZ = [{'idx': 0, 'ph': 0}, {'idx': 2, 'ph': 12}, {'idx': 1, 'ph': 0}, {'idx': 3, 'ph': 36}]
    for s in range(24 if ctx.quick else 120):
        cases.append({'kind': 'unitary', 'radix': 2, 'n': 2, 'table': SWAP if s % 3 else SWAPZ, 'tkind': 'swap-seed-sweep', 'level': 1, 'model': None,
                      'cseed_fixed': s})
    # a machine wider than the target: the leading physical qudits are coupled (line) / are not coupled (0-2, 1-2)
    cases.append({'kind': 'unitary', 'radix': 2, 'n': 2, 'table': CX, 'tkind': 'cx', 'level': 1, 'model': mdl(3, 'line', 'cx_u3')})
    cases.append({'kind': 'unitary', 'radix': 2, 'n': 2, 'table': CX, 'tkind': 'cx', 'level': 1,
                  'model': {'n': 3, 'edges': [[0, 2], [1, 2]], 'gates': cc.GATESETS['cx_u3'], 'radix': 2, 'topo': 'vee', 'gs': 'cx_u3'}})
    # lists: distinct targets so that the order is observable
    X = [{'idx': 1, 'ph': 0}, {'idx': 0, 'ph': 0}]
    Z = [{'idx': 0, 'ph': 0}, {'idx': 1, 'ph': 24}]
    I1 = [{'idx': 0, 'ph': 0}, {'idx': 1, 'ph': 0}]
    cases.append({'kind': 'list', 'radix': 2, 'n': 1, 'level': 1, 'model': None,
                  'items': [{'kind': 'unitary', 'n': 1, 'table': X}, {'kind': 'unitary', 'n': 1, 'table': Z}, {'kind': 'unitary', 'n': 1, 'table': I1}]})
    cases.append({'kind': 'list', 'radix': 2, 'n': 2, 'level': 1, 'model': None,
                  'items': [{'kind': 'unitary', 'n': 2, 'table': cc.random_table(rng, 4, 'perm')}, {'kind': 'state', 'n': 2, 'state': {'idx': 2, 'ph': 0}},
                            {'kind': 'unitary', 'n': 1, 'table': X}, {'kind': 'system', 'n': 2, 'pairs': [{'i': 0, 'o': 3, 'ph': 0}, {'i': 3, 'o': 0, 'ph': 24}]}]})
    cases.append({'kind': 'list', 'radix': 2, 'n': 2, 'level': 1, 'model': None,
                  'items': [{'kind': 'state', 'n': 2, 'state': {'idx': 1, 'ph': 0}}, {'kind': 'state', 'n': 2, 'state': {'idx': 2, 'ph': 0}}]})
    if not ctx.quick:
        for _ in range(70):
            n = rng.choice([1, 2, 2, 3])
            radix = rng.choice([2, 2, 2, 3]) if n <= 2 else 2
            level = rng.choice([1, 2, 3, 4])
            model = None if rng.random() < 0.5 or radix == 3 else mdl(n, rng.choice(['line', 'star', 'ring']), rng.choice(['cx_u3', 'cz_rz_sx', 'iswap_u3']))
            r = rng.random()
            if r < 0.6:
                cases.append(U(n, rng.choice(['perm', 'diag', 'ident', 'mono']), radix, level, model))
            elif r < 0.8:
                cases.append(S(n, radix, level, model))
            else:
                cases.append(Y(n, rng.randint(1, min(3, radix ** n)), radix, level, model))
    for i, c in enumerate(cases):
        c['id'] = i
        c['workers'] = [2, 1, 4][i % 3]
        c['sched'] = rng.randrange(1 << 20)
        c['cseed'] = rng.randrange(1 << 16)
        if 'cseed_fixed' in c:
            c['cseed'] = c.pop('cseed_fixed')
        c['trace'] = False
        c['timeout'] = 150 if c['level'] == 1 else 300 if ctx.quick else 500        # CPU seconds (see run_cases)
    return cases


def key_of(case, res, clause):
    """Fields a known-finding entry can match on: the clause, the input class (kind, radix, width, level, gate set,
    whether the machine is wider than the target and whether its leading qudits are coupled) and, for a failed
    compilation, the exception class, the innermost pass frame and the message."""
    m = case.get('model') or {}
    k = {'clause': clause, 'kind': case['kind'], 'radix': case['radix'], 'width': case['n'], 'level': case['level'], 'gateset': m.get('gs', 'default'),
         'wider': bool(m) and m['n'] > case['n'], 'leading_qudits_connected': cc.prefix_connected(m, case['n'])}
    if clause == 'compile-raised':
        k.update(exc=res.get('exc', ''), where=res.get('where', ''), msg=cc.exc_msg(res.get('excline', '')))
    if clause == 'mapping-out-of-range' and res.get('results'):
        k['returned_mapping_lengths'] = sorted({len(o['pi']) for o in res['results']} | {len(o['pf']) for o in res['results']})
        k['target_widths'] = sorted({s.get('n', case['n']) for s in (case['items'] if case['kind'] == 'list' else [case])})
    if case['kind'] == 'unitary':
        k['target'] = case.get('tkind', '')
    return k


def run(ctx: Ctx) -> Outcome:
    common.use_repo()
    out = Outcome('C03')
    cases = [ctx.replay['replay']['case']] if ctx.replay else build_cases(ctx)
    results = cc.run_compile_cases(cases, procs=14)
    sem, keep = [], []
    timeouts = 0
    for c, r in zip(cases, results):
        if r['status'] == 'timeout':
            timeouts += 1
            out.notes.append('NOTE property=C03 case %s (%s radix %d n=%d level=%d) did not finish within %d CPU seconds: undecided'
                             % (c.get('id'), c['kind'], c['radix'], c['n'], c['level'], c['timeout']))
            continue
        if r['status'] == 'harness-error':
            raise MachineryError('case %s failed inside the harness: %s\n%s' % (c.get('id'), r['exc'], r.get('tb')))
        sem.append(cc.sem_case(c, r))
        keep.append((c, r))
    if not sem:
        raise MachineryError('no case produced an observation')
    verdicts, states, trans, selftest = cc.validate_with_selftest(SPEC, CFG, sem, ctx.scratch, 3, 'C03')
    for idx, _step, clause, _extra in verdicts:
        c, r = keep[idx]
        inp = {k: c[k] for k in ('table', 'state', 'pairs', 'items') if k in c}
        detail = ('compile(%s, radix %d, %d qudit(s), model=%s, optimization_level=%d): clause %s\ninput: %s\nresult: %s'
                  % (c['kind'], c['radix'], c['n'], {k: v for k, v in (c.get('model') or {}).items() if k != 'gs'} or 'default', c['level'], clause,
                     str(inp)[:600], cc.short_result(r)))
        out.violations.append(Violation('C03', clause, key_of(c, r, clause), detail, {'case': c}))
    by = {'kind': {}, 'radix': {}, 'width': {}, 'level': {}, 'target': {}, 'raised': 0, 'rejected': 0, 'wider_machine': 0, 'nonidentity_mappings': 0}
    nontrivial = set()
    # how often each clause of CompileSem.tla had something to decide (bookkeeping over the inputs, not a verdict)
    decided = {'compile-raised': len(keep), 'list-order': 0, 'mapping-out-of-range': 0, 'mapping-not-injective': 0, 'target-not-reached': 0}
    for c, r in keep:
        for k, v in (('kind', c['kind']), ('radix', c['radix']), ('width', c['n']), ('level', c['level']), ('target', c.get('tkind', '-'))):
            by[k][str(v)] = by[k].get(str(v), 0) + 1
        by['wider_machine'] += bool(c.get('model')) and c['model']['n'] > c['n']
        if r['status'] == 'ok':
            decided['list-order'] += c['kind'] == 'list'
            for o in r['results']:
                decided['mapping-out-of-range'] += 1
                decided['mapping-not-injective'] += len(o['pi']) >= 2
                decided['target-not-reached'] += 1
                by['nonidentity_mappings'] += o['pi'] != sorted(o['pi']) or o['pf'] != sorted(o['pf'])
        if r['status'] == 'rejected':
            by['rejected'] += 1
        elif r['status'] != 'ok':
            by['raised'] += 1
        elif any(o['nops'] > 0 for o in r['results']):
            nontrivial.add(common.digest([{k: c.get(k) for k in ('kind', 'table', 'state', 'pairs', 'items')}, c.get('model'), c['level'], c['radix']]))
    out.coverage = {
        'states': states, 'transitions': trans, 'traces_validated_against_impl': len(sem), 'evaluations': len(cases),
        'distinct_nontrivial': len(nontrivial),
        'rule': 'one case = one compile() call on the real runtime for a unitary / state / state-system / list input from the exact domain, with '
                'the returned circuit(s) observed on the relevant basis states; non-trivial = compile returned a non-empty circuit; distinct by '
                'hash of (input, model, level)',
        'by': by, 'timeouts': timeouts, 'clause_decisions': decided, 'oracle_selftest': selftest,
        'compile_cpu_s': round(sum(r.get('cpu', 0) for _, r in keep), 1),
        'basis_states_compared': sum(len(o['bs']) for _, r in keep if r['status'] == 'ok' for o in r['results']),
        'samples': [{'case': c, 'result': cc.short_result(r)} for c, r in keep[:1] + keep[len(keep) // 2:len(keep) // 2 + 1] + keep[-1:]],
        'exhaustive': False,
        'checker_cmd': 'tlc -config specs/compile/CompileSem.cfg specs/compile/CompileSem.tla (batch, TRACE_FILE=cases.json)',
        'trusted_base': ['TLC', 'harness/exact.py own_unitary + discretiser', 'harness/compile_common.py (target builders, tolerance)',
                         'harness/sim.py + harness/simcompile.py'],
    }
    out.assumptions = ['targets are monomial (exact domain): Haar-random / GHZ / W targets and the numeric distance budget are not decided',
                       'one global phase is free for a unitary, a state and (one common phase) a state system']
    return out
