"""C06 — circuit simulation equals the ordered product of its operations (exact domain) and the flat
parameter vector / restricted iteration agree with what the op list gives.

Oracle: specs/exact/CircuitSem.tla (+ Monomial.tla); the algebra it relies on (Sem of a concatenation,
BLOCK ops, renumbering) is model-checked by specs/exact/MonoLaws.tla (MonoLawsCircuit*.cfg); the small
circuits are enumerated in Python and the count of the enumeration is cross-checked against the state
count of the TLC generator specs/exact/CircuitGen.tla.
"""
from __future__ import annotations

import itertools
import math
import os
import random
import threading
import warnings

import numpy as np

from harness import common, exact
from harness.common import Ctx, Outcome, Violation

SPEC = os.path.join(common.SPECS, 'exact', 'CircuitSem.tla')
CFG = os.path.join(common.SPECS, 'exact', 'CircuitSem.cfg')
GEN = os.path.join(common.SPECS, 'exact', 'CircuitGen.tla')
GEN_CFG = os.path.join(common.SPECS, 'exact', 'CircuitGen.cfg')
LAWS = os.path.join(common.SPECS, 'exact', 'MonoLaws.tla')

MANIFEST_ENTRY = dict(
    engine='exact',
    technique='TLA+ circuit semantics and flat-parameter/iteration operators (specs/exact/CircuitSem.tla, Monomial.tla) evaluated by TLC '
              'over observations of the real Circuit; Sem laws model-checked by TLC (specs/exact/MonoLaws.tla)',
    text='For circuits over the exact library (generalized-permutation gates, parameterised gates at their monomial points, constant '
         'tables, nested CircuitGates) every observed call is compared by TLC with what the TLA+ semantics of the appended op list '
         'gives: get_unitary (exact, including the global phase), the harness\'s own contraction of each operation\'s own matrix, '
         'get_statevector on phase-multiplied basis states, get_unitary_and_grad()[0], get_unitary / get_statevector / '
         'get_unitary_and_grad with an explicit parameter vector against Sem of the re-bound ops and against set_params first; params, '
         'set_params, get_param, set_param, get_param_location, freeze_param against ParamOwner / ParamSlice of the op list (integers: '
         'multiples of pi/4); operations / operations_with_cycles restricted to qudits or regions, exclude and reverse against the set '
         'comprehension over the grid. Inputs: all circuits of <= 3 ops over widths 1-3, radixes in {2,3}, all location orders '
         '(widths 1-2 and all <= 2-op width-3 circuits completely, the 3-op width-3 circuits sampled in the quick tier and complete '
         'in the thorough tier), and seeded random circuits up to width 6, radixes 2-4, 40 ops, permuted and non-adjacent '
         'locations, nested and folded blocks.',
    note='NOT decided: get_grad / get_unitary_and_grad()[1] as a derivative, generic real parameters and input states (no exact domain). '
         'The small circuits are enumerated in Python; TLC only cross-checks the size of the enumeration (specs/exact/CircuitGen.tla). '
         'Trusted: TLC, harness/exact.py discretiser (argmax, phase class 2*pi/48, 1e-7), construction/observation code in c06.py.',
    ref='DESIGN.md section 4 / C06',
)

BAD = 99999          # a parameter that is not a multiple of pi/4 (never expected)


def qint(x):
    q = exact.quarter(float(x))
    return BAD if q is None else q


def qints(v):
    return [qint(x) for x in v]


def reals(v):
    return [x * math.pi / 4 for x in v]


# ------------------------------------------------------------------------------ plans
# plan item: ('g', name, p, loc) | ('t', table, loc) | ('b', radixes, [items], loc)
def ctab(ra, rb):
    """|x, y> -> e^{2 pi i 6 y/48} |x, y + [x = ra-1] mod rb>  (a controlled shift with a phase)."""
    tab = []
    for x in range(ra):
        for y in range(rb):
            tab.append({'idx': x * rb + ((y + (1 if x == ra - 1 else 0)) % rb), 'ph': (6 * y) % 48})
    return tab


def cctab(ra, rb, rc):
    tab = []
    for x in range(ra):
        for y in range(rb):
            for z in range(rc):
                act = x == ra - 1 and y == rb - 1
                tab.append({'idx': (x * rb + y) * rc + ((z + (1 if act else 0)) % rc), 'ph': (16 * z * x) % 48})
    return tab


def table_matrix(tab):
    n = len(tab)
    U = np.zeros((n, n), dtype=complex)
    for b, e in enumerate(tab):
        U[e['idx'], b] = np.exp(2j * np.pi * e['ph'] / 48)
    return U


def alphabet(rs):
    """The generator alphabet of the exhaustive part: 2 one-qudit gates per qudit, 1 gate per ordered pair, 1 per ordered triple."""
    n = len(rs)
    out = []
    for q in range(n):
        out += [('g', 'T', [], [q]), ('g', 'RY', [4], [q])] if rs[q] == 2 else [('g', 'Shift', [], [q]), ('g', 'Clock', [], [q])]
    for a, b in itertools.permutations(range(n), 2):
        if rs[a] == rs[b] == 2:
            out.append(('g', 'CRZ', [1], [a, b]))
        elif rs[a] == rs[b] == 3:
            out.append(('g', 'CSUM', [], [a, b]))
        else:
            out.append(('t', ctab(rs[a], rs[b]), [a, b]))
    for a, b, c in itertools.permutations(range(n), 3):
        if rs[a] == rs[b] == rs[c] == 2:
            out.append(('g', 'CCX', [], [a, b, c]))
        else:
            out.append(('t', cctab(rs[a], rs[b], rs[c]), [a, b, c]))
    return out


def build(rs, plan):
    """plan -> (Circuit, records in construction order)."""
    from bqskit.ir.circuit import Circuit
    from bqskit.ir.gates import CircuitGate, ConstantUnitaryGate
    c = Circuit(len(rs), list(rs))
    recs = []
    for it in plan:
        if it[0] == 'g':
            _, name, p, loc = it
            lr = [rs[q] for q in loc]
            g = exact.bq_gate(name, p, lr[0], lr)
            k = exact.CTOR_ARGS.get(name) or 0
            if name == 'PERM':
                k = len(p)
            c.append_gate(g, list(loc), reals(p[k:]))
            recs.append(exact.op_record(name, p, loc))
        elif it[0] == 't':
            _, tab, loc = it
            lr = [rs[q] for q in loc]
            c.append_gate(ConstantUnitaryGate(table_matrix(tab), lr), list(loc))
            recs.append(exact.op_record('TABLE', [], loc, t=tab))
        elif it[0] == 'u':                  # user-defined Python gate (harness/usergates.py); its semantics is the library gate it copies
            from harness import usergates
            _, cls, p, loc = it
            c.append_gate(getattr(usergates, cls)(), list(loc), reals(p))
            recs.append(exact.op_record(usergates.SEMANTICS[cls], p, loc))
        else:
            _, srs, sub, loc = it
            sc, srec = build(srs, sub)
            inner = order_records(sc, srec)
            c.append_gate(CircuitGate(sc), list(loc), list(sc.params))
            recs.append(exact.op_record('BLOCK', [], loc, ops=inner))
    return c, recs


def order_records(circ, recs):
    """The construction records listed in the order the implementation iterates the circuit.  Operations on the same
    location tuple keep their relative order (they depend on each other), so the j-th operation iterated on a location
    is the j-th appended there."""
    queues = {}
    for i, r in enumerate(recs):
        queues.setdefault(tuple(r['loc']), []).append(i)
    out = []
    for op in circ:
        q = queues.get(tuple(op.location))
        if not q:
            raise common.MachineryError('iteration yields an operation at %s that was never appended' % (tuple(op.location),))
        out.append(recs[q.pop(0)])
    if any(queues.values()):
        raise common.MachineryError('iteration lost an appended operation')
    return out


# ------------------------------------------------------------------- flat parameter helpers (harness side, generation only)
def leaf_params(recs):
    """[(record, position inside record's p)] per flat parameter, in order."""
    out = []
    for r in recs:
        if r['g'] == 'BLOCK':
            out += leaf_params(r['ops'])
        elif r['g'] != 'TABLE':
            k = nargs(r)
            n = nparams(r)
            out += [(r, k + j) for j in range(n)]
    return out


def nargs(r):
    return {'MPRZ': 1, 'MPRY': 1, 'SUBSWAP': 4}.get(r['g'], len(r['p']) if r['g'] == 'PERM' else 0)


def nparams(r):
    g = r['g']
    if g in ('DIAG',):
        return len(r['p'])
    if g in ('MPRZ', 'MPRY'):
        return len(r['p']) - 1
    return exact.PARAM_ARITY.get(g, 0)


def fresh_params(rng, r):
    g = r['g']
    if g == 'DIAG':
        return [rng.randint(-8, 8) for _ in r['p']]
    if g == 'MPRZ':
        return [rng.randint(-8, 8) for _ in r['p'][1:]]
    if g == 'MPRY':
        return [4 * rng.randint(-3, 4) for _ in r['p'][1:]]
    return exact.random_params(rng, g)


def new_vector(rng, recs):
    out = []
    for r in recs:
        if r['g'] == 'BLOCK':
            out += new_vector(rng, r['ops'])
        elif r['g'] != 'TABLE' and nparams(r):
            out += fresh_params(rng, r)
    return out


# ------------------------------------------------------------------------------ observation
def grid_of(circ):
    return [{'c': int(c), 'loc': [int(q) for q in op.location]} for c, op in circ.operations_with_cycles()]


def sv_obs(circ, rs, rng, count, params=None):
    from bqskit.qis.state.state import StateVector
    dim = int(np.prod(rs))
    out = []
    bs = list(range(dim)) if dim <= count else rng.sample(range(dim), count)
    for b in bs:
        g = rng.choice([0, 0, 5, 16, 31])
        v = np.zeros(dim, dtype=complex)
        v[b] = np.exp(2j * np.pi * g / 48)
        s = circ.get_statevector(StateVector(v, list(rs))) if params is None else circ.get_statevector(StateVector(v, list(rs)), params)
        o = exact.vec_obs(np.asarray(s))
        out.append({'b': b, 'g': g, 'idx': o['idx'], 'ph': o['ph'], 'within': o['within']})
    return out


def run_query(circ, reg, excl, rev):
    from bqskit.ir.region import CircuitRegion
    arg = CircuitRegion({q: (lo, hi) for q, lo, hi in reg})
    got = [{'c': int(c), 'loc': [int(q) for q in op.location]}
           for c, op in circ.operations_with_cycles(qudits_or_region=arg, exclude=excl, reverse=rev)]
    got_ops = [[int(q) for q in op.location] for op in circ.operations(qudits_or_region=arg, exclude=excl, reverse=rev)]
    return got, got_ops


def queries_of(circ, rs, rng, count):
    n = len(rs)
    nc = circ.num_cycles
    out = []
    if nc == 0:
        return out
    subsets = [list(s) for k in range(1, n + 1) for s in itertools.combinations(range(n), k)]
    if len(subsets) > count:
        subsets = rng.sample(subsets, count)
    for i, qs in enumerate(subsets):
        excl, rev = bool(i & 1), bool(i & 2) if len(subsets) > 3 else bool(rng.getrandbits(1))
        if rng.random() < 0.5:
            rng.shuffle(qs)
        # a sequence of qudits: the documented meaning is "every cycle of these qudits"
        got = [{'c': int(c), 'loc': [int(q) for q in op.location]}
               for c, op in circ.operations_with_cycles(qudits_or_region=list(qs), exclude=excl, reverse=rev)]
        got_ops = [[int(q) for q in op.location] for op in circ.operations(qudits_or_region=list(qs), exclude=excl, reverse=rev)]
        out.append({'reg': [{'q': q, 'lo': 0, 'hi': nc} for q in qs], 'excl': excl, 'rev': rev, 'got': got, 'got_ops': got_ops, 'how': 'qudits'})
    for _ in range(max(2, count // 2)):
        qs = rng.sample(range(n), rng.randint(1, n))
        reg = []
        for q in qs:
            lo = rng.randint(0, nc - 1)
            reg.append((q, lo, rng.randint(lo, nc - 1)))
        excl, rev = bool(rng.getrandbits(1)), bool(rng.getrandbits(1))
        got, got_ops = run_query(circ, reg, excl, rev)
        out.append({'reg': [{'q': q, 'lo': lo, 'hi': hi} for q, lo, hi in reg], 'excl': excl, 'rev': rev, 'got': got, 'got_ops': got_ops,
                    'how': 'region'})
    return out


NOOBS = [{'idx': 0, 'ph': 0, 'within': False}]
DUMMY = [{'idx': 0, 'ph': 0, 'within': True}]


def tab(U):
    return exact.table_of(np.asarray(U))


def observe(rs, plan, rng, rich=True, fold=False, nsv=4, nq=6):
    """Build the circuit of ``plan`` and observe every call C06 talks about."""
    circ, cons = build(rs, plan)
    alt = cons
    if fold:
        folded = try_fold(circ, rng)
        if folded:
            # structure after a fold is read back from the implementation (names from class identity, parameters from op.params)
            ops = exact.flatten_circuit(circ, allow_tables=True)
            if ops is None:
                raise common.MachineryError('folded circuit left the exact library')
        else:
            fold = False
    if not fold:
        ops = order_records(circ, cons)
    dim = int(np.prod(rs))
    case = {'kind': 'circ', 'r': list(rs), 'ops': ops, 'alt': alt, 'chk_alt': bool(dim <= 300 and (fold or ops != cons)),
            'folded': bool(fold), 'nops': len(cons), 'raised': []}
    # typed defaults for everything observed below (a call that raises leaves its default and is recorded in `raised`)
    case.update(u=NOOBS, own=NOOBS, sv=[], has_ug=False, ug=DUMMY, ug_exp=DUMMY, it=[], ncyc=0, nparams=0, params0=[], locs=[], queries=[],
                v2=[], u_exp=DUMMY, sv_exp=[], params_untouched=[], params_set=[], opp_set=[[] for _ in ops], u_set=DUMMY,
                getp=[], setp=[], v3=[], u_setp=DUMMY, chk3=False, frz={'i': -1, 'nparams': 0, 'params': [], 'u': DUMMY, 'it': []})
    stage = ['get_unitary', 'get_unitary']          # [clause, call] of the call being observed
    try:
        _observe(case, circ, ops, rs, rng, rich, nsv, nq, dim, stage)
    except common.MachineryError:
        raise
    except Exception as e:          # a documented call on a valid circuit raised: that is an observation, judged under the call's clause
        case['raised'].append({'clause': stage[0], 'call': stage[1], 'err': repr(e)[:300]})
    return case


def _observe(case, circ, ops, rs, rng, rich, nsv, nq, dim, stage):
    def at(clause, call):
        stage[0], stage[1] = clause, call
    at('get_unitary', 'get_unitary')
    case['u'] = tab(circ.get_unitary().numpy)
    at('own-product', 'Operation.get_unitary')
    case['own'] = tab(exact.own_unitary(circ))
    at('get_statevector', 'get_statevector')
    case['sv'] = sv_obs(circ, rs, rng, nsv)
    if rich and dim <= 128:
        at('unitary_and_grad-value', 'get_unitary_and_grad')
        try:
            case['ug'] = tab(circ.get_unitary_and_grad()[0])
            case['has_ug'] = True
        except NotImplementedError:
            pass
    at('restricted-iteration', 'operations_with_cycles')
    case['it'] = grid_of(circ)
    case['ncyc'] = int(circ.num_cycles)
    at('param-vector', 'params')
    case['nparams'] = int(circ.num_params)
    case['params0'] = qints(circ.params)
    case['params_untouched'] = case['params0']
    N = case['nparams']
    at('param-vector', 'get_param_location')
    for i in range(N):
        c, q, k = circ.get_param_location(i)
        case['locs'].append({'c': int(c), 'q': int(q), 'k': int(k)})
    at('restricted-iteration', 'operations')
    case['queries'] = queries_of(circ, rs, rng, nq) if rich else []
    if N == 0 or len(leaf_params(ops)) != N:
        return
    v2 = new_vector(rng, ops)
    case['v2'] = v2
    at('explicit-params', 'get_unitary(params)')
    case['u_exp'] = tab(circ.get_unitary(reals(v2)).numpy)
    at('explicit-params', 'get_statevector(state, params)')
    case['sv_exp'] = sv_obs(circ, rs, rng, 2, reals(v2))
    if case['has_ug']:
        at('explicit-params', 'get_unitary_and_grad(params)')
        case['ug_exp'] = tab(circ.get_unitary_and_grad(reals(v2))[0])
    case['params_untouched'] = qints(circ.params)
    at('param-vector', 'set_params')
    circ.set_params(reals(v2))
    case['params_set'] = qints(circ.params)
    case['opp_set'] = [qints(op.params) for op in circ]
    case['u_set'] = tab(circ.get_unitary().numpy)
    at('param-vector', 'get_param')
    case['getp'] = [qint(circ.get_param(i)) for i in range(N)]
    leaves = leaf_params(ops)
    cur = list(v2)
    setp = []
    at('param-vector', 'set_param')
    for i in (rng.sample(range(N), min(N, 3)) if rich else []):
        r, pos = leaves[i]
        x = fresh_params(rng, r)[pos - nargs(r)]
        circ.set_param(i, x * math.pi / 4)
        cur[i] = x
        setp.append({'i': i, 'x': x, 'after': qints(circ.params)})
    case['setp'] = setp
    case['v3'] = cur
    case['chk3'] = bool(rich)
    case['u_setp'] = tab(circ.get_unitary().numpy) if rich else DUMMY
    if rich:
        at('param-vector', 'freeze_param')
        i = rng.randrange(N)
        c2 = circ.copy()
        c2.freeze_param(i)
        case['frz'] = {'i': i, 'nparams': int(c2.num_params), 'params': qints(c2.params), 'u': tab(c2.get_unitary().numpy), 'it': grid_of(c2)}


def try_fold(circ, rng):
    """Fold one random valid region (public API); False when none was found."""
    nc = circ.num_cycles
    if nc < 2:
        return False
    for _ in range(8):
        n = circ.num_qudits
        qs = sorted(rng.sample(range(n), rng.randint(1, min(3, n))))
        lo = rng.randint(0, nc - 1)
        hi = rng.randint(lo, min(nc - 1, lo + 3))
        region = {q: (lo, hi) for q in qs}
        try:
            if not circ.is_valid_region(region):
                continue
            circ.fold(region)
            return True
        except Exception:
            continue
    return False


# ------------------------------------------------------------------------------ generators
REGISTERS = [rs for n in (1, 2, 3) for rs in itertools.product((2, 3), repeat=n)]


def enumerate_small(ctx, rng):
    """All circuits of <= 3 ops over the generator alphabet; returns [(rs, plan)], the counts per register and whether the
    3-op width-3 part was sampled."""
    plans, counts = [], {}
    sampled = False
    for rs in REGISTERS:
        al = alphabet(rs)
        counts[''.join(map(str, rs))] = sum(len(al) ** k for k in range(4))
        for k in range(4):
            allk = list(itertools.product(al, repeat=k))
            if ctx.quick and len(rs) == 3 and k == 3:
                allk = rng.sample(allk, 200)
                sampled = True
            plans += [(rs, list(p)) for p in allk]
    return plans, counts, sampled


LIB_1Q2 = ['X', 'Y', 'Z', 'S', 'Sdg', 'T', 'Tdg', 'SqrtT', 'RZ', 'U1', 'RX', 'RY', 'U3', 'U1q', 'Clock', 'Shift']
LIB_2Q22 = ['CX', 'CY', 'CZ', 'CS', 'CT', 'SWAP', 'ISWAP', 'Sycamore', 'ZZ', 'CP', 'CRZ', 'RZZ', 'CRX', 'CRY', 'RXX', 'RYY', 'FSIM', 'CU']


def random_item(rng, rs, depth=0):
    n = len(rs)
    x = rng.random()
    if depth == 0 and x < 0.12 and n >= 2:
        k = rng.randint(1, min(3, n))
        loc = rng.sample(range(n), k)
        srs = [rs[q] for q in loc]
        sub = [random_item(rng, srs, 1) for _ in range(rng.randint(1, 4))]
        return ('b', srs, sub, loc)
    k = rng.choice([1, 1, 2, 2, 2, 3]) if n >= 3 else rng.randint(1, n)
    k = min(k, n)
    loc = rng.sample(range(n), k)
    lr = [rs[q] for q in loc]
    if rng.random() < 0.08:
        dim = int(np.prod(lr))
        perm = list(range(dim))
        rng.shuffle(perm)
        return ('t', [{'idx': perm[b], 'ph': rng.randrange(48)} for b in range(dim)], loc)
    if k == 1:
        if lr[0] == 2:
            name = rng.choice(LIB_1Q2)
        else:
            name = rng.choice(['Shift', 'Clock'] if lr[0] == 3 or rng.random() < 0.7 else ['Shift', 'Clock', 'I'])
        return ('g', name, exact.random_params(rng, name), loc)
    if k == 2:
        if lr == [2, 2]:
            name = rng.choice(LIB_2Q22)
        elif lr[0] == lr[1]:
            name = rng.choice(['CSUM', 'SWAP', 'CPI'] if lr[0] == 3 else ['CSUM', 'SWAP'])
        else:
            return ('t', ctab(*lr), loc)
        return ('g', name, exact.random_params(rng, name), loc)
    if lr == [2, 2, 2]:
        name = rng.choice(['CCX', 'CCP', 'IToffoli', 'RCCX', 'MPRZ', 'MPRY', 'DIAG'])
        if name == 'MPRZ':
            return ('g', name, [rng.randrange(3)] + [rng.randint(-8, 8) for _ in range(4)], loc)
        if name == 'MPRY':
            return ('g', name, [rng.randrange(3)] + [4 * rng.randint(-3, 4) for _ in range(4)], loc)
        if name == 'DIAG':
            return ('g', name, [rng.randint(-8, 8) for _ in range(7)], loc)
        return ('g', name, exact.random_params(rng, name), loc)
    return ('t', cctab(*lr), loc)


def random_plans(ctx, rng):
    """(radixes, plan, fold?, rich?) -- three size classes: small (dim <= 72, every clause), medium (dim <= 300) and large
    (dim 512..4096) with the semantic and explicit-parameter clauses only."""
    out = []
    classes = [('small', 120, 1, 72, 5, 40), ('medium', 30, 73, 300, 5, 25), ('large', 6, 512, 4096, 6, 15)]
    if not ctx.quick:
        classes = [('small', 1000, 1, 72, 5, 40), ('medium', 200, 73, 300, 5, 40), ('large', 30, 512, 4096, 6, 25)]
    for label, count, dlo, dhi, olo, ohi in classes:
        for _ in range(count):
            while True:
                n = rng.randint(1, 6) if label == 'small' else rng.randint(3, 6)
                rs = [rng.choice([2, 2, 2, 3, 3, 4]) for _ in range(n)]
                if dlo <= int(np.prod(rs)) <= dhi:
                    break
            plan = [random_item(rng, rs) for _ in range(rng.randint(olo, ohi))]
            out.append((tuple(rs), plan, rng.random() < 0.3, label == 'small'))
    return out


# ------------------------------------------------------------------------------ run
def key_of(case, clause):
    parts = clause.split(':', 1)
    k = {'clause': parts[0], 'width': len(case['r']), 'mixed_radix': len(set(case['r'])) > 1}
    if len(parts) > 1:
        k['sub'] = parts[1]
    k['source'] = case.get('source', '')
    k['nested'] = any(o['g'] == 'BLOCK' for o in case['ops'])
    return k


def build_cases(ctx):
    rng = random.Random(ctx.seed * 1000003 + 6)
    recipes = []
    plans, counts, sampled = enumerate_small(ctx, rng)
    for i, (rs, plan) in enumerate(plans):
        recipes.append({'rs': list(rs), 'plan': plan, 'seed': rng.randrange(1 << 30), 'fold': False, 'source': 'enumerated',
                        'rich': i % 3 == 0 or not ctx.quick})
    for rs, plan, fold, rich in random_plans(ctx, rng):
        recipes.append({'rs': list(rs), 'plan': plan, 'seed': rng.randrange(1 << 30), 'fold': fold, 'source': 'random', 'rich': rich})
    # expensive recipes first so that the worker processes finish together
    order = sorted(range(len(recipes)), key=lambda i: -int(np.prod(recipes[i]['rs'])) * (len(recipes[i]['plan']) + 1))
    built = exact.pmap(rebuild, [recipes[i] for i in order], procs=8, chunksize=8)
    cases = [None] * len(recipes)
    for i, c in zip(order, built):
        cases[i] = c
    return cases, recipes, counts, sampled


def rebuild(recipe):
    small = recipe['source'] == 'enumerated'
    c = observe(tuple(recipe['rs']), recipe['plan'], random.Random(recipe['seed']), rich=recipe.get('rich', True), fold=recipe['fold'],
                nsv=3 if small else 6, nq=4 if small else 8)
    c['source'] = recipe['source']
    return c


def generator_count(ctx):
    """State count of the TLC generator per register (same alphabet shape as alphabet())."""
    r = common.tlc(GEN, GEN_CFG, scratch=ctx.scratch, timeout=600)
    if not r.ok:
        raise common.MachineryError('CircuitGen failed: %s' % (r.error or r.out[-1500:]))
    per = {}
    for v in r.prints:
        if v and v[0] == 'COUNT':
            per[''.join(map(str, v[1]))] = v[2]
    return r, per


def run(ctx: Ctx) -> Outcome:
    common.use_repo()
    warnings.filterwarnings('ignore')
    out = Outcome('C06')
    laws = {}
    timing = {}
    import time
    t0 = time.time()

    def laws_pass():
        tl = time.time()
        for cfg in (['MonoLawsCircuit.cfg'] if ctx.quick else ['MonoLawsCircuitT.cfg', 'MonoLawsCircuit3T.cfg']):
            laws[cfg] = common.tlc(LAWS, os.path.join(common.SPECS, 'exact', cfg), coverage=True, scratch=ctx.scratch, timeout=3000,
                                   workers=6 if ctx.quick else 'auto')
        timing['laws_s'] = round(time.time() - tl, 1)
    th = None
    counts, sampled = {}, False
    if ctx.replay:
        rp = ctx.replay['replay']
        cases, recipes = [rebuild(rp['recipe']) if rp.get('recipe') else rp['case']], [rp.get('recipe')]
    else:
        th = threading.Thread(target=laws_pass)
        th.start()
        cases, recipes, counts, sampled = build_cases(ctx)
    timing['observe_s'] = round(time.time() - t0, 1)
    t1 = time.time()
    verdicts, states, trans, _ = exact.par_validate(SPEC, CFG, cases, ctx.scratch, groups=8, chunk=1500)
    timing['validate_s'] = round(time.time() - t1, 1)
    for idx, _step, clause, _ in verdicts:
        c = cases[idx]
        small = {'r': c['r'], 'ops': c['ops'], 'source': c.get('source')}
        out.violations.append(Violation('C06', clause.split(':')[0], key_of(c, clause), '%s on %s' % (clause, str(small)[:1200]),
                                        {'case': c, 'recipe': recipes[idx]}))
    gen_states = 0
    laws_states = laws_trans = 0
    laws_cov = {}
    if th is not None:
        gr, per = generator_count(ctx)
        gen_states = gr.distinct
        if per != counts:
            raise common.MachineryError('Python enumeration and TLC generator disagree on the number of circuits: %s vs %s' % (counts, per))
        th.join()
        for cfg, r in laws.items():
            if not r.ok:
                raise common.MachineryError('MonoLaws %s failed: %s' % (cfg, r.error or r.out[-1500:]))
            laws_states += r.distinct
            laws_trans += r.states
            laws_cov[cfg] = {'distinct_states': r.distinct, 'states_generated': r.states, 'actions': r.coverage}
    by_source = {}
    for c in cases:
        by_source[c.get('source', '')] = by_source.get(c.get('source', ''), 0) + 1
    nontriv = [c for c in cases if c['nops'] >= 1]
    out.coverage = {
        'states': states + gen_states + laws_states, 'transitions': trans + gen_states + laws_trans,
        'traces_validated_against_impl': len(cases), 'evaluations': len(cases),
        'distinct_nontrivial': len({common.digest({'r': c['r'], 'ops': c['ops'], 'v2': c['v2']}) for c in nontriv}),
        'rule': 'one case = one circuit built through the public API with every observed call (get_unitary, own contraction, statevectors, '
                'get_unitary_and_grad, explicit parameter vector, set_params/get_param/set_param/get_param_location/freeze_param, '
                'restricted iteration queries); enumerated = every sequence of <= 3 ops over the generator alphabet (2 one-qudit gates per '
                'qudit, one two-qudit gate per ordered pair, one three-qudit gate per ordered triple) for every register of width 1-3 '
                'with radixes in {2,3}; random = seeded; non-trivial = at least one operation; distinct by (radixes, ops, new parameters)',
        'exhaustive': False,
        'exhaustive_part': 'widths 1-2: all circuits of <= 3 ops; width 3: all circuits of <= 2 ops' + (
            '; 3-op width-3 circuits: 200 sampled per register' if sampled else '; width 3: all circuits of 3 ops'),
        'enumeration_size_per_register': counts, 'generator_states': gen_states,
        'by_source': by_source,
        'with_parameters': sum(1 for c in cases if c['nparams'] > 0),
        'nested_or_folded': sum(1 for c in cases if any(o['g'] == 'BLOCK' for o in c['ops'])),
        'max_dim': max(int(np.prod(c['r'])) for c in cases),
        'queries': sum(len(c['queries']) for c in cases),
        'algebra_model_checking': laws_cov, 'timing': timing,
        'samples': [{k: c[k] for k in ('r', 'ops', 'u', 'v2', 'params0', 'locs', 'it')} for c in (cases[40 % len(cases)], cases[-1])],
        'checker_cmd': 'tlc -config specs/exact/CircuitSem.cfg specs/exact/CircuitSem.tla (batch, TRACE_FILE=cases.json); '
                       'tlc -config specs/exact/CircuitGen.cfg specs/exact/CircuitGen.tla; '
                       'tlc -coverage 1 -config specs/exact/MonoLawsCircuit.cfg specs/exact/MonoLaws.tla',
        'trusted_base': ['TLC', 'harness/exact.py discretiser (argmax + phase class + 1e-7 tolerance)', 'harness/checks/c06.py construction and observation code'],
    }
    out.assumptions = ['parameters are integer multiples of pi/4 (pi for X/Y-type rotations); input states are basis states times a 48th root of unity',
                       'the grid used to judge restricted iteration is the one the default operations_with_cycles() reports']
    return out
