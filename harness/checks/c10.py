"""C10 - every circuit-rewriting pass preserves its target within stated tolerance (specs/exact/PassContracts.tla)."""
from __future__ import annotations

import json
import os
import random
import time

from harness import c10_catalogue as K
from harness import common, exact
from harness.common import Ctx, MachineryError, Outcome, Violation

SPEC = os.path.join(common.SPECS, 'exact', 'PassContracts.tla')
CFG = os.path.join(common.SPECS, 'exact', 'PassContracts.cfg')
MC = os.path.join(common.SPECS, 'exact', 'PassRewriteMC.tla')
MCCFG = os.path.join(common.SPECS, 'exact', 'PassRewriteMC.cfg')

MANIFEST_ENTRY = dict(
    engine='exact',
    technique='TLA+ pass catalogue with discrete postconditions over the exact monomial semantics (specs/exact/PassContracts.tla '
              'EXTENDS Monomial); rewrite rules model-checked as TLA+ rewriting actions (specs/exact/PassRewriteMC.tla); real passes '
              'run on TLC-alphabet and seeded monomial circuits, outputs discretised and judged by TLC',
    text='For every pass of the catalogue (seven rule passes, U3/ZXZXZ/GeneralSQ single-qudit decompositions, ToU3, ToVariable, '
         'BlockConversion, Compress, Unfold, GroupSingleQuditGate, QuickPartitioner (+Unfold), FillSingleQuditGates, Scanning and '
         'IterativeScanning gate removal, WalshDiagonalSynthesis, MGD, QSD, FullQSD, BlockZXZ, FullBlockZXZ, ExtractDiagonal, Rebase2QuditGate, '
         'AutoRebase2QuditGate; thorough adds TreeScanning and Exhaustive gate removal) '
         'the input is a monomial circuit whose operator TLC computes exactly from the gate names (Monomial.SemTable); the output circuit '
         'of the real pass is contracted by the harness from its own operations, the global phase is divided out, every column is '
         'discretised (index, phase class, within tolerance) and TLC decides: same operator up to global phase, source gate gone, only '
         'advertised gates introduced, removal passes never add operations, structure-only passes keep every per-qudit sequence. '
         'Inputs: every circuit of <= 3 operations over a two-qubit alphabet that contains the rule\'s source gate (quick: a seeded '
         'sample), seeded random monomial circuits on 1-3 qubits (5 thorough) with parameters at multiples of pi/4 (pi for X/Y '
         'rotations), CH-CH padded circuits for CHToCNOT, circuits with nested blocks, circuits with idle cycles, random monomial and '
         'diagonal unitaries; constructor options varied (start side, thresholds, convert-all flags, target gates, block sizes). '
         'Runtime-awaiting passes run through the real runtime under the SimKernel. Separately TLC model-checks eight monomial-closed '
         'rewrite rules as rewriting actions from every circuit of <= 3 operations: the semantics never changes.',
    note='NOT decided: inputs whose total unitary is not monomial (so rules whose source gate is H/CH are reached only through '
         'identity-padded inputs), and what "within the success threshold" means for a generic unitary. Tolerance of the `within` flag: '
         '1e-7 for exact passes, 1e-6 analytic, for threshold passes 10*sqrt(success_threshold) (the documented cost is a squared '
         'distance; weaker reading, never below 1e-5). A pass that raises on an input of its documented domain is reported as '
         'pass-failed-on-valid-input. Known findings: GeneralSQDecomposition builds a qubit circuit for a qutrit input; '
         'BlockZXZPass.demultiplex uses eig() whose eigenvectors are not orthonormal for degenerate spectra and raises on structured '
         'unitaries; ExtractDiagonalPass (and FullBlockZXZPass with its default perform_extract=True) always raises because its ansatz '
         'contains CNOTs and it insists on the qfactor instantiater. Not in the catalogue: synthesis passes that search (QSearch, LEAP, '
         'QFAST, QPredict, PAS), SubstitutePass, ExtendBlockSizePass. Trusted: TLC, harness/exact.py (own contraction + discretiser), '
         'harness/c10_catalogue.py.',
    ref='DESIGN.md section 4 / C10',
)


def key_of(rec, spec, clause):
    k = {'clause': clause, 'pass': rec['pass']}
    if clause == 'pass-failed-on-valid-input':
        k['radix'] = max(rec['r'])
        txt = rec.get('err_text', '')
        k['error'] = ('qfactor-not-capable' if 'qfactor' in txt else 'not-unitary' if 'unitary condition' in txt
                      else 'radix-mismatch' if 'radix mismatch' in txt else txt.split(':')[0].split(' ')[0])
    return k


def corrupt(rec):
    out = []
    o = json.loads(json.dumps(rec))
    if len(o['obs']) >= 2:
        o['obs'][0], o['obs'][1] = o['obs'][1], o['obs'][0]
        out.append(('unitary-changed', o))
    o = json.loads(json.dumps(rec))
    o['obs'][-1]['ph'] = (o['obs'][-1]['ph'] + 6) % exact.PH
    out.append(('unitary-changed', o))
    return out


FIELDS = ('pass', 'opt', 'r', 'ops', 'raised', 'obs', 'gin', 'gout', 'nin', 'nout', 'qin', 'qout')


def run(ctx: Ctx) -> Outcome:
    common.use_repo()
    from harness.simcompile import quiet
    quiet()
    out = Outcome('C10')
    states = trans = 0
    mc_info = {}
    t_mc = 0.0
    if ctx.replay:
        specs = [ctx.replay['replay']['spec']]
    else:
        t0 = time.time()
        r = common.tlc(MC, MCCFG, coverage=True, scratch=ctx.scratch, timeout=3000)
        t_mc = time.time() - t0
        if not r.ok:
            raise MachineryError('PassRewriteMC.tla: a rewrite rule changes the semantics, or TLC failed: %s' % (r.error or r.out[-1500:]))
        acts = {}
        for k, v in r.coverage.items():
            acts[k.split('@')[0]] = acts.get(k.split('@')[0], 0) + v
        vac = [a for a in ('SwapToCX', 'CYToCX', 'CXToCY', 'CZToCX', 'CZFlip', 'XThroughCX', 'ZThroughCX', 'SSToZ') if not acts.get(a)]
        if vac:
            raise MachineryError('PassRewriteMC.tla: rule(s) never applied: %s' % vac)
        states += r.distinct
        trans += r.states
        mc_info = {'spec': 'specs/exact/PassRewriteMC.tla', 'states': r.distinct, 'transitions': r.states, 'depth': r.depth, 'actions': acts}
        specs = K.generate(ctx.seed, ctx.quick)
    t0 = time.time()
    recs = exact.pmap(K.observe, specs, procs=14 if not ctx.replay else 1, chunksize=6)
    t_run = time.time() - t0
    bad = [(specs[i]['pass'], r['machinery']) for i, r in enumerate(recs) if 'machinery' in r]
    if bad:
        raise MachineryError('catalogue entries could not be run: %s' % bad[:3])
    vrecs = [{k: r[k] for k in FIELDS} for r in recs]
    nreal = len(vrecs)
    cor = []
    if not ctx.replay:
        rngc = random.Random(ctx.seed)
        pick = [j for j, v in enumerate(vrecs) if not v['raised'] and len(v['obs']) >= 2 and all(o['within'] for o in v['obs'])]
        for j in rngc.sample(pick, min(5, len(pick))):
            for expect, o in corrupt(vrecs[j]):
                cor.append((expect, j))
                vrecs.append(o)
    t0 = time.time()
    verdicts, s2, t2, _ = exact.par_validate(SPEC, CFG, vrecs, ctx.scratch, groups=8 if len(vrecs) > 300 else 1, chunk=1000)
    t_val = time.time() - t0
    states += s2
    trans += t2
    by_case = {ci: clause for ci, _s, clause, _e in verdicts}
    for n, (expect, j) in enumerate(cor):
        if by_case.get(nreal + n) is None:
            raise MachineryError('corrupted observation of case %d (%s) was accepted' % (j, vrecs[j]['pass']))
    clause_counts = {}
    for ci in sorted(by_case):
        if ci >= nreal:
            continue
        clause = by_case[ci]
        rec, spec = recs[ci], specs[ci]
        if clause == 'pass-not-in-catalogue':
            raise MachineryError('pass %s has no contract in PassContracts.tla' % rec['pass'])
        clause_counts['%s:%s' % (rec['pass'], clause)] = clause_counts.get('%s:%s' % (rec['pass'], clause), 0) + 1
        detail = '%s: %s ctor=%s on radixes %s input %s -> gates %s (%d ops -> %d)%s' % (
            clause, rec['pass'], spec.get('ctor'), rec['r'], json.dumps([[o['g'], o['loc'], o['p']] for o in rec['ops']])[:500],
            rec['gout'], rec['nin'], rec['nout'], (' error: ' + rec['err_text'][-300:]) if rec['raised'] else '')
        out.violations.append(Violation('C10', clause, key_of(rec, spec, clause), detail, {'spec': spec}))
    per_pass = {}
    for r in recs:
        per_pass[r['pass']] = per_pass.get(r['pass'], 0) + 1
    changed = {common.digest([r['pass'], r['r'], r['ops'], specs[i].get('ctor')]) for i, r in enumerate(recs)
               if not r['raised'] and (r['gout'] != r['gin'] or r['nout'] != r['nin'] or r['qout'] != r['qin'] or r.get('cycles', [0, 0])[0] != r.get('cycles', [0, 0])[1])}
    out.coverage = {
        'states': states, 'transitions': trans,
        'traces_validated_against_impl': nreal,
        'evaluations': nreal, 'distinct_nontrivial': len(changed),
        'rule': 'one case = one catalogue pass run on one monomial input; non-trivial = the pass changed the circuit (gate set, operation '
                'count, per-qudit sequences or cycle count); distinct by hash of (pass, options, input)',
        'exhaustive': False,
        'exhaustive_part': 'PassRewriteMC: every circuit of <= 3 ops over the 16-symbol two-qubit alphabet x every rule application order '
                           '(length <= 6); rule passes: every such circuit containing the source gate (thorough), seeded sample (quick)',
        'model_checking': mc_info,
        'passes': per_pass, 'catalogue_size': len(per_pass),
        'through_simulated_runtime': sum(1 for s in specs if s.get('run') == 'sim'),
        'corrupted_observations_rejected': len(cor),
        'verdicts_by_pass_and_clause': clause_counts,
        'wall': {'tlc_model_checking': round(t_mc, 1), 'real_runs': round(t_run, 1), 'tlc_validation': round(t_val, 1)},
        'samples': [{'pass': recs[i]['pass'], 'ctor': specs[i].get('ctor'), 'r': recs[i]['r'],
                     'ops': [[o['g'], o['loc'], o['p']] for o in recs[i]['ops']][:8], 'gout': recs[i]['gout'], 'obs': recs[i]['obs'][:4]}
                    for i in (0, len(recs) // 2, len(recs) - 1) if i < len(recs)],
        'checker_cmd': 'tlc -coverage 1 specs/exact/PassRewriteMC.tla ; tlc -config specs/exact/PassContracts.cfg '
                       'specs/exact/PassContracts.tla (batch, TRACE_FILE=cases.json)',
        'trusted_base': ['TLC', 'harness/exact.py (own_unitary contraction, table_of discretiser)',
                         'harness/c10_catalogue.py (input construction, gate names / per-qudit signatures of the output)'],
    }
    out.assumptions = ['inputs are monomial circuits (total unitary a generalized permutation with phases in multiples of 2*pi/48)',
                       'threshold passes: within = column error <= max(1e-5, 10*sqrt(success_threshold))',
                       'the advertised target gate sets of the analytic decompositions (QSD, Block-ZXZ) are read from their docstrings and code']
    return out
