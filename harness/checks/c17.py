"""C17 — OpenQASM 2 import/export preserves the program and agrees with Qiskit.

Oracle: specs/qasm/QasmSem.tla (denotation of an abstract syntax tree as a flat op list, exact rational
arithmetic for a + b*pi), used by
  * specs/qasm/QasmGen.tla  -- TLC enumerates every small program of three families as states, checks
    consistency invariants of the denotation on each and prints the trees; the harness runs BQSKit (and
    Qiskit) on exactly those programs;
  * specs/qasm/QasmCheck.tla -- batch validation: every observation (BQSKit's decoded circuit, Qiskit's reading
    of the same text, BQSKit's decode(encode(c)), Qiskit's reading of encode(c), unitary tables on the
    exact domain) is judged by TLC against the denotation.
This module only generates trees, prints them as text, observes the implementations and maps VERDICT lines
to Violations.  The small evaluator below (``_mirror``) exists to keep *generated* programs inside the
exact domain of the specification (bounded rationals, distinct parameter values); it decides nothing --
TLC re-checks the same conditions (``GeneratorError``) and the harness treats a disagreement as its own failure.
"""
from __future__ import annotations

import json
import math
import os
import random
import warnings
from fractions import Fraction

from harness import common
from harness.common import Ctx, MachineryError, Outcome, Violation

SPECDIR = os.path.join(common.SPECS, 'qasm')
CHECK = os.path.join(SPECDIR, 'QasmCheck.tla')
CHECK_CFG = os.path.join(SPECDIR, 'QasmCheck.cfg')
GEN = os.path.join(SPECDIR, 'QasmGen.tla')

MANIFEST_ENTRY = dict(
    engine='qasm',
    technique='TLA+ interpreter for an OpenQASM 2 abstract syntax (specs/qasm/QasmSem.tla) as oracle; TLC enumerates small '
              'programs (QasmGen.tla, consistency invariants) and validates observations of BQSKit and Qiskit (QasmCheck.tla)',
    text='Programs of the OpenQASM 2 subset (1-3 qubit registers with offsets, classical registers, include qelib1, nested user gate '
         'definitions with formal parameters and qubits, gate applications incl. register broadcast, U/CX, barrier, measure of a bit or a '
         'register, reset, parameter expressions over decimals, scientific notation and pi with + - * / ^, unary minus and parentheses) are '
         '(a) enumerated exhaustively by TLC for three small families (all expressions to depth 2; all bodies/actuals of a two-level gate '
         'binding; all sequences of <=2 statements over 3 register layouts) and (b) generated at random (seeded).  Each is printed as text, '
         'decoded by BQSKit and by qiskit.qasm2.loads; TLC compares the per-qubit sequences of (gate, flat qubits, parameter values scaled '
         'by 1e4, measured bit, reset/barrier qubits) of both readers with the specification\'s expansion of the same tree.  Round trip: '
         'circuits over every library gate with a QASM spelling (random parameters, nested CircuitGates, ControlledGates that are '
         'encodable) are encoded and decoded again; TLC compares the result with the expansion of the circuit\'s description, the '
         'parameters to 12 digits, Qiskit\'s reading of the exported text, and on the exact (monomial) domain the unitary table.',
    note='Not decided: the numerical value of sin/cos/tan/exp/ln/sqrt (only that a program using them is accepted and everything else in it '
         'is right; a rejection is clause function-call-fails); matrix-level agreement of non-monomial named gates with Qiskit (names, '
         'qubits and parameter values are compared, and p/u1/rz, cp/cu1, u/u3/U are identified up to global phase by the specification); '
         '`if` statements and opaque gates are outside the subset; a clean LangException on gate broadcast over a register is accepted '
         '(broadcast is not in the property\'s list).  Trusted: TLC, the printer and the two flatteners in harness/checks/c17.py (the '
         'printer and the specification\'s reading of the language are cross-validated by Qiskit on every program), harness/exact.py.',
    ref='DESIGN.md section 4 / C17, Appendix D.6',
)

PARAM_NAMES = ['theta', 'phi', 'lam', 'gam']
QUBIT_NAMES = ['a', 'b', 'c', 'd', 'e']
FUNCS = ['sin', 'cos', 'tan', 'exp', 'ln', 'sqrt']

# library names: (number of parameters, number of qubits).  QK = also known to Qiskit's loader (legacy qelib1 set).
QK = {'u3': (3, 1), 'u2': (2, 1), 'u1': (1, 1), 'cx': (0, 2), 'id': (0, 1), 'u': (3, 1), 'p': (1, 1), 'x': (0, 1), 'y': (0, 1),
      'z': (0, 1), 'h': (0, 1), 's': (0, 1), 'sdg': (0, 1), 't': (0, 1), 'tdg': (0, 1), 'rx': (1, 1), 'ry': (1, 1), 'rz': (1, 1),
      'sx': (0, 1), 'sxdg': (0, 1), 'cz': (0, 2), 'cy': (0, 2), 'swap': (0, 2), 'ch': (0, 2), 'ccx': (0, 3), 'cswap': (0, 3),
      'crx': (1, 2), 'cry': (1, 2), 'crz': (1, 2), 'cu1': (1, 2), 'cp': (1, 2), 'cu3': (3, 2), 'csx': (0, 2), 'cu': (4, 2),
      'rxx': (1, 2), 'rzz': (1, 2), 'rccx': (0, 3), 'rc3x': (0, 4), 'c3x': (0, 4), 'c3sqrtx': (0, 4), 'c4x': (0, 5),
      'U': (3, 1), 'CX': (0, 2)}
BQ_ONLY = {'b': (0, 2), 'ecr': (0, 2), 'iswap': (0, 2), 'sqisw': (0, 2), 'syc': (0, 2), 'cs': (0, 2), 'ct': (0, 2), 'iccx': (0, 3),
           'ryy': (1, 2), 'ccp': (1, 3), 'fsim': (2, 2), 'cu2': (2, 2), 'u1q': (2, 1), 'xx': (0, 2), 'yy': (0, 2), 'zz': (0, 2),
           'v': (0, 1), 'cv': (0, 2)}


# =============================================================================== trees
def num(m, e=0, sci=False):
    return {'k': 'num', 'm': int(m), 'e': int(e), 'sci': bool(sci)}


PI = {'k': 'pi'}


def var(i):
    return {'k': 'var', 'i': i}


def par(x):
    return {'k': 'par', 'x': x}


def neg(x):
    return {'k': 'neg', 'x': x}


def binop(k, x, y):
    return {'k': k, 'x': x, 'y': y}


def fn(f, x):
    return {'k': 'fn', 'f': f, 'x': x}


def arg(r, i=-1):
    return {'r': r, 'i': i}


def app(g, p, q):
    return {'k': 'app', 'g': g, 'p': p, 'q': q, 'c': []}


# ------------------------------------------------------------------------------- printer (trusted; cross-checked by Qiskit)
def show_num(n):
    m, e = n['m'], n['e']
    if n['sci']:
        s = str(m)
        mant = s[0] + ('.' + s[1:] if len(s) > 1 else '')
        return '%se%d' % (mant, e + len(s) - 1)
    if e >= 0:
        return str(m * 10 ** e)
    s = str(m).rjust(-e + 1, '0')
    return s[:e] + '.' + s[e:]


OPS = {'add': '+', 'sub': '-', 'mul': '*', 'div': '/', 'pow': '^'}


def show(e, names):
    k = e['k']
    if k == 'num':
        return show_num(e)
    if k == 'pi':
        return 'pi'
    if k == 'var':
        return names[e['i'] - 1]
    if k == 'par':
        return '(' + show(e['x'], names) + ')'
    if k == 'neg':
        return '-' + show(e['x'], names)
    if k == 'fn':
        return e['f'] + '(' + show(e['x'], names) + ')'
    return show(e['x'], names) + OPS[k] + show(e['y'], names)


def show_arg(a):
    return a['r'] if a['i'] < 0 else '%s[%d]' % (a['r'], a['i'])


def text_of(P, decl_first=True):
    head = 'OPENQASM 2.0;\ninclude "qelib1.inc";\n'
    decl = ''.join('qreg %s[%d];\n' % (r['n'], r['s']) for r in P['qregs'])
    decl += ''.join('creg %s[%d];\n' % (r['n'], r['s']) for r in P['cregs'])
    gates = ''
    for g in P['gates']:
        pn, qn = PARAM_NAMES[:g['np']], QUBIT_NAMES[:g['nq']]
        gates += 'gate %s%s %s {\n' % (g['name'], '(%s)' % ','.join(pn) if pn else '', ','.join(qn))
        for st in g['body']:
            ps = '(%s)' % ','.join(show(e, pn) for e in st['p']) if st['p'] else ''
            gates += '  %s%s %s;\n' % (st['g'], ps, ','.join(qn[i - 1] for i in st['q']))
        gates += '}\n'
    body = ''
    for st in P['stmts']:
        if st['k'] == 'app':
            ps = '(%s)' % ','.join(show(e, []) for e in st['p']) if st['p'] else ''
            body += '%s%s %s;\n' % (st['g'], ps, ','.join(show_arg(a) for a in st['q']))
        elif st['k'] == 'barrier':
            body += 'barrier %s;\n' % ','.join(show_arg(a) for a in st['q'])
        elif st['k'] == 'measure':
            body += 'measure %s -> %s;\n' % (show_arg(st['q'][0]), show_arg(st['c'][0]))
        else:
            body += 'reset %s;\n' % show_arg(st['q'][0])
    return head + (decl + gates if decl_first else gates + decl) + body


# ------------------------------------------------------------------------------- generation filter (decides nothing)
class _Bad(Exception):
    pass


def _chk(a, b):
    if abs(a.numerator) > 20000 or a.denominator > 20000 or abs(a) > 150:
        raise _Bad
    if abs(b.numerator) > 2000 or b.denominator > 2000 or abs(b) > 30:
        raise _Bad
    return a, b


def _mirror(e, env):
    """(a, b) with value a + b*pi, or None for an opaque (function) value; raises _Bad outside the domain."""
    k = e['k']
    if k == 'num':
        return _chk(Fraction(e['m']) * Fraction(10) ** e['e'], Fraction(0))
    if k == 'pi':
        return Fraction(0), Fraction(1)
    if k == 'var':
        return env[e['i'] - 1]
    if k == 'par':
        return _mirror(e['x'], env)
    if k == 'neg':
        v = _mirror(e['x'], env)
        return None if v is None else (-v[0], -v[1])
    if k == 'fn':             # keep the argument inside the function's domain (both readers fold constants eagerly)
        v = _mirror(e['x'], env)
        if v is None:
            raise _Bad            # no nested function calls
        x = float(v[0]) + float(v[1]) * math.pi
        if (e['f'] == 'ln' and x < 0.05) or (e['f'] == 'sqrt' and x < 0) or (e['f'] == 'tan' and abs(math.cos(x)) < 0.1) or (e['f'] == 'exp' and x > 5):
            raise _Bad
        return None
    v, u = _mirror(e['x'], env), _mirror(e['y'], env)
    if k == 'div' and (u is None or (not u[0] and not u[1])):
        raise _Bad                # no division by zero or by a function value (which may be zero)
    if k == 'pow' and (v is None or u is None):
        raise _Bad
    if v is None or u is None:
        return None
    if k == 'add':
        return _chk(v[0] + u[0], v[1] + u[1])
    if k == 'sub':
        return _chk(v[0] - u[0], v[1] - u[1])
    if k == 'mul':
        if v[1] and u[1]:
            raise _Bad
        return _chk(v[0] * u[0], v[1] * u[0]) if not u[1] else _chk(u[0] * v[0], u[1] * v[0])
    if k == 'div':
        if u[1] or not u[0]:
            raise _Bad
        return _chk(v[0] / u[0], v[1] / u[0])
    if k == 'pow':
        if u[1] or u[0].denominator != 1 or abs(u[0]) > 4 or v[1] or (u[0] < 0 and not v[0]):
            raise _Bad
        return _chk(v[0] ** int(u[0]), Fraction(0))
    raise _Bad


def _flat_mirror(P):
    """Parameter values of every flat gate op (lists of floats or None), to enforce distinctness/bounds at generation."""
    defs = {g['name']: g for g in P['gates']}
    out = []

    def expand(g, vals):
        if g not in defs:
            out.append(vals)
            return
        for st in defs[g]['body']:
            expand(st['g'], [_mirror(e, vals) for e in st['p']])
    for st in P['stmts']:
        if st['k'] == 'app':
            expand(st['g'], [_mirror(e, []) for e in st['p']])
    return out


def _acceptable(P):
    try:
        for g in P['gates']:      # closed sub-expressions of a definition are folded when it is read, applied or not
            for st in g['body']:
                for e in st['p']:
                    _mirror(e, [(Fraction(1), Fraction(0))] * g['np'])
        for vals in _flat_mirror(P):
            fl = [float(v[0]) + float(v[1]) * math.pi for v in vals if v is not None]
            for i in range(len(fl)):
                for j in range(i):
                    if abs(fl[i] - fl[j]) < 0.011:
                        return False
        return True
    except _Bad:
        return False


# ------------------------------------------------------------------------------- random trees (grammar shaped)
class Gen:
    def __init__(self, rng, thorough=False):
        self.rng = rng
        self.thorough = thorough

    def number(self):
        r = self.rng
        c = r.random()
        if c < 0.45:
            return num(r.choice([1, 2, 3, 4, 5, 7, 8]))
        if c < 0.7:
            return num(r.choice([5, 25, 15, 75, 125, 3, 12, 35]), r.choice([-1, -2, -1]))
        if c < 0.9:
            return num(r.choice([15, 25, 3, 5, 12, 175, 2]), r.choice([-2, -1, 0, 1]), True)
        return num(r.choice([1, 2, 3]), 1)

    def primary(self, nv, d, p):
        r = self.rng
        c = r.random()
        if d > 0 and c < p['par']:
            return par(self.exp(nv, d - 1, p))
        if d > 0 and c < p['par'] + p['fn']:
            return fn(r.choice(FUNCS), self.exp(nv, d - 1, p))
        c = r.random()
        if nv and c < 0.4:
            return var(r.randint(1, nv))
        if c < 0.65:
            return PI
        return self.number()

    def power(self, nv, d, p):
        r = self.rng
        x = self.primary(nv, d, p)
        if d > 0 and r.random() < p['pow']:
            y = num(r.choice([2, 2, 3]))
            if r.random() < 0.3:
                y = neg(num(r.choice([1, 2])))
            return binop('pow', x, y)
        return x

    def unary(self, nv, d, p):
        if self.rng.random() < p['neg']:
            return neg(self.unary(nv, d, p) if self.rng.random() < 0.15 else self.power(nv, d, p))
        return self.power(nv, d, p)

    def term(self, nv, d, p):
        r = self.rng
        e = self.unary(nv, d, p)
        for _ in range(r.choice([0, 0, 1, 1, 2]) if d > 0 else 0):
            e = binop(r.choice(['mul', 'div']), e, self.unary(nv, d - 1, p))
        return e

    def exp(self, nv, d, p):
        r = self.rng
        e = self.term(nv, d, p)
        for _ in range(r.choice([0, 0, 1, 1, 2]) if d > 0 else 0):
            e = binop(r.choice(['add', 'sub']), e, self.term(nv, d - 1, p))
        return e

    def expr(self, nv, p):
        return self.exp(nv, self.rng.choice([0, 1, 1, 2, 2, 3]), p)

    def program(self):
        r = self.rng
        # expression profile of this program
        p = {'par': r.choice([0, 0, 0.25, 0.4]), 'fn': r.choice([0, 0, 0, 0, 0.12]), 'pow': r.choice([0, 0.15]), 'neg': r.choice([0, 0.15, 0.3])}
        qk_only = r.random() < 0.8
        lib = dict(QK)
        if not qk_only:
            lib.update(BQ_ONLY)
        nreg = r.choice([1, 2, 2, 3])
        qregs = [{'n': n, 's': r.randint(1, 3)} for n in ['q', 'r', 'w'][:nreg]]
        sizes = sorted({x['s'] for x in qregs})
        cregs = [{'n': n, 's': s} for n, s in zip(['c', 'd', 'm'], sizes)]
        if r.random() < 0.5 and len(cregs) < 3:
            cregs.append({'n': ['c', 'd', 'm'][len(cregs)], 's': r.randint(1, 3)})
        r.shuffle(cregs)
        bits = [arg(x['n'], i) for x in qregs for i in range(x['s'])]
        nq = len(bits)
        avail = dict(lib)
        gates = []
        for gi in range(r.choice([0, 1, 1, 2, 2, 3] if self.thorough else [0, 1, 1, 2, 2])):
            np_, gq = r.choice([0, 1, 1, 2, 2, 3]), r.choice([1, 2, 2, 3])
            body = []
            for _ in range(r.randint(1, 4)):
                cands = [k for k, v in avail.items() if v[1] <= gq]
                g = r.choice(cands) if r.random() < 0.6 or not gates else r.choice([x['name'] for x in gates if x['nq'] <= gq] or cands)
                body.append({'g': g, 'p': [self.expr(np_, p) for _ in range(avail[g][0])], 'q': r.sample(range(1, gq + 1), avail[g][1])})
            name = 'g%d' % gi if r.random() < 0.7 else ['mygate', 'rot_a', 'ent_2'][gi]
            gates.append({'name': name, 'np': np_, 'nq': gq, 'body': body})
            avail[name] = (np_, gq)
        stmts = []
        for _ in range(r.randint(1, 7 if self.thorough else 5)):
            c = r.random()
            if c < 0.68:
                cands = [k for k, v in avail.items() if v[1] <= nq]
                g = r.choice([x['name'] for x in gates if x['nq'] <= nq]) if gates and r.random() < 0.45 and any(x['nq'] <= nq for x in gates) else r.choice(cands)
                k = avail[g][1]
                qs = None
                if r.random() < 0.12:            # broadcast over registers of one size (plus bits of other registers)
                    s = r.choice(sizes)
                    regs = [x for x in qregs if x['s'] == s]
                    nw = r.randint(1, min(k, len(regs)))
                    wh = r.sample(regs, nw)
                    rest = [b for b in bits if b['r'] not in {w['n'] for w in wh}]
                    if len(rest) >= k - nw:
                        qs = [arg(w['n']) for w in wh] + r.sample(rest, k - nw)
                        r.shuffle(qs)
                if qs is None:
                    qs = r.sample(bits, k)
                stmts.append(app(g, [self.expr(0, p) for _ in range(avail[g][0])], qs))
            elif c < 0.78:
                regs = r.sample(qregs, r.randint(0, len(qregs)))
                rest = [b for b in bits if b['r'] not in {w['n'] for w in regs}]
                qs = [arg(w['n']) for w in regs] + r.sample(rest, r.randint(0 if regs else 1, min(3, len(rest))))
                if not qs:
                    qs = [r.choice(bits)]
                r.shuffle(qs)
                stmts.append({'k': 'barrier', 'g': '', 'p': [], 'q': qs, 'c': []})
            elif c < 0.9:
                if r.random() < 0.4:
                    reg = r.choice(qregs)
                    cr = r.choice([x for x in cregs if x['s'] == reg['s']])
                    stmts.append({'k': 'measure', 'g': '', 'p': [], 'q': [arg(reg['n'])], 'c': [arg(cr['n'])]})
                else:
                    cr = r.choice(cregs)
                    stmts.append({'k': 'measure', 'g': '', 'p': [], 'q': [r.choice(bits)], 'c': [arg(cr['n'], r.randrange(cr['s']))]})
            else:
                a = arg(r.choice(qregs)['n']) if r.random() < 0.4 else r.choice(bits)
                stmts.append({'k': 'reset', 'g': '', 'p': [], 'q': [a], 'c': []})
        return {'qregs': qregs, 'cregs': cregs, 'gates': gates, 'stmts': stmts}

    def good_program(self):
        for _ in range(200):
            P = self.program()
            if _acceptable(P):
                return P
        raise MachineryError('C17 generator: no acceptable program in 200 tries')


def features(P):
    """Syntactic features a program uses (statistics for the evidence file; the finding key is computed by TLC)."""
    f = set()

    def walk(e):
        k = e['k']
        if k == 'par':
            f.add('parenthesised-expression')
        if k == 'fn':
            f.add('fn:' + e['f'])
        if k == 'pow':
            f.add('power')
        if k == 'neg':
            f.add('unary-minus')
        if k == 'num' and e['sci']:
            f.add('scientific-notation')
        for c in ('x', 'y'):
            if c in e:
                walk(e[c])
    names = {g['name'] for g in P['gates']}
    for g in P['gates']:
        for st in g['body']:
            if st['g'] in names:
                f.add('nested-gate-definition')
            for e in st['p']:
                walk(e)
    if len(P['qregs']) > 1:
        f.add('several-registers')
    for st in P['stmts']:
        for e in st['p']:
            walk(e)
        whole = any(a['i'] < 0 for a in st['q'])
        if st['k'] == 'app':
            if st['g'] in names:
                f.add('user-gate')
            if whole:
                f.add('register-broadcast')
            if st['g'] in ('U', 'CX'):
                f.add('builtin-U-CX')
        else:
            f.add(('register-' if whole else 'qubit-') + st['k'])
    return sorted(f)


# =============================================================================== observers
CLIP = 1 << 30


def sc(x):
    try:
        v = float(x) * 1e4
        if v != v or abs(v) > CLIP:
            return CLIP
        return int(round(v))
    except Exception:
        return CLIP


def fine(x):
    """12 significant decimal digits of a parameter as two integers: (hi + lo/1e9)/1e3 (hi clipped)."""
    try:
        v = float(x) * 1e3
        if v != v or abs(v) > CLIP:
            return [CLIP, 0]
        hi = math.floor(v)
        lo = int(round((v - hi) * 1e9))
        if lo >= 10 ** 9:
            hi, lo = hi + 1, lo - 10 ** 9
        return [int(hi), lo]
    except Exception:
        return [CLIP, 0]


def obs_op(g, q, p=(), m=()):
    return {'g': str(g), 'q': [int(x) for x in q], 'p': [sc(x) for x in p], 'f': [fine(x) for x in p], 'm': list(m)}


def bq_name(gate):
    from bqskit.ir.gates.composed.daggergate import DaggerGate
    from bqskit.ir.gates.composed.tagged import TaggedGate
    if isinstance(gate, TaggedGate):
        return bq_name(gate.gate)
    if isinstance(gate, DaggerGate):          # decoded `sxdg`: no spelling of its own
        return bq_name(gate.gate) + 'dg'
    try:
        return str(gate.qasm_name)
    except Exception:
        pass
    from bqskit.ir.gates.composed.controlled import ControlledGate
    if isinstance(gate, ControlledGate):      # decoded `c3sqrtx`: a controlled gate the encoder has no spelling for
        n = gate.num_controls
        return ('c' * n if n <= 2 else 'c%d' % n) + bq_name(gate.gate)
    return type(gate).__name__


def flat_bq(circ, loc=None, out=None):
    """Flatten a BQSKit circuit in iteration order (per-qubit order is what TLC compares); CircuitGates are entered."""
    from bqskit.ir.gates import CircuitGate
    from bqskit.ir.gates.barrier import BarrierPlaceholder
    from bqskit.ir.gates.measure import MeasurementPlaceholder
    from bqskit.ir.gates.reset import Reset
    out = [] if out is None else out
    for op in circ:
        q = [int(x) if loc is None else loc[int(x)] for x in op.location]
        g = op.gate
        if isinstance(g, CircuitGate):
            inner = g._circuit.copy()
            inner.set_params(list(op.params))
            flat_bq(inner, q, out)
        elif isinstance(g, MeasurementPlaceholder):
            out.append(obs_op('measure', q, m=[{'k': int(k), 'r': str(r), 'i': int(i)} for k, (r, i) in g.measurements.items()]))
        elif isinstance(g, Reset):
            out.append(obs_op('reset', q))
        elif isinstance(g, BarrierPlaceholder):
            out.append(obs_op('barrier', q))
        else:
            out.append(obs_op(bq_name(g), q, op.params))
    return out


def status_of(e):
    from bqskit.ir.lang.language import LangException
    return {'status': 'lang-exception' if isinstance(e, LangException) else 'crash', 'err': type(e).__name__, 'nq': 0, 'ops': []}


def observe_bq(src):
    from bqskit.ir.lang.qasm2 import OPENQASM2Language
    try:
        c = OPENQASM2Language().decode(src)
        return {'status': 'ok', 'err': '', 'nq': int(c.num_qudits), 'ops': flat_bq(c)}
    except Exception as e:
        return status_of(e)


QK_LIBRARY = None


def flat_qk(qc, qmap, out):
    global QK_LIBRARY
    if QK_LIBRARY is None:
        from qiskit.qasm2 import LEGACY_CUSTOM_INSTRUCTIONS
        QK_LIBRARY = {ci.name for ci in LEGACY_CUSTOM_INSTRUCTIONS} | {'u', 'cx', 'rcccx', 'mcx', 'c3sx', 'U', 'CX'}
    for inst in qc.data:
        o = inst.operation
        q = [qmap[qc.find_bit(b).index] for b in inst.qubits]
        if o.name == 'measure':
            bit = qc.find_bit(inst.clbits[0])
            reg, idx = bit.registers[0]
            out.append(obs_op('measure', q, m=[{'k': q[0], 'r': str(reg.name), 'i': int(idx)}]))
        elif o.name in ('reset', 'barrier'):
            out.append(obs_op(o.name, q))
        elif o.name in QK_LIBRARY:
            out.append(obs_op(o.name, q, [float(x) for x in o.params]))
        else:
            flat_qk(o.definition, q, out)        # a gate defined in the program text
    return out


def observe_qk(src):
    import qiskit.qasm2 as q2
    try:
        qc = q2.loads(src, custom_instructions=q2.LEGACY_CUSTOM_INSTRUCTIONS)
        return {'status': 'ok', 'err': '', 'nq': int(qc.num_qubits), 'ops': flat_qk(qc, list(range(qc.num_qubits)), [])}
    except Exception as e:
        import re
        msg = re.sub(r'<input>:\d+,\d+: ', '', str(e)[:160])
        msg = re.sub(r'circuitgate_\d+', 'circuitgate_N', msg)
        return {'status': 'crash', 'err': type(e).__name__ + ':' + re.sub(r'[^A-Za-z0-9_ :.,()-]', '', msg), 'nq': 0, 'ops': []}


SKIPPED = {'status': 'skipped', 'err': '', 'nq': 0, 'ops': []}


def gate_names(P):
    names = {st['g'] for st in P['stmts'] if st['k'] == 'app'}
    for g in P['gates']:
        names |= {st['g'] for st in g['body']}
    return names - {g['name'] for g in P['gates']}


def decode_case(job):
    P, decl_first, origin = job
    src = text_of(P, decl_first)
    qk = observe_qk(src) if gate_names(P) <= set(QK) else SKIPPED
    return {'kind': 'decode', 'origin': origin, 'prog': P, 'decl_first': decl_first, 'src': src, 'bq': observe_bq(src), 'qk': qk}


# =============================================================================== round trip
def rt_library():
    """description name -> gate object, for every qubit gate of the library that carries a QASM spelling."""
    from bqskit.ir import gates as G
    from bqskit.ir.gates.composed.controlled import ControlledGate
    lib = {
        'x': G.XGate(), 'y': G.YGate(), 'z': G.ZGate(), 'h': G.HGate(), 's': G.SGate(), 'sdg': G.SdgGate(), 't': G.TGate(), 'tdg': G.TdgGate(),
        'sx': G.SXGate(), 'sxdg': G.SXdgGate(), 'st': G.SqrtTGate(),
        'rx': G.RXGate(), 'ry': G.RYGate(), 'rz': G.RZGate(), 'u1': G.U1Gate(), 'u2': G.U2Gate(), 'u3': G.U3Gate(), 'U1q': G.U1qGate(),
        'pxz': G.PhasedXZGate(),
        'cx': G.CXGate(), 'cy': G.CYGate(), 'cz': G.CZGate(), 'ch': G.CHGate(), 'swap': G.SwapGate(), 'csx': G.SqrtCNOTGate(), 'cs': G.CSGate(),
        'ct': G.CTGate(), 'b': G.BGate(), 'ecr': G.ECRGate(), 'iswap': G.ISwapGate(), 'sqisw': G.SqrtISwapGate(), 'syc': G.SycamoreGate(),
        'xx': G.XXGate(), 'yy': G.YYGate(), 'zz': G.ZZGate(),
        'crx': G.CRXGate(), 'cry': G.CRYGate(), 'crz': G.CRZGate(), 'cp': G.CPGate(), 'rxx': G.RXXGate(), 'ryy': G.RYYGate(), 'rzz': G.RZZGate(),
        'fsim': G.FSIMGate(), 'cu': G.CUGate(), 'diag': G.DiagonalGate(2), 'mpry': G.MPRYGate(2), 'mprz': G.MPRZGate(2),
        'ccx': G.CCXGate(), 'rccx': G.RCCXGate(), 'iccx': G.IToffoliGate(), 'ccp': G.CCPGate(), 'rc3x': G.RC3XGate(),
        'cu1': ControlledGate(G.U1Gate()), 'cu2': ControlledGate(G.U2Gate()), 'cu3': ControlledGate(G.U3Gate()),
        'cswap': ControlledGate(G.SwapGate()), 'c3x': ControlledGate(G.XGate(), 3), 'c4x': ControlledGate(G.XGate(), 4),
    }
    return lib


def uncovered_spellings(lib):
    """Spellings declared by library classes that the round-trip library above does not exercise (reported in evidence)."""
    import inspect
    from bqskit.ir import gates as G
    from bqskit.ir.gate import Gate
    have = set()
    for g in lib.values():
        try:
            have.add(str(g.qasm_name))
        except Exception:
            pass
    missing = []
    for name in sorted(dir(G)):
        cls = getattr(G, name)
        if inspect.isclass(cls) and issubclass(cls, Gate):
            qn = cls.__dict__.get('_qasm_name')
            if isinstance(qn, str) and qn not in have:
                missing.append('%s:%s' % (name, qn))
    return missing


def rt_value(rng):
    """A parameter literal m*10^e (exactly what the description says) plus an offset of df*1e-13 the specification ignores
    (it is below the 1e-4 comparison) but the 12-digit before/after comparison sees."""
    c = rng.random()
    if c < 0.7:
        n = num(rng.randint(1, 62832), -4)
    elif c < 0.85:
        n = num(rng.randint(1, 999), rng.choice([-6, -7, -8]))        # printed by str(float) with an exponent
    else:
        n = num(rng.randint(1, 9), 0)
    n['df'] = rng.randint(0, 10 ** 8)
    return neg(n) if rng.random() < 0.35 else n


def rt_float(e, vals):
    if e['k'] == 'var':
        return vals[e['i'] - 1]
    if e['k'] == 'neg':
        return -rt_float(e['x'], vals)
    return e['m'] * 10.0 ** e['e'] + e.get('df', 0) * 1e-13


def rt_program(rng, names, arity, n, nstmts, ndefs):
    """Description of a circuit on n qubits: nested CircuitGates are gate definitions whose formals are used once, in order."""
    avail = {k: arity[k] for k in names if arity[k][1] <= n}
    gates = []
    for gi in range(ndefs):
        gq = rng.randint(1, min(3, n))
        body, np_ = [], 0
        for _ in range(rng.randint(1, 3)):
            cands = [k for k, v in avail.items() if v[1] <= gq]
            if not cands:
                break
            g = rng.choice([x['name'] for x in gates if x['nq'] <= gq] or cands) if gates and rng.random() < 0.4 else rng.choice(cands)
            k = avail[g][0]
            body.append({'g': g, 'p': [var(np_ + i + 1) for i in range(k)], 'q': rng.sample(range(1, gq + 1), avail[g][1])})
            np_ += k
        if not body:
            continue
        name = 'cg%d' % gi
        gates.append({'name': name, 'np': np_, 'nq': gq, 'body': body})
        avail[name] = (np_, gq)
    stmts = []
    for _ in range(nstmts):
        g = rng.choice([x['name'] for x in gates]) if gates and rng.random() < 0.35 else rng.choice(list(avail))
        k, w = avail[g]
        stmts.append(app(g, [rt_value(rng) for _ in range(k)], [arg('q', i) for i in rng.sample(range(n), w)]))
        if rng.random() < 0.08:
            stmts.append({'k': 'barrier', 'g': '', 'p': [], 'q': [arg('q', i) for i in rng.sample(range(n), rng.randint(1, n))], 'c': []})
    return {'qregs': [{'n': 'q', 's': n}], 'cregs': [], 'gates': gates, 'stmts': stmts}


def rt_shape(P):
    """'custom-gate-in-two-scopes' when some definition is used from two scopes (top level / another definition)."""
    scopes = {}
    for st in P['stmts']:
        if st['k'] == 'app':
            scopes.setdefault(st['g'], set()).add('top')
    for g in P['gates']:
        for st in g['body']:
            scopes.setdefault(st['g'], set()).add(g['name'])
    names = {g['name'] for g in P['gates']}
    return 'custom-gate-in-two-scopes' if any(len(v) > 1 for k, v in scopes.items() if k in names) else 'plain'


def rt_build(P, lib):
    from bqskit.ir.circuit import Circuit
    from bqskit.ir.gates import CircuitGate
    from bqskit.ir.gates.barrier import BarrierPlaceholder
    defs = {g['name']: g for g in P['gates']}

    def inst(g, vals):
        if g not in defs:
            return lib[g], vals
        d = defs[g]
        inner = Circuit(d['nq'])
        for st in d['body']:
            sg, sp = inst(st['g'], [rt_float(e, vals) for e in st['p']])
            inner.append_gate(sg, [i - 1 for i in st['q']], sp)
        return CircuitGate(inner), list(inner.params)
    c = Circuit(P['qregs'][0]['s'])
    for st in P['stmts']:
        q = [a['i'] for a in st['q']]
        if st['k'] == 'barrier':
            c.append_gate(BarrierPlaceholder(len(q)), q)
        else:
            g, p = inst(st['g'], [rt_float(e, []) for e in st['p']])
            c.append_gate(g, q, p)
    return c


_RT_LIB = None


def rt_case(job):
    global _RT_LIB
    P, suspect, origin = job
    from bqskit.ir.lang.qasm2 import OPENQASM2Language
    if _RT_LIB is None:
        _RT_LIB = rt_library()
    case = {'kind': 'rt', 'origin': origin, 'prog': P, 'suspect': suspect, 'shape': rt_shape(P), 'src': '',
            'pre': SKIPPED, 'enc': {'status': 'ok', 'err': ''}, 'bq': SKIPPED, 'qk': SKIPPED}
    c = rt_build(P, _RT_LIB)
    case['pre'] = {'status': 'ok', 'err': '', 'nq': int(c.num_qudits), 'ops': flat_bq(c)}
    try:
        src = OPENQASM2Language().encode(c)
    except Exception as e:
        case['enc'] = {'status': 'crash', 'err': type(e).__name__}
        return case
    case['src'] = src
    case['bq'] = observe_bq(src)
    if gate_names(P) <= set(QK):
        case['qk'] = observe_qk(src)
    return case


def rtu_case(job):
    """Exact domain: a monomial circuit, its Monomial.tla description, and the table read off the round-tripped circuit."""
    ops, n, origin = job
    from bqskit.ir.circuit import Circuit
    from bqskit.ir.lang.qasm2 import OPENQASM2Language
    from harness import exact
    c = Circuit(n)
    for o in ops:
        p = o['p'] if o['g'] in exact.PARAM_ARITY else []
        c.append_gate(exact.bq_gate(o['g'], p), o['loc'], [x * math.pi / 4 for x in p])
    case = {'kind': 'rtu', 'origin': origin, 'ops': ops, 'r': [2] * n, 'status': 'ok', 'err': '', 'obs': [{'idx': 0, 'ph': 0, 'within': False}],
            'pre': exact.table_of(c.get_unitary().numpy, absolute=False), 'src': ''}
    try:
        src = OPENQASM2Language().encode(c)
        case['src'] = src
        c2 = OPENQASM2Language().decode(src)
        case['obs'] = exact.table_of(c2.get_unitary().numpy, absolute=False)
    except Exception as e:
        case['status'], case['err'] = 'crash', type(e).__name__
    return case


RTU_NAMES = {1: ['X', 'Y', 'Z', 'S', 'Sdg', 'T', 'Tdg', 'RZ', 'U1', 'RX', 'RY', 'U3'],
             2: ['CX', 'CY', 'CZ', 'CS', 'CT', 'SWAP', 'ISWAP', 'Sycamore', 'ZZ', 'CP', 'CRZ', 'RZZ', 'CRX', 'CRY'],
             3: ['CCX', 'CCP']}


def rtu_ops(rng, n, nops):
    from harness import exact
    ops = []
    for _ in range(nops):
        k = rng.choice([a for a in (1, 1, 2, 2, 3) if a <= n])
        name = rng.choice(RTU_NAMES[k])
        ops.append(exact.op_record(name, exact.random_params(rng, name), rng.sample(range(n), k)))
    return ops


# =============================================================================== TLC passes
def enumerate_with_tlc(ctx, out):
    """The model-checking pass: TLC enumerates the program families of QasmGen, checks the invariants and prints the trees."""
    cfg = os.path.join(SPECDIR, 'QasmGen.cfg' if ctx.quick else 'QasmGen_thorough.cfg')
    r = common.tlc(GEN, cfg, coverage=True, scratch=ctx.scratch, workers=8, timeout=1500, heap='6g', env=JVM_LONG)
    if not r.ok:
        raise MachineryError('TLC failed on QasmGen.tla (an invariant of the specification itself is violated, or TLC crashed): ' + (r.error or r.out[-1500:]))
    progs = {}
    for p in r.prints:
        if p and p[0] == 'AST':
            progs.setdefault(p[2], p[1])
    if not progs:
        raise MachineryError('QasmGen.tla printed no programs')
    if r.coverage.get('AddStmt', 0) == 0 or r.coverage.get('Expand', 0) == 0:
        raise MachineryError('QasmGen.tla: an action has zero coverage (vacuous model): %s' % r.coverage)
    items = [(json.loads(k), fam) for k, fam in sorted(progs.items())]
    out['gen'] = {'states': r.distinct, 'transitions': r.states, 'depth': r.depth, 'coverage': r.coverage, 'wall_s': round(r.wall, 1),
                  'programs': len(items), 'by_family': {f: sum(1 for _, x in items if x == f) for f in sorted({x for _, x in items})}}
    return items, r


def pool_map(pool, fn_, jobs):
    if pool is None or len(jobs) < 8:
        return [fn_(j) for j in jobs]
    return pool.map(fn_, jobs, chunksize=max(1, len(jobs) // 128))


def strip_for_tlc(case):
    """What TLC reads (text and bookkeeping stay in python; the 12-digit parameters only matter for the round trip)."""
    c = {k: v for k, v in case.items() if k not in ('src', 'origin', 'decl_first')}
    if case['kind'] == 'decode':
        for who in ('bq', 'qk'):
            c[who] = dict(c[who], ops=[{k: v for k, v in o.items() if k != 'f'} for o in c[who]['ops']])
    return c


def key_of(case, clause, extra):
    who, what, feature, gate = (list(extra) + ['', '', '', ''])[:4]
    k = {'clause': clause, 'who': who, 'what': what, 'feature': feature, 'gate': gate}
    if clause in ('function-call-fails', 'rejected-valid-program'):
        # TLC reports the functions the program calls in the 4th slot ("exp+sqrt+"); one boolean per function so that a
        # known-finding entry can say "a program that calls exp is refused with a parse error" whatever else it calls
        fns = [f for f in gate.split('+') if f]
        k['gate'] = ''
        k['functions'] = '+'.join(fns)
        for f in FUNCS:
            k['uses_' + f] = f in fns
    return k


CHUNK = 1800
# several JVMs run side by side: keep each one's collector small; short runs do not profit from the optimising compiler
JVM_SHORT = {'JAVA_TOOL_OPTIONS': '-XX:ParallelGCThreads=4 -XX:TieredStopAtLevel=1'}
JVM_LONG = {'JAVA_TOOL_OPTIONS': '-XX:ParallelGCThreads=4'}


def _validate_part(args):
    import re
    part, scratch = args
    _v, st, tr, results = common.batch_validate(CHECK, CHECK_CFG, part, scratch, chunk=CHUNK + 1, workers=6, timeout=1500, env=JVM_SHORT)
    verdicts = set()
    for r in results:                      # one chunk per part
        for m in re.finditer(r'<<\s*"VERDICT"', r.out):
            v, _ = common._parse_tla_value(r.out, m.start())
            verdicts.add((v[1] - 1, v[2], v[3], tuple(v[4:])))
    for idx, step, clause, extra in _v:
        verdicts.add((idx, step, clause, tuple(extra)))
    return verdicts, st, tr


def validate(cases, ctx, stats):
    """Batch validation by TLC (QasmCheck.tla), a few JVMs side by side (reading the JSON is the serial part of each).
    TLC wraps tuples longer than 80 columns over several lines (`<< "VERDICT",` ...), which common.parse_prints does not
    see, so the VERDICT tuples are read again from the raw output."""
    from concurrent.futures import ThreadPoolExecutor
    slim = [strip_for_tlc(c) for c in cases]
    parts = [(slim[i:i + CHUNK], ctx.scratch) for i in range(0, len(slim), CHUNK)]
    with ThreadPoolExecutor(max_workers=4) as ex:
        res = list(ex.map(_validate_part, parts))
    verdicts = []
    for pi, (vs, st, tr) in enumerate(res):
        stats['states'] += st
        stats['transitions'] += tr
        verdicts += [(pi * CHUNK + idx, step, clause, extra) for idx, step, clause, extra in vs]
    return sorted(verdicts)


def detail_of(case, clause, extra):
    who, what, feature, gate = (list(extra) + ['', '', '', ''])[:4]
    lines = ['%s: %s (%s; feature %s; gate %s)' % (who, clause, what, feature, gate)]
    if case['kind'] == 'rtu':
        lines.append('exact-domain circuit: %s' % json.dumps(case['ops'])[:600])
    else:
        lines.append('program text:\n' + (case.get('src') or text_of(case['prog']))[:900])
        ob = case.get('qk') if who.startswith('qiskit') else case.get('bq')
        if ob:
            lines.append('observed: status=%s err=%s ops=%s' % (ob['status'], ob['err'], json.dumps([[o['g'], o['q'], o['p'], o['m']] for o in ob['ops']])[:700]))
    return '\n'.join(lines)


# =============================================================================== run
def run(ctx: Ctx) -> Outcome:
    common.use_repo()
    warnings.filterwarnings('ignore')
    import logging
    logging.getLogger('bqskit').setLevel(logging.ERROR)
    import qiskit.qasm2  # noqa: F401  (imported before forking the observer pool)
    from bqskit.ir.lang.qasm2 import OPENQASM2Language  # noqa: F401
    out = Outcome('C17')
    stats = {'states': 0, 'transitions': 0}
    info = {}
    import time
    tm = {}
    t0 = time.time()

    def lap(name):
        nonlocal t0
        tm[name] = round(time.time() - t0, 1)
        t0 = time.time()
    nproc = min(16, os.cpu_count() or 1)
    rng = random.Random(ctx.seed * 7919 + 17)
    lib = rt_library()
    arity = {k: (int(g.num_params), int(g.num_qudits)) for k, g in lib.items()}

    if ctx.replay:
        rp = ctx.replay['replay']
        if rp['kind'] == 'decode':
            cases = [decode_case((rp['prog'], rp.get('decl_first', True), 'replay'))]
        elif rp['kind'] == 'rt':
            cases = [rt_case((rp['prog'], rp.get('suspect', 'mixed'), 'replay'))]
        else:
            cases = [rtu_case((rp['ops'], len(rp['r']), 'replay'))]
        all_cases = cases
        verdicts = validate(cases, ctx, stats)
    else:
        import multiprocessing as mp
        import threading
        pool = mp.get_context('fork').Pool(nproc)          # forked before any thread exists
        try:
            # ---- 1. model-checking pass (background): the specification generates the programs
            box = {}

            def enum():
                try:
                    box['items'], box['r'] = enumerate_with_tlc(ctx, info)
                except BaseException as e:       # re-raised in the main thread
                    box['error'] = e
            th = threading.Thread(target=enum)
            th.start()
            # ---- 2. seeded random programs
            g = Gen(rng, not ctx.quick)
            jobs = [(g.good_program(), rng.random() < 0.6, 'random') for _ in range(1500 if ctx.quick else 20000)]
            # hand-picked one-liners for the function calls (their value is not decided, only that they are applied)
            for f in FUNCS:
                jobs.append(({'qregs': [{'n': 'q', 's': 1}], 'cregs': [], 'gates': [],
                              'stmts': [app('rz', [fn(f, num(2))], [arg('q', 0)])]}, True, 'function'))
            lap('random_generation')
            random_cases = pool_map(pool, decode_case, jobs)
            # ---- 3. round trip, phase 1: every spelling alone (several parameter draws and qubit orders)
            single_jobs = []
            for name in sorted(lib):
                k, w = arity[name]
                for rep in range(3 if ctx.quick else 8):
                    n = w + rng.randint(0, 2)
                    P = {'qregs': [{'n': 'q', 's': n}], 'cregs': [], 'gates': [],
                         'stmts': [app(name, [rt_value(rng) for _ in range(k)], [arg('q', i) for i in rng.sample(range(n), w)]) for _ in range(1 + rep % 2)]}
                    single_jobs.append((P, name, 'rt-single'))
            single_cases = pool_map(pool, rt_case, single_jobs)
            lap('observe_random_and_rt_singles')
            cases = random_cases + single_cases
            verdicts = validate(cases, ctx, stats)
            lap('tlc_validate_1')
            unreadable = set()
            for idx, _s, clause, extra in verdicts:
                c = cases[idx]
                if c['kind'] == 'rt' and c['origin'] == 'rt-single' and extra and extra[0] == 'bqskit':
                    unreadable.add(c['suspect'])
            info['rt_gates_failing_alone'] = sorted(unreadable)
            # ---- 4. round trip, phase 2: mixed circuits over the spellings that survive alone, nested CircuitGates; exact domain
            names = [k for k in sorted(lib) if k not in unreadable]
            mixed_jobs = []
            for i in range(400 if ctx.quick else 6000):
                n = rng.randint(1, 5)
                qk_only = rng.random() < 0.6
                names_i = [k for k in names if (k in QK or not qk_only)]
                mixed_jobs.append((rt_program(rng, names_i, arity, n, rng.randint(1, 8), rng.choice([0, 0, 1, 2, 2])), 'mixed', 'rt-mixed'))
            rtu_jobs = [(rtu_ops(rng, n, rng.randint(1, 10)), n, 'rt-exact') for n in [rng.randint(1, 4) for _ in range(300 if ctx.quick else 4000)]]
            cases2 = pool_map(pool, rt_case, mixed_jobs) + pool_map(pool, rtu_case, rtu_jobs)
            lap('observe_rt_mixed')
            # ---- 5. the programs TLC enumerated, run on the implementation
            th.join()
            if 'error' in box:
                raise box['error']
            stats['states'] += box['r'].distinct
            stats['transitions'] += box['r'].states
            lap('wait_for_tlc_enumeration')
            cases2 += pool_map(pool, decode_case, [(P, True, 'tlc:' + fam) for P, fam in box['items']])
            lap('observe_tlc_programs')
        finally:
            pool.terminate()
        v2 = validate(cases2, ctx, stats)
        lap('tlc_validate_2')
        verdicts = list(verdicts) + [(idx + len(cases), s_, cl, ex) for idx, s_, cl, ex in v2]
        all_cases = cases + cases2

    # ---- verdicts -> violations (no verdict is computed here)
    spec_bugs, undecided = [], 0
    for idx, _step, clause, extra in verdicts:
        c = all_cases[idx]
        who = extra[0] if extra else ''
        if who == 'harness-exact':
            undecided += 1
            continue
        if clause == 'generator-error' or who == 'harness':
            spec_bugs.append('generator-error %s on %s' % (extra, (c.get('src') or json.dumps(c.get('prog', c.get('ops'))))[:400]))
            continue
        if who == 'qiskit':
            spec_bugs.append('Qiskit disagrees with the specification (%s %s): the specification or the printer is wrong\n%s' % (
                clause, extra, detail_of(c, clause, extra)))
            continue
        replay = {'kind': c['kind'], 'prog': c.get('prog'), 'decl_first': c.get('decl_first', True), 'suspect': c.get('suspect'),
                  'ops': c.get('ops'), 'r': c.get('r'), 'origin': c.get('origin')}
        out.violations.append(Violation('C17', clause, key_of(c, clause, extra), detail_of(c, clause, extra), replay))
    if spec_bugs:
        raise MachineryError('%d case(s) where the specification/generator (not BQSKit) is at fault; first ones:\n%s' % (len(spec_bugs), '\n=====\n'.join(spec_bugs[:6])))

    if undecided:     # exact-domain circuits that are not what Monomial.tla says BEFORE the round trip are not C17's to judge
        out.notes.append('UNDECIDED property=C17 exact-domain cases skipped (circuit differs from specs/exact/Monomial.tla before the round trip): %d' % undecided)
    # ---- evidence
    by_origin, feats = {}, {}
    nontrivial = set()
    qk_validated = qk_skipped = bq_rejected_broadcast = 0
    for c in all_cases:
        by_origin[c['origin']] = by_origin.get(c['origin'], 0) + 1
        if c['kind'] == 'decode':
            for f in features(c['prog']):
                feats[f] = feats.get(f, 0) + 1
            if c['qk']['status'] == 'ok':
                qk_validated += 1
            elif c['qk']['status'] == 'skipped':
                qk_skipped += 1
            if c['bq']['status'] == 'lang-exception' and 'register-broadcast' in features(c['prog']):
                bq_rejected_broadcast += 1
        if c['kind'] == 'rtu' or any(st['k'] in ('app', 'measure', 'reset') for st in c['prog']['stmts']):
            nontrivial.add(common.digest(c.get('prog') or c.get('ops')))
    samples = []
    for o in ('tlc:struct', 'tlc:expr', 'tlc:bind', 'random', 'rt-mixed'):
        for c in all_cases:
            if c['origin'] == o and len(c.get('src', '')) > 60 and (o != 'tlc:struct' or len(c['prog']['stmts']) >= 2) and c['bq']['status'] == 'ok' and c['bq']['ops']:
                samples.append({'origin': o, 'text': c['src'], 'bqskit': [[x['g'], x['q'], x['p']] for x in c['bq']['ops']][:12], 'bqskit_status': c['bq']['status']})
                break
    out.coverage = {
        'states': stats['states'], 'transitions': stats['transitions'],
        'traces_validated_against_impl': len(all_cases),
        'evaluations': len(all_cases), 'distinct_nontrivial': len(nontrivial),
        'rule': 'one case = one program (tree) with what BQSKit and Qiskit read from its text, or one circuit with its encode/decode '
                'round trip.  tlc:* programs are ALL states of specs/qasm/QasmGen.tla (exhaustive for its three families), the rest is '
                'seeded random.  Non-trivial = has at least one gate application, measurement or reset; distinct by content hash of the tree',
        'exhaustive': False,
        'exhaustive_part': 'QasmGen.tla families expr/bind/struct (every state run on the implementation)',
        'model_checking_pass': info.get('gen', {}), 'timings_s': tm,
        'by_origin': by_origin, 'programs_by_feature': feats,
        'qiskit_validated_programs': qk_validated, 'qiskit_skipped_programs_with_non_qelib_gates': qk_skipped,
        'broadcast_programs_declined_by_bqskit_with_LangException': bq_rejected_broadcast,
        'rt_gates_failing_alone': info.get('rt_gates_failing_alone', []),
        'rt_spellings_not_exercised': uncovered_spellings(lib), 'exact_domain_undecided': undecided,
        'samples': samples[:5] or [{'origin': all_cases[0]['origin'], 'text': all_cases[0].get('src', '')}],
        'checker_cmd': 'tlc -coverage 1 -config specs/qasm/QasmGen.cfg specs/qasm/QasmGen.tla; tlc -config specs/qasm/QasmCheck.cfg specs/qasm/QasmCheck.tla (TRACE_FILE=cases.json)',
        'trusted_base': ['TLC', 'printer text_of() and flatteners flat_bq()/flat_qk() in harness/checks/c17.py (cross-validated by Qiskit on every program)',
                         'harness/exact.py discretiser for the exact-domain tables'],
    }
    out.assumptions = ['parameter values are compared at 1e-4 (decode) and 1e-12 (round trip, before vs after); generated values are >= 0.011 apart within an operation',
                       'function-call values (sin, cos, tan, exp, ln, sqrt) are not compared',
                       'p/u1/rz, cp/cu1, u/u3/U, id/identity1 are identified (equal up to global phase); a DaggerGate(sx) is read as sxdg',
                       'IdentityGate is exported through a gate definition and is left out of the flat round-trip comparison']
    return out
