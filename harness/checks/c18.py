"""C18 — every library gate obeys the gate contract, decided on the exact (monomial) domain.

Oracle: specs/exact/GateLib.tla (+ specs/exact/Monomial.tla for the named-gate library and the
table algebra), algebra model-checked by specs/exact/MonoLaws.tla (MonoLawsGate.cfg).
Python only builds gates through the public constructors, reads what they advertise, discretises
their matrices (harness/exact.py) and hands the records to TLC.
"""
from __future__ import annotations

import copy
import itertools
import math
import os
import random
import warnings

import numpy as np

from harness import common, exact
from harness.common import Ctx, Outcome, Violation

SPEC = os.path.join(common.SPECS, 'exact', 'GateLib.tla')
CFG = os.path.join(common.SPECS, 'exact', 'GateLib.cfg')
LAWS = os.path.join(common.SPECS, 'exact', 'MonoLaws.tla')
LAWS_CFG = os.path.join(common.SPECS, 'exact', 'MonoLawsGate.cfg')

# Exported names of bqskit.ir.gates that are NOT in the catalogue, with the reason (reported in the evidence, and checked against
# the package's __all__ at run time so that a new export cannot go unnoticed).
OUTSIDE = {
    'BGate': 'never monomial', 'CHGate': 'never monomial', 'ECRGate': 'never monomial', 'HGate': 'never monomial',
    'SqrtCNOTGate': 'never monomial', 'SqrtISwapGate': 'never monomial', 'SqrtXGate': 'never monomial', 'SXGate': 'never monomial',
    'SqrtXdgGate': 'never monomial', 'SXdgGate': 'never monomial', 'XXGate': 'never monomial', 'YYGate': 'never monomial',
    'U2Gate': 'never monomial (every entry has modulus 1/sqrt 2)',
    'U1qPi2Gate': 'FrozenParameterGate(U1qGate, theta = pi/2): never monomial',
    'PhasedXZGate': 'its parameters are exponents (in units of pi): on the pi/4 parameter lattice of the catalogue it is monomial only where it is the identity',
    'VariableUnitaryGate': 'its parameters are matrix entries, not angles: no point of the pi/4 lattice is a unitary',
    'MeasurementPlaceholder': 'no matrix (placeholder)', 'Reset': 'no matrix (placeholder)', 'BarrierPlaceholder': 'no matrix (placeholder)',
    'ComposedGate': 'abstract base class', 'QuditGate': 'abstract base class', 'GeneralGate': 'abstract base class (gates that parameterise any unitary)',
}
# exported name -> how the catalogue reaches it
INSIDE_NAMED = {'XGate': 'X', 'YGate': 'Y', 'ZGate': 'Z', 'SGate': 'S', 'SdgGate': 'Sdg', 'TGate': 'T', 'TdgGate': 'Tdg', 'SqrtTGate': 'SqrtT',
                'IdentityGate': 'I/IDN', 'CXGate': 'CX', 'CNOTGate': 'CX', 'CYGate': 'CY', 'CZGate': 'CZ', 'CSGate': 'CS', 'CTGate': 'CT',
                'ISwapGate': 'ISWAP', 'SycamoreGate': 'Sycamore', 'ZZGate': 'ZZ', 'CCXGate': 'CCX', 'ToffoliGate': 'CCX',
                'IToffoliGate': 'IToffoli', 'RCCXGate': 'RCCX', 'MargolusGate': 'RCCX', 'RC3XGate': 'RC3X', 'CPIGate': 'CPI',
                'ShiftGate': 'Shift', 'ClockGate': 'Clock', 'SwapGate': 'SWAP', 'CSUMGate': 'CSUM', 'RZGate': 'RZ', 'U1Gate': 'U1',
                'CPGate': 'CP', 'CRZGate': 'CRZ', 'RZZGate': 'RZZ', 'CCPGate': 'CCP', 'RXGate': 'RX', 'RYGate': 'RY', 'CRXGate': 'CRX',
                'CRYGate': 'CRY', 'RXXGate': 'RXX', 'RYYGate': 'RYY', 'U1qGate': 'U1q', 'U3Gate': 'U3', 'CUGate': 'CU', 'FSIMGate': 'FSIM',
                'ArbitraryCPhaseGate': 'ACP', 'DiagonalGate': 'DIAG', 'MPRZGate': 'MPRZ', 'MPRYGate': 'MPRY', 'PermutationGate': 'PERM',
                'SubSwapGate': 'SUBSWAP'}
INSIDE_COMPOSED = {'DaggerGate': 'dagger', 'PowerGate': 'power', 'TaggedGate': 'tagged', 'ControlledGate': 'controlled',
                   'EmbeddedGate': 'embedded', 'FrozenParameterGate': 'frozen', 'CircuitGate': 'circuit', 'VariableLocationGate': 'vlg',
                   'ConstantUnitaryGate': 'table', 'U1qPiGate': 'exported'}
INSIDE_OBSERVED = {'PDGate': 'PD', 'CKMGate': 'CKM', 'CKMdgGate': 'CKMdg', 'RSU3Gate': 'RSU3', 'U8Gate': 'U8', 'PauliGate': 'Pauli',
                   'PauliZGate': 'PauliZ'}


def export_census():
    """Every name bqskit.ir.gates exports is either reached by the catalogue or listed in OUTSIDE with a reason."""
    from bqskit.ir import gates as G
    names = list(G.__all__)
    unknown = [n for n in names if n not in OUTSIDE and n not in INSIDE_NAMED and n not in INSIDE_COMPOSED and n not in INSIDE_OBSERVED]
    if unknown:
        raise common.MachineryError('bqskit.ir.gates exports names the C18 catalogue does not account for: %s' % unknown)
    return {'exported': len(names),
            'in_catalogue_with_matrix_definition': sorted(n for n in names if n in INSIDE_NAMED),
            'in_catalogue_as_composition': sorted(n for n in names if n in INSIDE_COMPOSED),
            'in_catalogue_observed_only': sorted(n for n in names if n in INSIDE_OBSERVED),
            'outside_catalogue': {n: OUTSIDE[n] for n in names if n in OUTSIDE}}

MANIFEST_ENTRY = dict(
    engine='exact',
    technique='TLA+ gate library and table algebra (specs/exact/Monomial.tla, GateLib.tla) evaluated by TLC over observations of the '
              'real gate objects; the algebra itself model-checked by TLC (specs/exact/MonoLaws.tla)',
    text='On the exact domain (generalized-permutation matrices, phases multiples of 2*pi/48, radix 2-4): every named library gate '
         '(36 names, parameterised ones at their monomial points, multiples of pi/4 resp. pi) is built through its public constructor and '
         'its get_unitary, expression backend and get_unitary_and_grad()[0] are compared entry-wise (absolute phase) with the table '
         'the TLA+ gate library gives; dim/radixes/num_qudits/num_params/gradient shape are compared with what the construction has to '
         'advertise; DaggerGate, PowerGate (k=-3..4), ControlledGate (1-2 controls, radix 2-4, all level subsets), EmbeddedGate '
         '(level maps), FrozenParameterGate (parameter subsets; also the exported U1qPiGate), TaggedGate, CircuitGate, '
         'VariableLocationGate (location sets on 1-4 qudits, every location selected by one-hot location parameters, radixes given '
         'or inferred), IdentityGate, PermutationGate, ConstantUnitaryGate and nestings of them up to depth 3 are compared with the '
         'TLA+ composition (Inverse, Power, Controlled, Embedded, SemTable, and for VariableLocationGate the part conjugated by the '
         'qudit permutation PermutationMatrix.from_qudit_location denotes, which the specification also checks against the '
         'one-operation circuit semantics on every case) of the observed tables of their parts; gates without a matrix definition '
         'here (CKMGate, CKMdgGate, RSU3Gate, U8Gate, PauliGate, PauliZGate, PDGate) take part at their exact-domain points as observed '
         'parts and alone; for every named and composed case get_unitary_and_grad(p)[0] equals get_unitary(p) and its gradient part has '
         'one dim x dim slice per parameter; get_inverse() at get_inverse_params(p) composes to the identity; '
         '== / hash of pairs of constructions are judged by a TLA+ predicate over the construction descriptors; monomial named '
         'gates are compared with the matrix Qiskit gives the same name. The table algebra the oracle relies on is model-checked '
         'exhaustively over all tables of dimension <= 3 (restricted phase set).',
    note='NOT decided (no exact domain): get_grad as the derivative of get_unitary, calc_params, optimize, generic real parameters, and the '
         'matrices of the gates without exact-domain points (' + ', '.join(sorted(OUTSIDE)) + ') and the matrix *values* of '
         'CKMGate/CKMdgGate/RSU3Gate/U8Gate/PauliGate/PauliZGate/PDGate (no definition in Monomial.tla: only their dimension, '
         'unitary_and_grad consistency, inverse and their compositions are judged). Trusted: TLC, the discretiser in '
         'harness/exact.py (argmax, phase class in units of 2*pi/48, 1e-7 tolerance), the construction/observation code in '
         'harness/checks/c18.py.',
    ref='DESIGN.md section 4 / C18',
)


# ----------------------------------------------------------------------------- named library
def named_catalogue(quick):
    """(name, ctor-args-and-params list p, radixes) for every library name; parameter points are exhaustive over a
    small grid for <= 2 parameters and sampled for more."""
    out = []
    for n in ['X', 'Y', 'Z', 'S', 'Sdg', 'T', 'Tdg', 'SqrtT', 'I']:
        out.append((n, [], [2]))
    for n in ['CX', 'CY', 'CZ', 'CS', 'CT', 'ISWAP', 'Sycamore', 'ZZ']:
        out.append((n, [], [2, 2]))
    for n in ['CCX', 'IToffoli', 'RCCX']:
        out.append((n, [], [2, 2, 2]))
    out.append(('RC3X', [], [2, 2, 2, 2]))
    out.append(('CPI', [], [3, 3]))
    for r in (2, 3, 4):
        out += [('Shift', [], [r]), ('Clock', [], [r]), ('I', [], [r]), ('SWAP', [], [r, r]), ('CSUM', [], [r, r])]
    for rs in ([2, 2], [2, 3], [3, 2, 2], [4, 3], [2, 2, 2]):
        out.append(('IDN', [], rs))
    grid = list(range(-8, 9)) + [12, 16, -16, 21]
    for n, rs in (('RZ', [2]), ('U1', [2]), ('CP', [2, 2]), ('CRZ', [2, 2]), ('RZZ', [2, 2]), ('CCP', [2, 2, 2])):
        out += [(n, [p], rs) for p in grid]
    for n, rs in (('RX', [2]), ('RY', [2]), ('CRX', [2, 2]), ('CRY', [2, 2]), ('RXX', [2, 2]), ('RYY', [2, 2])):
        out += [(n, [4 * m], rs) for m in range(-5, 6)]
    ph = [-3, 0, 1, 2, 5, 8]
    for m in range(-2, 4):
        for a in ph:
            out.append(('U1q', [4 * m, a], [2]))
            for b in ph:
                out.append(('U3', [4 * m, a, b], [2]))
    rng = random.Random(18)
    for _ in range(60 if quick else 600):
        out.append(('CU', exact.random_params(rng, 'CU'), [2, 2]))
    for k in range(-4, 5):
        for a in ph:
            out.append(('FSIM', [2 * k, a], [2, 2]))
    for rs in ([2, 2], [3, 3], [2, 3], [3], [4, 2], [2, 2, 2], [3, 2, 4]):
        out += [('ACP', [p], rs) for p in (-8, -3, 0, 1, 2, 4, 7)]
    for n in (1, 2, 3):
        for _ in range(4 if quick else 20):
            out.append(('DIAG', [rng.randint(-8, 8) for _ in range(2 ** n - 1)], [2] * n))
    for n in (1, 2, 3):
        for t in range(n):
            for _ in range(3 if quick else 10):
                out.append(('MPRZ', [t] + [rng.randint(-8, 8) for _ in range(2 ** (n - 1))], [2] * n))
                out.append(('MPRY', [t] + [4 * rng.randint(-3, 4) for _ in range(2 ** (n - 1))], [2] * n))
    for n in (1, 2, 3, 4):
        locs = [l for k in range(1, n + 1) for l in itertools.permutations(range(n), k)]
        if len(locs) > 30:
            locs = rng.sample(locs, 30)
        out += [('PERM', list(l), [2] * n) for l in locs]
    for r in (2, 3, 4):
        pairs = [(a, b) for a in range(r) for b in range(r)]
        for (x, y) in (rng.sample([(u, v) for u in pairs for v in pairs if u != v], 6)):
            out.append(('SUBSWAP', [x[0], x[1], y[0], y[1]], [r, r]))
    return out


CTOR_ARGS = {'PERM': -1, 'SUBSWAP': 4, 'MPRZ': 1, 'MPRY': 1}


def split_p(name, p):
    """(constructor args, parameter ints) of a library p list."""
    k = CTOR_ARGS.get(name, 0)
    if k == -1:
        return list(p), []
    return list(p[:k]), list(p[k:])


def build_named(name, p, rs, syntax='plain'):
    """Build the BQSKit gate through its public constructor.  ``syntax`` selects among equivalent spellings of the same
    construction (positional / keyword / default arguments)."""
    from bqskit.ir import gates as G
    r = rs[0]
    if syntax != 'plain':
        if name == 'Clock':
            return {'default': lambda: G.ClockGate(), 'kw': lambda: G.ClockGate(radix=r)}[syntax]()
        if name == 'Shift':
            return {'default': lambda: G.ShiftGate(), 'kw': lambda: G.ShiftGate(radix=r)}[syntax]()
        if name == 'CSUM':
            return {'default': lambda: G.CSUMGate(), 'kw': lambda: G.CSUMGate(radix=r)}[syntax]()
        if name == 'SWAP':
            return {'default': lambda: G.SwapGate(), 'kw': lambda: G.SwapGate(radix=r)}[syntax]()
        if name in ('I', 'IDN'):
            return {'default': lambda: G.IdentityGate(), 'kw': lambda: G.IdentityGate(num_qudits=len(rs), radixes=tuple(rs))}[syntax]()
        if name == 'PERM':
            return G.PermutationGate(num_qudits=len(rs), location=tuple(p))
        if name == 'ACP':
            return {'default': lambda: G.ArbitraryCPhaseGate(), 'kw': lambda: G.ArbitraryCPhaseGate(radixes=tuple(rs))}[syntax]()
        if name == 'DIAG':
            return {'default': lambda: G.DiagonalGate(), 'kw': lambda: G.DiagonalGate(num_qudits=len(rs))}[syntax]()
        if name in ('MPRZ', 'MPRY'):
            cls = G.MPRZGate if name == 'MPRZ' else G.MPRYGate
            return {'default': lambda: cls(len(rs)), 'kw': lambda: cls(num_qudits=len(rs), target_qubit=p[0])}[syntax]()
        if name == 'I':
            return G.IdentityGate(1, [r])
    if name == 'I':
        return G.IdentityGate(1, [r])
    return exact.bq_gate(name, p, r, rs)


def reals(ints):
    return [x * math.pi / 4 for x in ints]


def adv_of(gate, params):
    """What the object advertises + shapes of what it returns (integers only)."""
    a = {'dim': int(gate.dim), 'nq': int(gate.num_qudits), 'np': int(gate.num_params), 'radixes': [int(x) for x in gate.radixes],
         'urows': -1, 'ucols': -1, 'uradixes': [0], 'g0': -1, 'g1': -1, 'g2': -1, 'err': ''}
    try:
        U = gate.get_unitary(params)
    except Exception as e:      # a constructed gate whose matrix cannot be had: observed as "no matrix of the advertised shape"
        a['err'] = repr(e)[:200]
        return a, None
    a.update(urows=int(U.shape[0]), ucols=int(U.shape[1]), uradixes=[int(x) for x in U.radixes])
    try:
        g = np.asarray(gate.get_grad(params))
        if g.ndim == 3:
            a['g0'], a['g1'], a['g2'] = (int(x) for x in g.shape)
        elif gate.num_params == 0:
            a['g0'] = a['g1'] = a['g2'] = 0
        else:
            a['g0'], a['g1'], a['g2'] = -2, int(g.ndim), 0          # a gradient of the wrong rank
    except NotImplementedError:
        pass
    except Exception as e:
        a['g0'], a['err'] = -2, repr(e)[:200]
    return a, U


DUMMY = [{'idx': 0, 'ph': 0, 'within': True}]


NOOBS = [{'idx': 0, 'ph': 0, 'within': False}]


def tab(U):
    return NOOBS if U is None else exact.table_of(np.asarray(U))


def eq_rows(g):
    """Pairs (i < j) of slices of a gradient array that are the same matrix (to 1e-9): an observation; which pairs may be
    equal is judged by the specification."""
    g = np.asarray(g)
    if g.ndim != 3 or not 2 <= len(g) <= 16:
        return []
    return [[i, j] for i in range(len(g)) for j in range(i + 1, len(g)) if np.abs(g[i] - g[j]).max() <= 1e-9]


def ug_of(gate, params):
    """get_unitary_and_grad(params) as observed: dict(has_ug = answered?, obs_ug = table of the unitary part, ug = shape of the
    gradient part padded with -1 to three entries, gg_diff = max |gradient part - get_grad(params)| in units of 1e-9 (-1: the
    two cannot be compared: other shape, or get_grad raised), gg_agree = that difference is below 1e-7, ug_eq = pairs of equal
    slices of the gradient part).  NotImplementedError is the documented way of having no gradient; anything else that is
    raised is observed as "no matrix" (and judged by the specification)."""
    out = {'has_ug': True, 'obs_ug': NOOBS, 'ug': [-1, -1, -1], 'gg_diff': -1, 'gg_agree': False, 'ug_eq': []}
    try:
        U2, g = gate.get_unitary_and_grad(params)
    except NotImplementedError:
        out.update(has_ug=False, obs_ug=DUMMY)
        return out
    except Exception:
        return out
    g = np.asarray(g)
    shp = [int(x) for x in g.shape]
    out.update(obs_ug=exact.table_of(np.asarray(U2)), ug=(shp + [-1, -1, -1])[:3] if len(shp) <= 3 else [-2, -2, -2], ug_eq=eq_rows(g))
    try:
        g2 = np.asarray(gate.get_grad(params))
        if g2.shape == g.shape:
            diff = float(np.abs(g - g2).max()) if g.size else 0.0
            out.update(gg_diff=int(min(diff / 1e-9, 2e9)), gg_agree=bool(diff < 1e-7))
    except Exception:
        pass
    return out


def observe_named(name, p, rs):
    gate = build_named(name, p, rs)
    _, ps = split_p(name, p)
    params = reals(ps)
    adv, U = adv_of(gate, params)
    c = {'kind': 'named', 'name': name, 'p': list(p) or [0], 'r': list(rs), 'adv': adv, 'obs': tab(U)}
    c.update(ug_of(gate, params))
    ex = getattr(gate, '_expr', None)
    if ex is not None:
        try:
            c['has_x'], c['obs_x'] = True, exact.table_of(np.asarray(ex(*params)))
        except Exception:
            c['has_x'], c['obs_x'] = True, NOOBS
    else:
        c['has_x'], c['obs_x'] = False, DUMMY
    c['cls'] = type(gate).__name__
    return c


# ----------------------------------------------------------------------------- constructions
# A construction is a nested tuple:
#   ('base', name, p, radixes[, syntax])     library gate (p = ctor args + parameter ints, drawn when None)
#   ('table', table, radixes)                ConstantUnitaryGate of a monomial matrix
#   ('other', label, args[, p])              gate outside the named library (PDGate, CKMGate, PauliGate ...) at an exact-domain point p
#                                            (drawn when absent): its matrix is only observed, never judged against a definition
#   ('vlg', c, locations, radixes|[], sel, hot, cold)   VariableLocationGate(c, locations[, radixes]) with location parameters
#                                            hot*pi/4 at index sel and cold*pi/4 elsewhere (one-hot after softmax(., 10))
#   ('dagger', c) ('power', c, k) ('tagged', c, tag) ('controlled', c, cr, levels) ('frozen', c, idxs)
#   ('embedded', c, outer_radixes, maps) ('circuit', radixes, [(c, loc), ...])
def blank(k):
    return {'k': k, 'name': '-', 'p': [0], 'cp': [0], 'r': [2], 't': [{'idx': 0, 'ph': 0}], 'n': 0, 'cr': [2], 'levels': [[0]],
            'maps': [[0]], 'tag': '', 'fz': [], 'sub': [], 'locs': [], 'given': [], 'sel': 0, 'gs': [-1, -1, -1], 'eq': []}


def table_matrix(tab):
    n = len(tab)
    U = np.zeros((n, n), dtype=complex)
    for b, e in enumerate(tab):
        U[e['idx'], b] = np.exp(2j * np.pi * e['ph'] / 48)
    return U


# Gates outside the named library of Monomial.tla that still have exact-domain points: label -> (radixes, number of parameters)
# as functions of the constructor arguments (what the construction has to advertise: stated here, not read from the object).
OTHERS = {
    'PD': (lambda a: [a[1]], lambda a: 0),
    'CKM': (lambda a: [3], lambda a: 4),
    'CKMdg': (lambda a: [3], lambda a: 4),
    'RSU3': (lambda a: [3], lambda a: 1),
    'U8': (lambda a: [3], lambda a: 8),
    'Pauli': (lambda a: [2] * a[0], lambda a: 4 ** a[0]),
    'PauliZ': (lambda a: [2] * a[0], lambda a: 2 ** a[0]),
}
OTHER_CTORS = [('PD', [0, 2]), ('PD', [1, 3]), ('PD', [2, 3]), ('PD', [3, 4]), ('CKM', []), ('CKMdg', []), ('U8', []),
               ('Pauli', [1]), ('Pauli', [2]), ('PauliZ', [1]), ('PauliZ', [2]), ('PauliZ', [3])] + [('RSU3', [i]) for i in range(7)]


def other_gate(label, args):
    from bqskit.ir import gates as G
    cls = {'PD': G.PDGate, 'CKM': G.CKMGate, 'CKMdg': G.CKMdgGate, 'RSU3': G.RSU3Gate, 'U8': G.U8Gate, 'Pauli': G.PauliGate,
           'PauliZ': G.PauliZGate}[label]
    return cls(*args)


def other_point(rng, label, args):
    """A parameter point (units of pi/4) at which the gate is a generalized permutation matrix with phases on the lattice."""
    if label in ('CKM', 'CKMdg'):          # three mixing angles multiples of pi/2, any CP phase
        return [2 * rng.randint(-2, 4) for _ in range(3)] + [rng.randint(-4, 8)]
    if label == 'RSU3':                    # exp(i t lambda_j): diagonal generator (j = 2) any t, the others multiples of pi/2
        return [rng.randint(-8, 8)] if args[0] == 2 else [2 * rng.randint(-4, 4)]
    if label == 'U8':
        return [2 * rng.randint(-4, 4) for _ in range(8)]
    if label == 'Pauli':                   # exp(-i/2 (a0 I + a_j P_j)): a_j a multiple of pi
        n = 4 ** args[0]
        p = [0] * n
        p[0] = rng.randint(-8, 8)
        p[rng.randrange(1, n)] = 4 * rng.randint(-2, 3)
        return p
    if label == 'PauliZ':
        return [rng.randint(-8, 8) for _ in range(2 ** args[0])]
    return []


def realise(c, rng):
    """construction -> (gate, parameter ints q of the gate, descriptor with the observed tables of its parts).  Every node of the
    descriptor also carries 'gs', the observed shape of the part's own get_grad (input-class bookkeeping for known findings;
    the specification does not read it) and 'eq', the pairs of equal slices of that gradient (read by the aliasing clause)."""
    gate, q, d = _realise(c, rng)
    try:
        g = np.asarray(gate.get_grad(reals(q)))
        d['gs'] = ([int(x) for x in g.shape] + [-1, -1, -1])[:3]
        d['eq'] = eq_rows(g)
    except Exception:
        d['gs'], d['eq'] = [-1, -1, -1], []
    return gate, q, d


def _realise(c, rng):
    from bqskit.ir import gates as G
    from bqskit.ir.circuit import Circuit
    k = c[0]
    d = blank(k)
    if k == 'base':
        name, p, rs = c[1], c[2], c[3]
        syntax = c[4] if len(c) > 4 else 'plain'
        if p is None:
            p = [rng.randint(-8, 8) for _ in range(2 ** len(rs) - 1)] if name == 'DIAG' else exact.random_params(rng, name)
        gate = build_named(name, p, rs, syntax)
        cargs, q = split_p(name, p)
        d.update(name=name, p=list(p) or [0], cp=list(cargs) or [0], r=list(rs),
                 t=exact.strip(exact.table_of(gate.get_unitary(reals(q)).numpy)))
        if not all(e['within'] for e in exact.table_of(gate.get_unitary(reals(q)).numpy)):
            raise common.MachineryError('library gate %s%s is not monomial at a point the library calls monomial' % (name, p))
        return gate, q, d
    if k == 'table':
        tab, rs = c[1], c[2]
        gate = G.ConstantUnitaryGate(table_matrix(tab), rs)
        d.update(k='base', name='TABLE', r=list(rs), t=exact.strip(exact.table_of(gate.get_unitary().numpy)), n=0)
        d['t_req'] = tab
        return gate, [], d
    if k == 'other':
        label, args = c[1], list(c[2])
        q = list(c[3]) if len(c) > 3 and c[3] is not None else other_point(rng, label, args)
        gate = other_gate(label, args)
        t = exact.table_of(gate.get_unitary(reals(q)).numpy)
        if not all(e['within'] for e in t):
            raise common.MachineryError('%s%s is not monomial at %s, a point the catalogue calls monomial' % (label, args, q))
        d.update(k='base', name='OTHER', tag='%s%s' % (label, tuple(args)), r=OTHERS[label][0](args), t=exact.strip(t),
                 n=OTHERS[label][1](args))
        return gate, q, d
    if k == 'circuit':
        rs, parts = c[1], c[2]
        circ = Circuit(len(rs), list(rs))
        made = []
        for sub, loc in parts:
            g, q, sd = realise(sub, rng)
            circ.append_gate(g, list(loc), reals(q))
            made.append((g, tuple(loc), q, sd))
        # children in the circuit's own iteration order (that is the order its parameters are consumed in)
        order, used = [], set()
        for op in circ:
            for i, (g, loc, q, sd) in enumerate(made):
                if i not in used and tuple(op.location) == loc and op.gate == g:
                    order.append(i)
                    used.add(i)
                    break
        if len(order) != len(made):
            raise common.MachineryError('could not match the operations of a CircuitGate back to its parts')
        gate = G.CircuitGate(circ)
        q = [x for i in order for x in made[i][2]]
        d.update(r=list(rs), sub=[made[i][3] for i in order], locs=[list(made[i][1]) for i in order])
        return gate, q, d
    if k == 'exported':          # an object the package exports, judged as the construction its definition says it is
        _, q, d = realise(c[2], rng)
        return getattr(G, c[1]), q, d
    g, q, sd = realise(c[1], rng)
    d['sub'] = [sd]
    if k == 'dagger':
        return G.DaggerGate(g), q, d
    if k == 'power':
        d['n'] = c[2]
        return G.PowerGate(g, c[2]), q, d
    if k == 'tagged':
        d['tag'] = str(c[2])
        return G.TaggedGate(g, c[2]), q, d
    if k == 'controlled':
        cr, lv = list(c[2]), [list(x) for x in c[3]]
        d['cr'], d['levels'] = cr, lv
        return G.ControlledGate(g, len(cr), cr, lv), q, d
    if k == 'frozen':
        idxs = list(c[2])
        order = c[3] if len(c) > 3 else idxs
        d['fz'] = [[i, q[i]] for i in idxs]
        gate = G.FrozenParameterGate(g, {i: q[i] * math.pi / 4 for i in order})
        return gate, [x for i, x in enumerate(q) if i not in idxs], d
    if k == 'embedded':
        d['r'], d['maps'] = list(c[2]), [list(m) for m in c[3]]
        return G.EmbeddedGate(g, list(c[2]), [list(m) for m in c[3]]), q, d
    if k == 'vlg':
        locs, given, sel, hot, cold = [list(l) for l in c[2]], list(c[3]), c[4], c[5], c[6]
        d.update(locs=locs, given=given, sel=sel)
        gate = G.VariableLocationGate(g, [tuple(l) for l in locs], given) if given else G.VariableLocationGate(g, [tuple(l) for l in locs])
        return gate, q + [hot if i == sel else cold for i in range(len(locs))], d
    raise KeyError(k)


def leaves(d):
    return [d['name'] if d['name'] != 'OTHER' else d['tag']] if d['k'] == 'base' else [x for s in d['sub'] for x in leaves(s)]


def observe_composed(c, rng):
    gate, q, d = realise(c, rng)
    params = reals(q)
    adv, U = adv_of(gate, params)
    case = {'kind': 'composed', 'd': d, 'adv': adv, 'obs': tab(U), 'top': c[0], 'leaves': leaves(d), 'q': q}
    case.update(ug_of(gate, params))
    return case, gate, q


def observe_inverse(c, rng):
    gate, q, d = realise(c, rng)
    params = reals(q)
    inv = gate.get_inverse()
    ip = list(gate.get_inverse_params(params))
    return {'kind': 'inverse', 'd': d, 'obs': exact.table_of(gate.get_unitary(params).numpy),
            'obs_inv': exact.table_of(inv.get_unitary(ip).numpy), 'top': c[0], 'leaves': leaves(d), 'q': q,
            'inv_cls': type(inv).__name__}


def observe_eqhash(c1, c2, seed, how):
    g1, q1, d1 = realise(c1, random.Random(seed))
    g2, q2, d2 = realise(c2, random.Random(seed))
    eq_ab, eq_ba = bool(g1 == g2), bool(g2 == g1)
    try:
        hash_eq = bool(hash(g1) == hash(g2))
    except TypeError:
        hash_eq = False
    return {'kind': 'eqhash', 'd1': d1, 'd2': d2, 't1': tab(adv_of(g1, reals(q1))[1]),
            't2': tab(adv_of(g2, reals(q2))[1]), 'eq_ab': eq_ab, 'eq_ba': eq_ba, 'hash_eq': hash_eq,
            'how': how, 'top': c1[0], 'leaves': leaves(d1) + leaves(d2)}


# ------------------------------------------------------------------------ construction generators
def rand_table(rng, radixes):
    dim = int(np.prod(radixes))
    perm = list(range(dim))
    rng.shuffle(perm)
    return [{'idx': perm[b], 'ph': rng.randrange(48)} for b in range(dim)]


BASES = [('X', [2]), ('Y', [2]), ('Z', [2]), ('S', [2]), ('T', [2]), ('SqrtT', [2]), ('CX', [2, 2]), ('CY', [2, 2]), ('CZ', [2, 2]),
         ('CS', [2, 2]), ('SWAP', [2, 2]), ('ISWAP', [2, 2]), ('Sycamore', [2, 2]), ('ZZ', [2, 2]), ('CCX', [2, 2, 2]),
         ('RCCX', [2, 2, 2]), ('Shift', [3]), ('Clock', [3]), ('Shift', [4]), ('Clock', [4]), ('CSUM', [3, 3]), ('SWAP', [3, 3]),
         ('CPI', [3, 3]), ('RZ', [2]), ('U1', [2]), ('RX', [2]), ('RY', [2]), ('U3', [2]), ('U1q', [2]), ('CP', [2, 2]),
         ('CRZ', [2, 2]), ('RZZ', [2, 2]), ('CRX', [2, 2]), ('CRY', [2, 2]), ('RXX', [2, 2]), ('RYY', [2, 2]), ('FSIM', [2, 2]),
         ('CU', [2, 2]), ('CCP', [2, 2, 2]), ('ACP', [2, 2]), ('ACP', [3, 3])]


def rand_base(rng, maxq=3):
    x = rng.random()
    if x < 0.12:
        rs = [rng.choice([2, 3, 4]) for _ in range(rng.randint(1, 2))]
        return ('table', rand_table(rng, rs), rs)
    if x < 0.15:
        r = rng.choice([2, 3, 4])
        return ('other', 'PD', [rng.randrange(r), r])
    if x < 0.17:
        label, args = rng.choice([o for o in OTHER_CTORS if o[0] != 'PD' and len(OTHERS[o[0]][0](o[1])) <= maxq])
        return ('other', label, args, None)
    if x < 0.21:
        n = rng.randint(1, 3)
        return ('base', 'PERM', rng.sample(range(n), rng.randint(1, n)), [2] * n)
    if x < 0.24:
        rs = [rng.choice([2, 3]) for _ in range(rng.randint(1, 2))]
        return ('base', 'IDN' if len(rs) > 1 else 'I', [], rs)
    name, rs = rng.choice([b for b in BASES if len(b[1]) <= maxq])
    return ('base', name, None, rs)


def radixes_of(c):
    k = c[0]
    if k == 'base':
        return list(c[3])
    if k == 'table':
        return list(c[2])
    if k == 'other':
        return OTHERS[c[1]][0](c[2])
    if k == 'circuit':
        return list(c[1])
    if k == 'vlg':
        if c[3]:
            return list(c[3])
        ir, m = radixes_of(c[1]), {}
        for l in c[2]:
            for r, qd in zip(ir, l):
                m.setdefault(qd, r)
        return [m[i] for i in range(len(m))]
    if k == 'controlled':
        return list(c[2]) + radixes_of(c[1])
    if k == 'embedded':
        return list(c[2])
    if k == 'exported':
        return radixes_of(c[2])
    return radixes_of(c[1])


def nparams_of(c):
    k = c[0]
    if k == 'base':
        name = c[1]
        if name == 'DIAG':
            return 2 ** len(c[3]) - 1
        if name in ('MPRZ', 'MPRY'):
            return 2 ** (len(c[3]) - 1)
        return exact.PARAM_ARITY.get(name, 0)
    if k == 'table':
        return 0
    if k == 'other':
        return OTHERS[c[1]][1](c[2])
    if k == 'circuit':
        return sum(nparams_of(s) for s, _ in c[2])
    if k == 'vlg':
        return nparams_of(c[1]) + len(c[2])
    if k == 'frozen':
        return nparams_of(c[1]) - len(c[2])
    if k == 'exported':
        return nparams_of(c[2])
    return nparams_of(c[1])


def vlg_over(rng, c, n, full=None, nlocs=None, given=None):
    """A VariableLocationGate construction of c on n qudits: candidate locations are the placements whose qudits have the radixes
    of c (``full`` = radixes of the n qudits, drawn so that at least one placement exists), a random subset of them is offered and
    one is selected.  ``given`` tells whether the radixes are handed to the constructor or left to it to infer."""
    rs = radixes_of(c)
    k = len(rs)
    if full is None:
        pos = rng.sample(range(n), k)
        full = [rng.choice(rs) for _ in range(n)]
        for q, r in zip(pos, rs):
            full[q] = r
    cands = [l for l in itertools.permutations(range(n), k) if all(full[q] == r for q, r in zip(l, rs))]
    locs = rng.sample(cands, min(len(cands), nlocs or rng.randint(1, 4)))
    covered = {q for l in locs for q in l} == set(range(n))
    if given is None:
        given = rng.random() < 0.5
    hot, cold = rng.choice([(64, 0), (40, 0), (48, -8), (64, 8)])
    return ('vlg', c, [list(l) for l in locs], list(full) if (given or not covered) else [], rng.randrange(len(locs)), hot, cold)


def wrap(rng, c, maxdim=96):
    """One random composing constructor around construction c (or None when none fits)."""
    rs = radixes_of(c)
    dim = int(np.prod(rs))
    kinds = ['dagger', 'power', 'tagged', 'controlled', 'controlled', 'embedded', 'circuit', 'vlg']
    if nparams_of(c) > 0:
        kinds += ['frozen', 'frozen']
    k = rng.choice(kinds)
    if k == 'dagger':
        return ('dagger', c)
    if k == 'power':
        return ('power', c, rng.randint(-3, 4))
    if k == 'tagged':
        return ('tagged', c, rng.choice(['a', 'b', 7]))
    if k == 'controlled':
        nc = rng.randint(1, 2)
        cr = [rng.choice([2, 3, 4]) for _ in range(nc)]
        if dim * int(np.prod(cr)) > maxdim:
            cr = [2]
            if dim * 2 > maxdim:
                return None
        lv = [sorted(rng.sample(range(r), rng.randint(1, r))) for r in cr]
        if rng.random() < 0.3:
            for l in lv:
                rng.shuffle(l)
        return ('controlled', c, cr, lv)
    if k == 'frozen':
        n = nparams_of(c)
        idxs = sorted(rng.sample(range(n), rng.randint(1, n)))
        return ('frozen', c, idxs)
    if k == 'embedded':
        outer = [rng.randint(r, 4) for r in rs]
        if int(np.prod(outer)) > maxdim:
            return None
        maps = [rng.sample(range(o), r) for r, o in zip(rs, outer)]
        return ('embedded', c, outer, maps)
    if k == 'vlg':
        if len(rs) > 4:
            return None
        n = min(4, len(rs) + rng.randint(0, 2))
        if any(r != 2 for r in rs) and rng.random() < 0.7:
            return None         # (the qubit-only implementation: mostly qubit parts, a few others to keep the clause alive)
        v = vlg_over(rng, c, n)
        return v if int(np.prod(radixes_of(v))) <= maxdim else None
    if k == 'circuit':
        extra = [rng.choice([2, 3]) for _ in range(rng.randint(0, 1))]
        n = len(rs) + len(extra)
        pos = rng.sample(range(n), len(rs))
        full = [0] * n
        for q, r in zip(pos, rs):
            full[q] = r
        rest = [q for q in range(n) if q not in pos]
        for q, r in zip(rest, extra):
            full[q] = r
        if int(np.prod(full)) > maxdim:
            return None
        parts = [(c, pos)]
        for _ in range(rng.randint(0, 2)):
            kq = rng.randint(1, min(2, n))
            loc = rng.sample(range(n), kq)
            lr = [full[q] for q in loc]
            cands = [b for b in BASES if b[1] == lr]
            if cands:
                nm, brs = rng.choice(cands)
                parts.insert(rng.randint(0, len(parts)), (('base', nm, None, brs), loc))
        return ('circuit', full, parts)
    return None


# location sets by width of the part (all qudits covered, so that the radixes can also be left to the constructor); they contain
# placements whose qudit permutation is not its own inverse, e.g. (1, 2) on three qudits
VLG_LOCS = {
    1: [[[0], [1]], [[2], [0], [1]], [[0]]],
    2: [[[0, 1], [1, 2], [0, 2]], [[1, 0], [2, 1], [2, 0], [0, 1]], [[0, 1], [1, 0]], [[2, 3], [3, 0], [1, 3], [0, 1]]],
    3: [[[0, 1, 2], [1, 2, 0], [2, 0, 1], [2, 1, 0]], [[1, 2, 3], [3, 0, 2], [0, 1, 2]]],
}


def composed_catalogue(rng, count):
    out = []
    # systematic part: every composing constructor on every base
    for name, rs in BASES:
        b = ('base', name, None, rs)
        out += [('dagger', b), ('tagged', b, 't')] + [('power', b, k) for k in (-3, -1, 0, 2, 4)]
        out.append(('controlled', b, [2], [[1]]))
        out.append(('controlled', b, [3], [[2]]))
        out.append(('controlled', b, [3], [[0, 2]]))
        if len(rs) <= 2:
            out.append(('controlled', b, [2, 3], [[0], [1, 2]]))
            out.append(('embedded', b, [r + 1 for r in rs], [list(range(1, r + 1)) for r in rs]))
        n = exact.PARAM_ARITY.get(name, 0)
        for k in range(1, n + 1):
            for idxs in itertools.combinations(range(n), k):
                out.append(('frozen', b, list(idxs)))
    # VariableLocationGate: every base over fixed location sets of several widths, every location selected once
    for name, rs in BASES:
        if any(r != rs[0] for r in rs):
            continue
        b = ('base', name, None, rs)
        for locs in VLG_LOCS[len(rs)] if rs[0] == 2 else VLG_LOCS[len(rs)][:1]:
            n = 1 + max(q for l in locs for q in l)
            if len(rs) == 2 and n == 4 and BASES.index((name, rs)) % 3:
                continue
            for sel in range(len(locs)):
                hot, cold = [(64, 0), (40, 0), (48, -8)][(sel + n) % 3]
                out.append(('vlg', b, locs, [rs[0]] * n if (sel + len(locs)) % 2 else [], sel, hot, cold))
    # gates outside the named library, alone (their unitary_and_grad / dimension clauses) and under each composing constructor
    for label, args in OTHER_CTORS:
        o = ('other', label, args, None)
        rs = radixes_of(o)
        out += [o] * (1 if label == 'PD' else 4)
        out += [('dagger', o), ('power', o, -2), ('controlled', o, [2], [[1]])]
        if len(rs) <= 2:
            out.append(('embedded', o, [r + 1 for r in rs], [list(range(1, r + 1)) for r in rs]))
        if nparams_of(o) > 0:
            out.append(('frozen', o, [0]))
            out.append(('frozen', o, list(range(nparams_of(o)))))
        if rs[0] == 2 and len(rs) <= 2:
            locs = VLG_LOCS[len(rs)][0]
            out += [('vlg', o, locs, [], sel, 64, 0) for sel in range(len(locs))]
    # CircuitGate around parts with several parameters (gradient slices of different parts and parameters side by side)
    u3, cu, fs, u1q = (('base', n, None, r) for n, r in (('U3', [2]), ('CU', [2, 2]), ('FSIM', [2, 2]), ('U1q', [2])))
    out += [('circuit', [2, 2], [(u3, [0]), (cu, [0, 1])]), ('circuit', [2, 2], [(cu, [1, 0]), (u3, [1]), (u1q, [0])]),
            ('circuit', [2, 2, 2], [(fs, [0, 2]), (u3, [1]), (cu, [2, 1])]), ('circuit', [2], [(u3, [0]), (u1q, [0])]),
            ('circuit', [2, 2], [(('embedded', u3, [2], [[1, 0]]), [1]), (('controlled', u1q, [2], [[1]]), [0, 1])])] * 2
    # the two FrozenParameterGate objects the package exports: U1qPiGate is on the exact domain (U1qPi2Gate never is)
    out += [('exported', 'U1qPiGate', ('frozen', ('base', 'U1q', [4, a], [2]), [0])) for a in (0, 3, -2)]
    while len(out) < count:
        c = rand_base(rng)
        depth = rng.choice([1, 1, 2, 2, 3])
        ok = True
        for _ in range(depth):
            w = wrap(rng, c)
            if w is None:
                ok = False
                break
            c = w
        if ok:
            out.append(c)
    return out


def eqhash_catalogue(rng, count):
    """(c1, c2, how): the same construction twice (incl. other spellings of the same arguments), and different ones."""
    out = []
    for name, rs in (('Clock', [3]), ('Shift', [2]), ('CSUM', [3, 3]), ('SWAP', [2, 2]), ('I', [2]), ('ACP', [2, 2]), ('DIAG', [2, 2])):
        b = ('base', name, [], rs) if name not in ('ACP', 'DIAG') else ('base', name, None, rs)
        out.append((b, b + ('default',), 'same:default-argument-vs-explicit'))
        out.append((b, b + ('kw',), 'same:keyword-vs-positional'))
    for r in (3, 4):
        for name, rs in (('Clock', [r]), ('Shift', [r]), ('CSUM', [r, r]), ('SWAP', [r, r])):
            b = ('base', name, [], rs)
            out.append((b, b + ('kw',), 'same:keyword-vs-positional'))
    out.append((('base', 'MPRZ', [1, 0, 0], [2, 2]), ('base', 'MPRZ', [1, 0, 0], [2, 2], 'default'), 'same:default-argument-vs-explicit'))
    out.append((('base', 'MPRY', [1, 0, 0], [2, 2]), ('base', 'MPRY', [1, 0, 0], [2, 2], 'kw'), 'same:keyword-vs-positional'))
    out.append((('base', 'PERM', [1, 0], [2, 2]), ('base', 'PERM', [1, 0], [2, 2], 'kw'), 'same:keyword-vs-positional'))
    # frozen maps given in another order
    for name, rs in (('U3', [2]), ('CU', [2, 2])):
        b = ('base', name, None, rs)
        out.append((('frozen', b, [0, 2]), ('frozen', b, [0, 2], [2, 0]), 'same:frozen-dict-order'))
    # control level sets given in another order
    out.append((('controlled', ('base', 'X', [], [2]), [3], [[0, 2]]), ('controlled', ('base', 'X', [], [2]), [3], [[2, 0]]), 'same:level-order'))
    # constant tables: same matrix, other radixes
    t6 = rand_table(rng, [2, 3])
    out.append((('table', t6, [2, 3]), ('table', t6, [3, 2]), 'different:radixes'))
    out.append((('table', t6, [2, 3]), ('table', t6, [2, 3]), 'same:rebuilt'))
    # circuit gates: one circuit is a prefix of the other
    x, y = ('base', 'X', [], [2]), ('base', 'Y', [], [2])
    out.append((('circuit', [2], [(x, [0])]), ('circuit', [2], [(x, [0]), (y, [0])]), 'different:prefix'))
    out.append((('circuit', [2, 2], [(x, [0]), (('base', 'CX', [], [2, 2]), [0, 1])]),
                ('circuit', [2, 2], [(x, [0]), (('base', 'CX', [], [2, 2]), [0, 1]), (('base', 'T', [], [2]), [1])]), 'different:prefix'))
    out.append((('circuit', [2, 2], [(x, [0]), (y, [1])]), ('circuit', [2, 2], [(x, [0]), (y, [1])]), 'same:rebuilt'))
    while len(out) < count:
        c = rand_base(rng)
        for _ in range(rng.choice([0, 1, 1, 2])):
            w = wrap(rng, c)
            if w is None:
                break
            c = w
        x = rng.random()
        if x < 0.45:
            out.append((c, copy.deepcopy(c), 'same:rebuilt'))
        else:
            c2 = rand_base(rng)
            for _ in range(rng.choice([0, 1, 1, 2])):
                w = wrap(rng, c2)
                if w is None:
                    break
                c2 = w
            if x < 0.75 and c[0] not in ('base', 'table', 'other'):
                # same outer constructor, one argument changed
                m = list(c)
                if c[0] == 'power':
                    m[2] = c[2] + rng.choice([-1, 1, 2])
                elif c[0] == 'tagged':
                    m[2] = 'zz'
                elif c[0] == 'controlled':
                    r0 = c[2][0]
                    alt = sorted(set(range(r0)) - set(c[3][0])) or [0]
                    m[3] = [alt] + [list(l) for l in c[3][1:]]
                else:
                    m = list(c2)
                out.append((c, tuple(m), 'different:one-argument'))
            else:
                out.append((c, c2, 'different:unrelated'))
    return out


# ------------------------------------------------------------------------------- qiskit
QISKIT = {'X': 'XGate', 'Y': 'YGate', 'Z': 'ZGate', 'S': 'SGate', 'Sdg': 'SdgGate', 'T': 'TGate', 'Tdg': 'TdgGate', 'CX': 'CXGate',
          'CY': 'CYGate', 'CZ': 'CZGate', 'CS': 'CSGate', 'SWAP': 'SwapGate', 'ISWAP': 'iSwapGate', 'CCX': 'CCXGate',
          'RCCX': 'RCCXGate', 'RC3X': 'RC3XGate', 'I': 'IGate',
          'RZ': 'RZGate', 'U1': 'U1Gate', 'RX': 'RXGate', 'RY': 'RYGate', 'U3': 'U3Gate', 'CP': 'CPhaseGate', 'CRZ': 'CRZGate',
          'RZZ': 'RZZGate', 'CRX': 'CRXGate', 'CRY': 'CRYGate', 'RXX': 'RXXGate', 'RYY': 'RYYGate', 'CU': 'CUGate', 'CCP': 'MCPhaseGate'}


def qiskit_cases(named):
    """Qiskit's matrix for the same name, qubit order reversed; only names Qiskit has, only all-qubit cases."""
    try:
        import qiskit.circuit.library as QL
        from qiskit.quantum_info import Operator
    except Exception:                       # qiskit is optional
        return []
    out, seen = [], set()
    for name, p, rs in named:
        if name not in QISKIT or any(r != 2 for r in rs) or (name, tuple(p)) in seen:
            continue
        seen.add((name, tuple(p)))
        cls = getattr(QL, QISKIT[name], None)
        if cls is None:
            continue
        ps = reals(p)
        qg = cls(*ps, 2) if name == 'CCP' else cls(*ps)
        n = len(rs)
        M = np.asarray(Operator(qg).data).reshape([2] * (2 * n))
        perm = list(reversed(range(n))) + [n + i for i in reversed(range(n))]
        M = M.transpose(perm).reshape(2 ** n, 2 ** n)
        out.append({'kind': 'qiskit', 'name': name, 'p': list(p) or [0], 'r': list(rs), 'obs': exact.table_of(M)})
    return out


# ------------------------------------------------------------------------------- run
def _rad_desc(d):
    k = d['k']
    if k in ('base', 'embedded', 'circuit'):
        return list(d['r'])
    if k == 'controlled':
        return list(d['cr']) + _rad_desc(d['sub'][0])
    if k == 'vlg':
        if d['given']:
            return list(d['given'])
        ir, m = _rad_desc(d['sub'][0]), {}
        for l in d['locs']:
            for r, qd in zip(ir, l):
                m.setdefault(qd, r)
        return [m[i] for i in sorted(m)]
    return _rad_desc(d['sub'][0])


EMPTY_1D = [0, -1, -1]        # shape (0,): what `np.array([])` looks like in a descriptor's 'gs'


def input_classes(d):
    """Input classes the known findings of the composing gates are stated in (read off the construction descriptor and the
    observed gradient shape 'gs' of its parts):
      vlg-non-qubit            some VariableLocationGate below is not on qubits only
      vlg-non-involutive       the selected location of some VariableLocationGate is a qudit permutation that is not its own inverse
      vlg-constant-part        a VariableLocationGate directly over a parameter-free part whose gradient is `np.array([])`
      controlled-constant-part a ControlledGate directly over such a part"""
    out = set()
    if d['k'] == 'vlg':
        rs = _rad_desc(d)
        if any(r != 2 for r in rs):
            out.add('vlg-non-qubit')
        loc = list(d['locs'][d['sel']])
        full = loc + [q for q in range(len(rs)) if q not in loc]
        if any(full[full[i]] != i for i in range(len(full))):
            out.add('vlg-non-involutive')
        if d['sub'][0]['gs'] == EMPTY_1D:
            out.add('vlg-constant-part')
    if d['k'] == 'controlled' and d['sub'][0]['gs'] == EMPTY_1D:
        out.add('controlled-constant-part')
    for s in d['sub']:
        out |= input_classes(s)
    return out


# which of a case's input classes a verdict of a clause is filed under (the first the case has); any other clause: all of them
CLASS_ORDER = {'dimension': ['vlg-non-qubit', 'vlg-constant-part', 'controlled-constant-part'],
               'unitary_and_grad-value': ['vlg-non-qubit', 'vlg-constant-part', 'controlled-constant-part', 'vlg-non-involutive']}


def key_of(case, clause):
    base = clause.split(':')[0]
    k = {'kind': case['kind'], 'clause': base}
    if case['kind'] == 'composed':
        have = input_classes(case['d'])
        first = [x for x in CLASS_ORDER.get(base, []) if x in have]
        k['pattern'] = first[0] if first else '+'.join(sorted(have))
    if ':' in clause:
        k['sub'] = clause.split(':', 1)[1]
    if case['kind'] in ('named', 'qiskit'):
        k['gate'] = case['name']
    else:
        k['top'] = case['top']
        k['leaves'] = '+'.join(sorted(set(case['leaves'])))
    if 'how' in case:
        k['how'] = case['how']
    return k


def recipes_of(ctx):
    rng = random.Random(ctx.seed * 1000003 + 18)
    quick = ctx.quick
    named = named_catalogue(quick)
    recipes = []
    for name, p, rs in named:
        recipes.append({'how': 'named', 'args': [name, p, rs]})
    for c in composed_catalogue(rng, 1400 if quick else 9000):
        s = rng.randrange(1 << 30)
        recipes.append({'how': 'composed', 'c': c, 'seed': s})
        if rng.random() < 0.6:
            recipes.append({'how': 'inverse', 'c': c, 'seed': s})
    for name, p, rs in named:          # inverse of every named gate at every point
        recipes.append({'how': 'inverse', 'c': ('base', name, p, rs), 'seed': 0})
    for c1, c2, how in eqhash_catalogue(rng, 500 if quick else 5000):
        recipes.append({'how': 'eqhash', 'c1': c1, 'c2': c2, 'seed': rng.randrange(1 << 30), 'label': how})
    return recipes, named


def build_cases(ctx):
    recipes, named = recipes_of(ctx)
    built = exact.pmap(rebuild, recipes, procs=8, chunksize=32)
    cases, kept = [], []
    for r, c in zip(recipes, built):
        if c is not None:
            cases.append(c)
            kept.append(r)
    for q in qiskit_cases(named):
        cases.append(q)
        kept.append({'how': 'qiskit'})
    return cases, kept


def rebuild(recipe):
    warnings.filterwarnings('ignore')
    h = recipe['how']
    if h == 'named':
        return observe_named(*recipe['args'])
    if h == 'composed':
        return observe_composed(totuple(recipe['c']), random.Random(recipe['seed']))[0]
    if h == 'inverse':
        try:
            return observe_inverse(totuple(recipe['c']), random.Random(recipe['seed']))
        except (RuntimeError, ValueError):     # the gate has no matrix at all: already a `dimension` verdict of its named / composed case
            return None
    if h == 'eqhash':
        return observe_eqhash(totuple(recipe['c1']), totuple(recipe['c2']), recipe['seed'], recipe['label'])
    return None


def totuple(c):
    """JSON round trip turns the construction tuples into lists; only the outer shape matters to realise()."""
    return c


def laws_pass(ctx, out):
    for cfg in (['MonoLawsGate.cfg'] if ctx.quick else ['MonoLawsGateT.cfg', 'MonoLawsGateS.cfg']):
        out[cfg] = common.tlc(LAWS, os.path.join(common.SPECS, 'exact', cfg), coverage=True, scratch=ctx.scratch, timeout=3000,
                              workers=6 if ctx.quick else 'auto')


def run(ctx: Ctx) -> Outcome:
    common.use_repo()
    warnings.filterwarnings('ignore')
    out = Outcome('C18')
    laws, th = {}, None
    if ctx.replay:
        rp = ctx.replay['replay']
        case = rebuild(rp['recipe']) if rp.get('recipe') and rp['recipe']['how'] != 'qiskit' else None
        cases, recipes = [case or rp['case']], [rp.get('recipe')]
    else:
        import threading
        th = threading.Thread(target=laws_pass, args=(ctx, laws))
        th.start()
        cases, recipes = build_cases(ctx)
    verdicts, states, trans, _ = exact.par_validate(SPEC, CFG, cases, ctx.scratch, groups=8)
    for idx, _step, clause, _ in verdicts:
        c = cases[idx]
        if clause == 'spec-inconsistent':
            raise common.MachineryError('GateLib.tla: Conjugated and Placed disagree on case %s' % str(c.get('d'))[:600])
        small = {k: v for k, v in c.items() if k not in ('obs', 'obs_ug', 'obs_x', 'obs_inv', 't1', 't2')}
        out.violations.append(Violation('C18', clause.split(':')[0], key_of(c, clause),
                                        '%s: %s' % (clause, str(small)[:900]), {'case': c, 'recipe': recipes[idx]}))
    laws_states = laws_trans = 0
    laws_cov = {}
    if th is not None:
        th.join()
        for cfg, r in laws.items():
            if not r.ok:
                raise common.MachineryError('MonoLaws %s failed: %s' % (cfg, r.error or r.out[-1500:]))
            laws_states += r.distinct
            laws_trans += r.states
            laws_cov[cfg] = {'distinct_states': r.distinct, 'states_generated': r.states, 'actions': r.coverage}
    kinds, tops = {}, {}
    for c in cases:
        kinds[c['kind']] = kinds.get(c['kind'], 0) + 1
        if c['kind'] == 'composed':
            tops[c['top']] = tops.get(c['top'], 0) + 1
    withug = [c for c in cases if c['kind'] in ('named', 'composed')]
    ug_cov = {'cases_with_the_clause': len(withug), 'answered': sum(1 for c in withug if c['has_ug']),
              'declared_no_gradient(NotImplementedError)': sum(1 for c in withug if not c['has_ug']),
              'with_parameters': sum(1 for c in withug if c['adv']['np'] > 0),
              'without_parameters': sum(1 for c in withug if c['adv']['np'] == 0)}
    vlg = [c for c in cases if c['kind'] == 'composed' and "'k': 'vlg'" in str(c['d'])]

    def nontrivial(c):
        if c['kind'] in ('named', 'qiskit'):
            return any(e['idx'] != b or e['ph'] for b, e in enumerate(c['obs']))
        if c['kind'] == 'eqhash':
            return True
        return c.get('top') not in ('base',) or c['kind'] == 'inverse'
    distinct = len({common.digest({k: v for k, v in c.items()}) for c in cases if nontrivial(c)})
    out.coverage = {
        'states': states + laws_states, 'transitions': trans + laws_trans,
        'traces_validated_against_impl': len(cases), 'evaluations': len(cases), 'distinct_nontrivial': distinct,
        'rule': 'one case = one gate object built through the public constructors and observed (named gate at one parameter point / '
                'composed construction / inverse pair / pair of constructions compared with == and hash / Qiskit matrix of the same '
                'name); named gates and the systematic compositions are enumerated, the rest is seeded random; non-trivial = the '
                'matrix is not the identity (named) or the construction has a composing constructor or is a gate outside the named '
                'library at an exact-domain point; distinct by content hash',
        'exhaustive': False,
        'by_kind': kinds,
        'composed_by_outermost_constructor': tops,
        'unitary_and_grad_clause': ug_cov,
        'variable_location_gate_cases': len(vlg),
        'exported_gate_census': export_census(),
        'library_names': sorted({c['name'] for c in cases if c['kind'] == 'named'}),
        'algebra_model_checking': laws_cov,
        'samples': [{k: v for k, v in cases[i].items() if k not in ('obs_x', 'obs_ug')} for i in (3, len(cases) // 2, len(cases) - 2)
                    if 0 <= i < len(cases)],
        'checker_cmd': 'tlc -config specs/exact/GateLib.cfg specs/exact/GateLib.tla (batch, TRACE_FILE=cases.json); '
                       'tlc -coverage 1 -config specs/exact/MonoLawsGate.cfg specs/exact/MonoLaws.tla',
        'trusted_base': ['TLC', 'harness/exact.py discretiser (argmax + phase class + 1e-7 tolerance)',
                         'harness/checks/c18.py construction and observation code'],
    }
    out.assumptions = ['parameters are integer multiples of pi/4 (pi for X/Y-type rotations): the monomial points of each gate',
                       'phases are multiples of 2*pi/48; matrices are read off with tolerance 1e-7']
    return out
