"""C04 - Circuit editing calls have their documented effect on program order (specs/circuit)."""
from __future__ import annotations

from harness import circuit_rec
from harness.common import Ctx, Outcome

MANIFEST_ENTRY = dict(
    engine='circuit',
    technique='TLA+ reference state machine of the cycle grid (specs/circuit/CircuitRef.tla over CircuitOps.tla) model-checked with '
              'TLC; its transitions replayed into the real Circuit; recorded executions judged step by step by the L1 trace '
              'specification specs/circuit/CircuitAbs.tla',
    text='TLC explores the list-of-cycles reference model for the whole public editing alphabet (append/insert/pop/replace and '
         'their gate, circuit and batch variants, remove, pop_cycle, qudit insertion/removal/renumbering, fold/unfold/straighten/'
         'compress, copy/become/clear, + * += *=, inverse) on 2-3 qudits with up to 2-3 live operations and checks on every '
         'transition that the per-qudit program order changes exactly as the docstring says. Emitted transitions are replayed '
         'into real Circuit objects and seeded random histories (up to 7 qudits, radixes 2-4, 120/300 calls, valid and invalid '
         'arguments) are recorded through the public read API; every recorded call is judged by TLC: PerQudit(after) must be in '
         'the documented relation to PerQudit(before).',
    note='Program order is decided on tagged operation identities, not on unitaries (C06 ties order to the unitary). Model-checked '
         'scope is small (<= 3 qudits, <= 3 live operations, depth 3-4); long histories are sampled, not exhaustive. Layout '
         'differences are reported as DRIFT only.',
    ref='DESIGN.md section 4 / IR group / C04',
)


def run(ctx: Ctx) -> Outcome:
    return circuit_rec.run_check(ctx, 'C04')
