"""SimKernel: the REAL BQSKit runtime classes (Worker, ServerBase, DetachedServer, AttachedServer,
Manager, Compiler) run inside one process under a deterministic baton scheduler.

Every runtime thread is a real Python thread that only runs while it holds the baton; it hands the
baton back at *scheduling points*: connection send/recv, queue put/get, lock acquire, select, accept /
connect, process/thread start and join, sleep, and - opt-in per function - every source line.  The
schedule (which enabled thread runs next, which ready connection a select returns, how a send to a
dead peer fails, the random choices of assign_tasks) is an explicit, recorded, replayable input.

Nothing in /repo is changed: the names Thread, Queue, Lock, Process, Listener, Client, selectors,
signal, os, time, socket, random are re-bound in the runtime modules' namespaces (once per process);
the shims delegate to the kernel of the *current run*.
"""
from __future__ import annotations

import collections
import itertools
import logging
import pickle
import queue as _queue
import random as _random
import sys
import threading
import weakref


class SimKilled(BaseException):
    """Unwinds a sim thread whose node was killed."""


class SimThread:
    def __init__(self, kernel, name, target, args=(), kwargs=None, node=None):
        self.k = kernel
        self.name = name
        self.target = target
        self.args = args
        self.kwargs = kwargs or {}
        self.node = node
        self.sem = threading.Lock()       # used as a binary semaphore (C-level, much cheaper than Semaphore)
        self.sem.acquire()
        self.state = 'ready'      # ready | blocked | running | done
        self.cond = None
        self.why = ('start',)
        self.killed = False
        self.exc = None
        self.t = threading.Thread(target=self._boot, daemon=True, name=name)

    def _boot(self):
        self.sem.acquire()
        self.k.cur.t = self
        try:
            if self.killed:
                raise SimKilled()
            if self.k.line_codes:
                sys.settrace(self.k._tracer)
            self.target(*self.args, **self.kwargs)
        except SimKilled:
            pass
        except SystemExit:
            pass
        except BaseException as e:   # noqa
            self.exc = e
        finally:
            sys.settrace(None)
            self.state = 'done'
            self.k.ksem.release()


class Kernel:
    """Baton scheduler. ``sched`` decides every choice; all choices are recorded in ``self.choices``."""

    def __init__(self, sched):
        self.threads = []
        self.ksem = threading.Lock()
        self.ksem.acquire()
        self.cur = threading.local()
        self.sched = sched
        self.steps = 0
        self.choices = []          # recorded (kind, n, picked)
        self.trace = []            # (thread name, why) per step - for diagnostics
        self.line_codes = {}       # code object -> set of co_names traced at line level
        self.anchors = {}          # code object -> {lineno: label}
        self.keep_trace = False

    # -- threads
    def spawn(self, name, target, args=(), kwargs=None, node=None):
        t = SimThread(self, name, target, args, kwargs, node)
        self.threads.append(t)
        t.t.start()
        return t

    def me(self):
        return getattr(self.cur, 't', None)

    def yield_(self, why, cond=None):
        t = self.me()
        if t is None:
            if cond is not None and not cond():
                raise RuntimeError('would block outside a sim thread: %r' % (why,))
            return
        if t.killed:
            # a killed process runs nothing any more: 'finally' clauses unwinding through here must not block or act
            raise SimKilled()
        t.why = why
        if cond is None:
            t.state = 'ready'
        else:
            t.state = 'blocked'
            t.cond = cond
        self.ksem.release()
        t.sem.acquire()
        if t.killed:
            raise SimKilled()

    def wait_timeout(self, why, cond):
        """Block until cond() holds (returns True) or - maximal-progress reading of a timeout - until nothing else
        in the system can run (returns False)."""
        t = self.me()
        if t is None:
            return bool(cond())

        def others_idle():
            for o in self.threads:
                if o is t or o.state == 'done':
                    continue
                if o.state == 'ready':
                    return False
                if o.state == 'blocked' and not getattr(o, 'timeout_wait', False) and o.cond():
                    return False
            return True
        t.timeout_wait = True
        try:
            self.yield_(why, lambda: cond() or others_idle())
        finally:
            t.timeout_wait = False
        return bool(cond())

    def trace_anchor(self, function, needle, label):
        """Statement anchor for guided replay: yield ('label', label) whenever `function` is about to execute the
        first source line containing `needle`.  Returns False if the statement no longer exists."""
        import inspect
        src, start = inspect.getsourcelines(function)
        for i, line in enumerate(src):
            if needle in line:
                self.anchors.setdefault(function.__code__, {})[start + i] = label
                self.line_codes.setdefault(function.__code__, False)
                return True
        return False

    def _tracer(self, frame, event, arg):
        if frame.f_code in self.anchors and not self.line_codes.get(frame.f_code):
            k = self
            marks = self.anchors[frame.f_code]

            def local_a(frame, event, arg):
                if event == 'line' and frame.f_lineno in marks:
                    k.yield_(('label', marks[frame.f_lineno]))
                return local_a
            return local_a
        if frame.f_code in self.line_codes:
            k = self

            def local(frame, event, arg):
                if event == 'line':
                    k.yield_(('line', frame.f_code.co_name, frame.f_lineno))
                return local
            return local
        return None

    def trace_lines(self, *functions):
        for f in functions:
            self.line_codes[f.__code__] = True

    # -- choices
    def choice(self, n, kind):
        if n <= 1:
            return 0
        i = self.sched.pick(n, kind, self)
        self.choices.append((kind, n, i))
        return i

    def enabled(self):
        out = []
        for t in self.threads:
            if t.state == 'ready':
                out.append(t)
            elif t.state == 'blocked' and t.cond():
                out.append(t)
        return out

    def step(self, t):
        if self.keep_trace:
            self.trace.append((t.name, t.why))
        t.state = 'running'
        t.cond = None
        self.steps += 1
        t.sem.release()
        self.ksem.acquire()

    def run(self, max_steps=200000, until=None):
        """Run until quiescence ('quiescent'), ``until()`` true ('until') or the step bound ('maxsteps')."""
        while self.steps < max_steps:
            if until is not None and until():
                return 'until'
            en = self.enabled()
            if not en:
                return 'quiescent'
            i = self.sched.pick_thread(en, self)
            self.step(en[i])
        return 'maxsteps'

    def run_thread_until(self, pred, stop, max_steps=20000):
        """Guided replay: repeatedly run the (single) enabled thread satisfying ``pred`` until ``stop(thread)``
        holds at one of its scheduling points.  Returns False if no such thread is enabled."""
        n = 0
        while n < max_steps:
            en = [t for t in self.enabled() if pred(t)]
            if not en:
                return False
            t = en[0]
            self.step(t)
            n += 1
            if t.state == 'done' or stop(t):
                return True
        return False

    def kill_node(self, node):
        for t in self.threads:
            if t.node == node and t.state != 'done' and t is not self.me():
                t.killed = True
                t.state = 'ready'
                t.cond = None

    def blocked_report(self):
        return [(t.name, t.state, t.why) for t in self.threads if t.state != 'done']


# ------------------------------------------------------------------ schedulers

class RandomSched:
    def __init__(self, seed):
        self.rng = _random.Random(seed)

    def pick_thread(self, en, k):
        return self.rng.randrange(len(en))

    def pick(self, n, kind, k):
        return self.rng.randrange(n)


class PCTSched:
    """PCT-style: threads get random priorities; at d random change points the running thread's priority drops."""

    def __init__(self, seed, depth=3, horizon=600):
        self.rng = _random.Random(seed)
        self.prio = {}
        self.change = set(self.rng.sample(range(1, horizon), min(depth, horizon - 1)))
        self.low = 0

    def pick_thread(self, en, k):
        for t in en:
            if t.name not in self.prio:
                self.prio[t.name] = self.rng.random() + 1.0
        best = max(range(len(en)), key=lambda i: self.prio[en[i].name])
        if k.steps in self.change:
            self.low -= 1
            self.prio[en[best].name] = self.low
            best = max(range(len(en)), key=lambda i: self.prio[en[i].name])
        return best

    def pick(self, n, kind, k):
        return self.rng.randrange(n)


class ReplaySched:
    """Replays a recorded list of thread picks / choices; falls back to index 0 when exhausted."""

    def __init__(self, thread_picks, choices):
        self.tp = list(thread_picks)
        self.ch = list(choices)
        self.i = 0
        self.j = 0

    def pick_thread(self, en, k):
        if self.i < len(self.tp):
            name = self.tp[self.i]
            self.i += 1
            for idx, t in enumerate(en):
                if t.name == name:
                    return idx
        return 0

    def pick(self, n, kind, k):
        if self.j < len(self.ch):
            v = self.ch[self.j][2]
            self.j += 1
            return v % n
        return 0


class RecordingSched:
    """Wraps a scheduler and records thread picks by name (replayable with ReplaySched)."""

    def __init__(self, inner):
        self.inner = inner
        self.picks = []

    def pick_thread(self, en, k):
        i = self.inner.pick_thread(en, k)
        self.picks.append(en[i].name)
        return i

    def pick(self, n, kind, k):
        return self.inner.pick(n, kind, k)


# ------------------------------------------------------------------ channels

class Chan:
    def __init__(self, name):
        self.name = name
        self.q = collections.deque()
        self.closed = False


class FakeConn:
    """multiprocessing.connection.Connection look-alike over two one-way FIFO channels; payloads are pickled."""

    def __init__(self, net, rx, tx, name, owner=None, peer=None):
        self.net = net
        self.k = net.k
        self.rx = rx
        self.tx = tx
        self.name = name
        self.owner = owner
        self.peer = peer
        self._closed = False
        self.sent = 0
        # fd inheritance: processes forked by the owner AFTER this connection existed hold a copy of the socket; the peer sees
        # end-of-file only when the owner's handle is closed (or the owner is dead) AND every such child is dead
        self.heirs = set()

    @property
    def closed(self):
        return self._closed

    def send(self, obj):
        if self._closed:
            raise OSError('handle is closed')
        if self.tx.closed:
            how = self.k.choice(2, 'send-to-dead-peer')
            self.tx.unread_at_death = True       # (a later recv on this socket may be reset as well)
            raise (ConnectionResetError if how == 0 else BrokenPipeError)('peer closed')
        data = pickle.dumps(obj)
        self.tx.q.append(data)
        self.sent += 1
        tag = obj[0] if isinstance(obj, tuple) and obj else obj
        self.net.on_send(self, tag, obj)
        self.k.yield_(('send', self.name, getattr(tag, 'name', str(tag)[:20])))

    def recv(self):
        if self._closed:
            raise OSError('handle is closed')
        self.k.yield_(('recv', self.name), lambda: len(self.rx.q) > 0 or self.rx.closed or self._closed)
        if self._closed:
            raise OSError('handle is closed')
        if len(self.rx.q) == 0:
            # the peer is gone.  A clean end-of-file - or, when the peer died with data from this endpoint still unread in its
            # receive buffer (TCP then resets the connection instead of closing it), possibly ConnectionResetError: scheduler choice
            if getattr(self.tx, 'unread_at_death', False) and self.k.choice(2, 'recv-from-dead-peer') == 1:
                raise ConnectionResetError('connection reset by peer')
            raise EOFError
        obj = pickle.loads(self.rx.q.popleft())
        tag = obj[0] if isinstance(obj, tuple) and obj else obj
        self.net.on_recv(self, tag, obj)
        return obj

    def poll(self, timeout=0.0):
        if self._closed:
            raise OSError('handle is closed')
        return len(self.rx.q) > 0 or self.rx.closed

    def readable(self):
        return (not self._closed) and (len(self.rx.q) > 0 or self.rx.closed)

    def close(self):
        self._closed = True
        if self.heirs:
            return                   # children forked after this connection was made still hold the socket open
        self.tx.closed = True
        self.rx.closed = True

    def _hangup(self):
        """The last holder of this end is gone: the peer sees end-of-file (or a reset, if data it sent was never read)."""
        if len(self.rx.q) > 0:
            self.rx.unread_at_death = True
        self.tx.closed = True
        self.rx.closed = True

    def fileno(self):
        return id(self)

    def __hash__(self):
        return id(self)

    def __eq__(self, o):
        return self is o

    def __del__(self):
        # like multiprocessing.Connection: dropping the last reference closes the handle (the Compiler relies on it)
        try:
            if not self._closed:
                self.close()
        except Exception:
            pass


class SimQueue:
    def __init__(self, k, name='q'):
        self.k = k
        self.q = collections.deque()
        self.name = name

    def put(self, x):
        self.q.append(x)
        self.k.yield_(('qput', self.name))

    def get(self, block=True, timeout=None):
        self.k.yield_(('qget', self.name), lambda: len(self.q) > 0)
        return self.q.popleft()

    def get_nowait(self):
        if not self.q:
            raise _queue.Empty
        return self.q.popleft()

    def empty(self):
        return not self.q

    def qsize(self):
        return len(self.q)

    def task_done(self):
        pass


class SimLock:
    def __init__(self, k):
        self.k = k
        self.held = False
        self.holder = None

    def acquire(self, blocking=True, timeout=-1):
        self.k.yield_(('lock',), lambda: not self.held)
        self.held = True
        self.holder = self.k.me()
        return True

    def release(self):
        self.held = False
        self.holder = None
        rel = getattr(self.k, 'releases', None)
        if rel is not None:          # observer hook (harness/rtdrive.py statistics): who released which lock during which step
            me = self.k.me()
            rel.append((me.name if me is not None else '', self.k.steps, self))

    def locked(self):
        return self.held

    def __enter__(self):
        self.acquire()
        return self

    def __exit__(self, *a):
        self.release()


class FakePopen:
    """What an attached Compiler holds for the server process it started: SIGINT asks it to shut down, a
    communicate() that times out is followed by kill()."""

    def __init__(self, net, node='server'):
        self.net = net
        self.node = node
        self.pid = 1

    def _done(self):
        return all(t.state == 'done' for t in self.net.k.threads if t.node == self.node)

    def send_signal(self, sig):
        h = self.net.sig_handlers.get(self.node)
        if h is not None and not self._done():
            h(sig, None)

    def communicate(self, timeout=None):
        import subprocess
        if not self.net.k.wait_timeout(('communicate', self.node), self._done):
            raise subprocess.TimeoutExpired('server', timeout)
        return (b'', b'')

    def kill(self):
        # SIGKILL of the server process; its (daemon) worker processes lose their connection and exit
        if self.node not in self.net.dead:
            for h in self.net.exit_hooks:
                h(self.node, 'kill')
        self.net.crash(self.node)


# ------------------------------------------------------------------ network + patches

CUR = None       # the Net of the current run
_PATCHED = False
_ORIG_FACTORY = logging.getLogRecordFactory()


class _Key:
    def __init__(self, fileobj, data):
        self.fileobj = fileobj
        self.data = data


class Net:
    """One simulated machine room: listeners by port, connections, nodes, registered workers/servers."""

    def __init__(self, sched, lines=False):
        global CUR
        self.k = Kernel(sched)
        self.listeners = {}
        self.seq = itertools.count()
        self.conns = []
        self.workers = {}       # node -> Worker
        self.servers = {}       # node -> ServerBase
        self.msglog = []        # (src node, dst node, msg name) in send order
        self.send_hooks = []
        self.recv_hooks = []
        self.force_select = None
        self.dead = set()
        self.sig_handlers = {}
        self.exit_hooks = []
        install()
        CUR = self
        _reset_process_state()

    # observers
    def on_send(self, conn, tag, obj):
        self.msglog.append((conn.owner, conn.peer, getattr(tag, 'name', str(tag)[:16])))
        for h in self.send_hooks:
            h(conn, tag, obj)

    def on_recv(self, conn, tag, obj):
        for h in self.recv_hooks:
            h(conn, tag, obj)

    def pipe(self, a, b):
        ab = Chan(a + '->' + b)
        ba = Chan(b + '->' + a)
        ca = FakeConn(self, ba, ab, a + ':' + b, owner=a, peer=b)
        cb = FakeConn(self, ab, ba, b + ':' + a, owner=b, peer=a)
        self.conns += [weakref.ref(ca), weakref.ref(cb)]
        return ca, cb

    def crash(self, node):
        """Process death: every connection end the node owns closes, all its threads unwind."""
        self.dead.add(node)
        for ref in self.conns:
            c = ref()
            if c is None:
                continue
            if node in c.heirs:
                c.heirs.discard(node)
                if c._closed and not c.heirs and not c.tx.closed:
                    c._hangup()              # the owner's handle was gone already; this was the last inherited copy
            if c.owner == node and not c._closed:
                c._closed = True
                if not c.heirs:
                    c._hangup()
        self.k.kill_node(node)

    def node(self):
        me = self.k.me()
        return me.node if me else 'main'

    def spawn_process(self, node, target, args=(), kwargs=None):
        """A process: when its main function returns (or dies) the process exits - its daemon threads stop and its
        connections close, exactly as for a real interpreter."""
        def main():
            try:
                target(*args, **(kwargs or {}))
            finally:
                if node not in self.dead:
                    for h in self.exit_hooks:
                        h(node, 'exit')
                    self.crash(node)
        return self.k.spawn(node + '.main', main, node=node)


def _reset_process_state():
    """Per-run reset of process-global state the runtime classes touch."""
    logging.setLogRecordFactory(_ORIG_FACTORY)
    root = logging.getLogger()
    for h in list(root.handlers):
        root.removeHandler(h)
    rl = logging.getLogger('bqskit.runtime')
    for h in list(rl.handlers):
        rl.removeHandler(h)
    root.setLevel(logging.WARNING)
    from bqskit.runtime.task import RuntimeTask
    RuntimeTask.task_counter = 0


def install():
    """Re-bind OS-facing names in the runtime modules (idempotent; shims consult CUR)."""
    global _PATCHED
    if _PATCHED:
        return
    _PATCHED = True
    import bqskit.runtime.base as B
    import bqskit.runtime.worker as W
    import bqskit.runtime.detached as D
    import bqskit.runtime.attached as A   # noqa
    import bqskit.runtime.manager as Mg
    import bqskit.compiler.compiler as C

    class SimThreadShim:
        def __init__(self, target=None, args=(), kwargs=None, daemon=None, **kw):
            self.target = target
            self.args = args
            self.kwargs = kwargs or {}
            self.daemon = daemon
            self.st = None

        def start(self):
            net = CUR
            node = net.node()
            nm = getattr(self.target, '__name__', 'thread')
            self.st = net.k.spawn('%s.%s%d' % (node, nm, next(net.seq)), self.target, self.args, self.kwargs, node=node)
            net.k.yield_(('thread-start', nm))

        def is_alive(self):
            return self.st is not None and self.st.state != 'done'

        def join(self, timeout=None):
            k = CUR.k
            if self.st is not None and self.st is k.me():
                raise RuntimeError('cannot join current thread')
            k.yield_(('join',), lambda: self.st is None or self.st.state == 'done')

    class SimProcess:
        def __init__(self, target=None, args=(), kwargs=None, **kw):
            self.target = target
            self.args = args
            self.kwargs = kwargs or {}
            self.daemon = True
            self.st = None
            self.node = None
            self.pid = None

        def start(self):
            net = CUR
            if getattr(self.target, '__name__', '') == 'start_worker' and self.args and isinstance(self.args[0], int):
                self.node = 'w%d' % self.args[0]
            else:
                self.node = 'proc%d' % next(net.seq)
            self.pid = self.node
            # fork: the child inherits every connection its parent holds at this moment (see FakeConn.heirs)
            parent = net.node()
            for ref in net.conns:
                c = ref()
                if c is not None and c.owner == parent and not c._closed:
                    c.heirs.add(self.node)
            self.st = net.spawn_process(self.node, self.target, self.args, self.kwargs)

        def join(self, timeout=None):
            k = CUR.k
            node = self.node
            k.yield_(('pjoin', node), lambda: all(t.state == 'done' for t in k.threads if t.node == node))

        def is_alive(self):
            k = CUR.k
            return any(t.state != 'done' for t in k.threads if t.node == self.node)

        def kill(self):
            CUR.crash(self.node)

        terminate = kill

    class SimListener:
        def __init__(self, address, family=None, backlog=1, **kw):
            self.port = address[1]
            self.pending = collections.deque()
            CUR.listeners[self.port] = self
            self.owner = CUR.node()

        def accept(self):
            net = CUR
            net.k.yield_(('accept', self.port), lambda: len(self.pending) > 0)
            c = self.pending.popleft()
            c.owner = net.node()
            other = c.peer_conn() if c.peer_conn is not None else None
            if other is not None:
                other.peer = c.owner
            return c

        def close(self):
            if CUR.listeners.get(self.port) is self:
                del CUR.listeners[self.port]

    def SimClient(address, family=None, **kw):
        net = CUR
        port = address[1]
        # start-up races (connect before listen) are retried with back-off in the real code and are outside
        # the properties: a connect simply waits for its listener
        net.k.yield_(('connect', port), lambda: port in net.listeners)
        node = net.node()
        a, b = net.pipe(node, 'L%d' % port)
        a.peer_conn = weakref.ref(b)
        b.peer_conn = weakref.ref(a)
        a.peer = net.listeners[port].owner
        net.listeners[port].pending.append(b)
        return a

    class SimSelector:
        def __init__(self):
            self.reg = {}
            self.closed = False

        def register(self, f, ev, data=None):
            self.reg[id(f)] = _Key(f, data)

        def unregister(self, f):
            self.reg.pop(id(f), None)

        def _ready(self):
            return [key for key in self.reg.values() if hasattr(key.fileobj, 'readable') and key.fileobj.readable()]

        def select(self, timeout=None):
            net = CUR
            net.k.yield_(('select',), lambda: len(self._ready()) > 0)
            r = self._ready()
            f = net.force_select
            if f is not None:
                net.force_select = None
                for key in r:
                    if key.fileobj is f:
                        return [(key, 1)]
                raise RuntimeError('forced connection not readable')
            r.sort(key=lambda key: key.fileobj.name)
            return [(r[net.k.choice(len(r), 'select')], 1)]

        def close(self):
            self.reg.clear()
            self.closed = True

    class SelMod:
        EVENT_READ = 1
        DefaultSelector = SimSelector

    class SigProxy:
        def __getattr__(self, n):
            return getattr(__import__('signal'), n)

        def signal(self, signum, handler):
            # remembered per node so that a simulated SIGINT (attached Compiler.close) can be delivered
            if callable(handler):
                CUR.sig_handlers[CUR.node()] = handler
            return None

    class OsProxy:
        def __getattr__(self, n):
            return getattr(__import__('os'), n)

        def kill(self, pid, sig):
            net = CUR
            node = net.node()
            if node not in net.dead:
                for h in net.exit_hooks:
                    h(node, 'exit')
            net.crash(node)
            raise SimKilled()

        def getpid(self):
            return 0

    class TimeProxy:
        def __getattr__(self, n):
            return getattr(__import__('time'), n)

        def sleep(self, s):
            CUR.k.yield_(('sleep', s))

    class _DummySock:
        def __init__(self, *a):
            self.other = None
            self.inbox = 0
            self.name = 'hotline'

        def connect(self, addr):
            net = CUR
            lst = net.listeners.get(addr[1])
            if lst is not None:
                a, b = net.pipe('dummy', 'L%d' % addr[1])
                a.peer_conn = weakref.ref(b)
                b.peer_conn = weakref.ref(a)
                lst.pending.append(b)
                self.keep = a

        def send(self, b):
            if self.other is not None:
                self.other.inbox += len(b)
            return len(b)

        def readable(self):
            return self.inbox > 0

        def close(self):
            pass

        def fileno(self):
            return -1

    class SockProxy:
        AF_INET = 2
        SOCK_STREAM = 1

        def __getattr__(self, n):
            return getattr(__import__('socket'), n)

        def socket(self, *a):
            return _DummySock()

        def socketpair(self, *a):
            x, y = _DummySock(), _DummySock()
            x.other, y.other = y, x
            return x, y

    class RandProxy:
        """assign_tasks' randomness becomes a scheduler choice (enumerable and replayable)."""

        def __getattr__(self, n):
            return getattr(_random, n)

        def shuffle(self, lst):
            k = CUR.k
            n = len(lst)
            for i in range(n - 1):
                j = i + k.choice(n - i, 'shuffle')
                lst[i], lst[j] = lst[j], lst[i]

        def random(self):
            k = CUR.k
            return k.choice(8, 'random') / 8.0

    for mod in (B, W, D, Mg, C):
        if hasattr(mod, 'Thread'):
            mod.Thread = SimThreadShim
        if hasattr(mod, 'Queue'):
            mod.Queue = lambda *a, **kw: SimQueue(CUR.k)
        if hasattr(mod, 'Lock'):
            mod.Lock = lambda: SimLock(CUR.k)
        if hasattr(mod, 'Process'):
            mod.Process = SimProcess
        if hasattr(mod, 'Listener'):
            mod.Listener = SimListener
        if hasattr(mod, 'Client'):
            mod.Client = SimClient
        if hasattr(mod, 'selectors'):
            mod.selectors = SelMod
        if hasattr(mod, 'signal'):
            mod.signal = SigProxy()
        if hasattr(mod, 'time'):
            mod.time = TimeProxy()
        if hasattr(mod, 'os'):
            mod.os = OsProxy()
        if hasattr(mod, 'socket'):
            mod.socket = SockProxy()
        if hasattr(mod, 'random'):
            mod.random = RandProxy()

    orig_winit = W.Worker.__init__

    def winit(self_, id, conn):
        CUR.workers[CUR.node()] = self_
        orig_winit(self_, id, conn)
    W.Worker.__init__ = winit
    W.get_worker = lambda: CUR.workers[CUR.node()]

    orig_sinit = B.ServerBase.__init__

    def sinit(self_, *a, **kw):
        CUR.servers[CUR.node()] = self_
        orig_sinit(self_, *a, **kw)
    B.ServerBase.__init__ = sinit

    # Popen of an attached server is never used in simulation (Compiler(ip='sim') connects to a spawned one)
