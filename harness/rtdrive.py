"""Scenario runner: real runtime under SimKernel -> L1 trace (RuntimeAbs alphabet) + diagnostics.

A scenario is a JSON-able dict:
  topo    : ['attached', nworkers] | ['detached', [nworkers_of_manager_0, ...]]
  progs   : {fn: [[instr...], ...]}
  clients : [[call, ...], ...]   call = ['submit', handle, fn] | ['result', h] | ['status', h] | ['cancel', h] | ['close']
                                        | ['settle']  (not a request: the client waits until nothing else in the system can move)
                                        | ['when', kind]  (waits until a message of that kind is on its way to the server)
  sched   : ['random', seed] | ['pct', seed, depth] | ['delay', seed, rate, maxlen, [preferred sleepers]]
            | ['race', seed, early, late] | ['replay', picks, choices]
  lines   : bool    line-level interleaving inside the worker's critical functions
  crash   : null | [node, k]   kill `node` k scheduler steps after the first client submit
  crash2  : null | [node, k]   second crash, k steps after the first
  probe   : bool   (detached only) a fresh client does submit+result after the scripts
"""
from __future__ import annotations

import collections
import re
import uuid

from harness import rtprog, sim

LINE_FUNCS = ('_process_await', '_handle_result', '_get_next_ready_task', '_handle_cancel',
              '_process_task_completion', 'cancel', '_get_desired_result', 'recv_incoming', '_add_task')


class DelaySched:
    """Random scheduling with *delays*: now and then an enabled thread is put to sleep for a random number of steps
    (as long as something else can run).  A thread that is descheduled at one point for a long stretch is what the OS
    does to a pre-empted thread; uniform random choice practically never produces it (the other thread would have to
    win dozens of coin flips in a row).  Threads parked at a source-line scheduling point are preferred as sleepers:
    those are the windows line-level mode exists for."""

    def __init__(self, seed, rate=0.04, maxlen=120, prefer=()):
        import random as _random
        self.rng = _random.Random(seed)
        self.rate = rate
        self.maxlen = maxlen
        self.prefer = tuple(prefer)      # substrings of thread names that are put to sleep more readily (a busy server, ...)
        self.asleep = {}          # thread name -> step at which it wakes

    def pick_thread(self, en, k):
        now = k.steps
        for n in [n for n, t in self.asleep.items() if t <= now]:
            del self.asleep[n]
        if len(en) > 1 and self.rng.random() < self.rate:
            w = [(3 if (t.why and t.why[0] == 'line') else 1) * (6 if any(p in t.name for p in self.prefer) else 1) for t in en]
            t = self.rng.choices(en, weights=w)[0]
            self.asleep[t.name] = now + self.rng.randint(8, self.maxlen)
        cand = [i for i, t in enumerate(en) if t.name not in self.asleep]
        if not cand:
            self.asleep.clear()
            cand = list(range(len(en)))
        return cand[self.rng.randrange(len(cand))]

    def pick(self, n, kind, k):
        return self.rng.randrange(n)


def _describe(conn, name, obj):
    """The messages a race scheduler can steer."""
    try:
        if name == 'RESULT' and obj[1].return_address.worker_id == -1:
            return 'root-result'
        if name == 'ERROR' and isinstance(obj[1], tuple):
            return 'task-error'
        if name == 'CANCEL' and str(conn.owner).startswith('client'):
            return 'client-cancel'
        if name == 'CANCEL' and str(conn.peer).startswith('w'):
            return 'cancel-down'
    except Exception:
        pass
    return ''


class RaceSched:
    """Random scheduling that steers ONE message race: wherever a message of kind `late` is on its way to a node, that
    node's main thread is held back (as long as anything else can run) until a message of kind `early` is on its way to the
    same node too; a select() that can choose then reads the connection carrying `early` first.  Every such order is
    realisable in the real system by timing (a busy server reads its sockets late and in any order); uniform random
    scheduling reaches it rarely because the reader would have to lose dozens of coin flips in a row.
    Kinds: 'root-result' (RESULT of a compilation's root task), 'task-error' (ERROR of a task), 'client-cancel' (a client's
    CANCEL on its way to the server), 'cancel-down' (a CANCEL on its way to a worker); early = 'none' just holds the reader's
    main thread back while `late` is on its way (e.g. ['race', seed, 'none', 'cancel-down']: a worker's main thread does not
    look at its ready queue while a CANCEL is travelling to that worker, so tasks woken meanwhile are still queued when the
    CANCEL is handled)."""

    def __init__(self, seed, early, late):
        import random as _random
        self.rng = _random.Random(seed)
        self.early, self.late = early, late
        self.inflight = {}        # id(channel) -> [reader node, deque of kinds]; shared with (and kept by) the Run
        self.steered = 0

    def pick_thread(self, en, k):
        held = set()
        for reader, dq in self.inflight.values():
            if self.late in dq and not any(self.early in d2 for r2, d2 in self.inflight.values() if r2 == reader):
                held.add(reader + '.main')
        cand = [i for i, t in enumerate(en) if t.name not in held] or list(range(len(en)))
        return cand[self.rng.randrange(len(cand))]

    def pick(self, n, kind, k):
        if kind == 'select':
            try:
                me = k.me()
                srv = sim.CUR.servers.get(me.node)
                ready = sorted(srv.sel._ready(), key=lambda key: key.fileobj.name)
                if len(ready) == n:
                    def kinds(key):
                        ent = self.inflight.get(id(getattr(key.fileobj, 'rx', None)))
                        return list(ent[1]) if ent else []
                    good = [i for i, key in enumerate(ready) if self.early in kinds(key)
                            and (self.late not in kinds(key) or kinds(key).index(self.early) < kinds(key).index(self.late))]
                    if good and any(self.late in kinds(key) for key in ready):
                        self.steered += 1
                        return good[0]
                    calm = [i for i, key in enumerate(ready) if self.late not in kinds(key)[:1]]
                    if calm and len(calm) < n and any(self.early in d for _, d in self.inflight.values()):
                        return calm[self.rng.randrange(len(calm))]
            except Exception:
                pass
        return self.rng.randrange(n)


def make_sched(spec):
    kind = spec[0]
    if kind == 'random':
        return sim.RecordingSched(sim.RandomSched(spec[1]))
    if kind == 'pct':
        return sim.RecordingSched(sim.PCTSched(spec[1], spec[2] if len(spec) > 2 else 3))
    if kind == 'delay':
        return sim.RecordingSched(DelaySched(spec[1], spec[2] if len(spec) > 2 else 0.04, spec[3] if len(spec) > 3 else 120,
                                             spec[4] if len(spec) > 4 else ()))
    if kind == 'race':
        return sim.RecordingSched(RaceSched(spec[1], spec[2], spec[3]))
    if kind == 'replay':
        return sim.RecordingSched(sim.ReplaySched(spec[1], spec[2]))
    raise ValueError(kind)


def static_ids(sc):
    """Compilation ids in (client, position) order; handle -> cid; cowner; croot (after preregistration)."""
    handles = {}
    cowner = []
    cfn = []
    for ci, script in enumerate(sc['clients']):
        for call in script:
            if call[0] == 'submit':
                cid = len(cowner) + 1
                handles[call[1]] = cid
                cowner.append(ci + 1)
                cfn.append(call[2])
    probe_cid = None
    if sc.get('probe'):
        probe_cid = len(cowner) + 1
        cowner.append(len(sc['clients']) + 1)
        cfn.append('__probe')
    return handles, cowner, cfn, probe_cid


def classify_error(e):
    cause = e.__cause__
    text = str(e) + ' ' + (str(cause) if cause is not None else '')
    booms = [int(x) for x in re.findall(r'boom-(\d+)', text)]
    if booms:
        return 'task', sorted(set(booms)), text
    if 'Cannot await on a canceled task' in text:
        return 'await-cancelled', [], text
    if 'Unknown task' in text:
        return 'unknown-task', [], text
    if cause is None or isinstance(cause, (EOFError, OSError)):
        return 'closed', [], text
    return 'other', [], text


def _task_id_of(task):
    """RuntimeTask -> L1 task id (0 if unknown)."""
    try:
        fn, args, _ = task.fnargs
        if getattr(fn, '__name__', '') == 'body':
            return rtprog.IDS.get(args[1], 0)
        ct = args[0]
        p = ct.workflow._passes[0] if hasattr(ct.workflow, '_passes') else list(ct.workflow)[0]
        return rtprog.IDS.get((p.cid, 'root'), 0)
    except Exception:
        return 0


def _addr_key(a):
    return (int(a.worker_id), int(a.mailbox_index), int(a.mailbox_slot))


def _raise_precedes_cancellation(k):
    """Statistics only (the verdict is L1's): was task k, when its body raised, not yet cancelled work by the events logged
    so far - no explicit cancel of, and no returned owner leaving unconsumed, a future that k or an ancestor hangs on?"""
    anc = set()
    a = k
    while a:
        anc.add(a)
        a = rtprog.PARENT.get(a, 0)
    owner, kids, consumed, dead = {}, {}, set(), set()
    for e in rtprog.LOG:
        n = e['e']
        if n == 'TaskRaise' and e['t'] == k:
            break
        if n == 'Submit':
            owner[e['f']] = e['t']
            kids[e['f']] = set(e['kids'])
        elif n == 'AwaitReturn':
            consumed.add(e['f'])
        elif n == 'Cancel':
            dead.add(e['f'])
        elif n == 'TaskEnd':
            dead.update(f for f, o in owner.items() if o == e['t'] and f not in consumed)
        elif n == 'ClientCall' and e['call'] in ('cancel', 'close'):
            return False          # (coarse: any client cancel / close before the raise disqualifies)
    return not any(kids[f] & anc for f in dead)


class Run:
    def __init__(self, sc):
        self.sc = sc
        self.sched = make_sched(sc['sched'])
        self.net = sim.Net(self.sched)
        self.k = self.net.k
        self.notes = []
        self.uuid2cid = {}
        self.cid2uuid = {}
        self.pending = {}          # client index -> pending call or None
        self.at_gate = set()
        self.gate_open = False
        self.first_submit_step = None
        self.crashed = []
        progs = dict(sc['progs'])
        progs['__probe'] = [['ret']]
        rtprog.reset({k: [tuple(i) for i in v] for k, v in progs.items()})
        self.handles, self.cowner, self.cfn, self.probe_cid = static_ids(sc)
        self.croot = [rtprog.preregister(c + 1, fn) for c, fn in enumerate(self.cfn)]
        self.futkids = {}
        self.stats = {}            # how often the situations the scenario families aim at were reached (diagnostics only)
        self.mb2uuid = {}          # server mailbox id -> uuid of its compilation, recorded when the row was first seen
        self.k.releases = []       # (thread name, step, lock) of every SimLock.release (filled by sim.SimLock if it has the hook)
        if sc.get('lines'):
            self.k.keep_trace = True
            import bqskit.runtime.worker as W
            for n in LINE_FUNCS:
                f = getattr(W.Worker, n, None)
                if f is not None:
                    self.k.trace_lines(f)
        self.net.send_hooks.append(self._on_send)
        self.inflight = {}         # id(channel) -> [reader node, deque of message kinds (see _describe) still in the channel]
        self.addr2id = {}          # (worker id, mailbox, slot) of a task's return address -> L1 task id, learnt when it is forwarded
        self.cseen = set()         # (worker id, task id): that worker has received the CANCEL for that task
        self.net.send_hooks.append(self._track_send)
        self.net.recv_hooks.append(self._track_recv)
        inner = getattr(self.sched, 'inner', None)
        if isinstance(inner, RaceSched):
            inner.inflight = self.inflight
        self.sd_logged = set()
        self.net.exit_hooks.append(self._on_exit)
        self._wrap_servers()

    # ---- observers
    def _track_send(self, conn, tag, obj):
        ent = self.inflight.setdefault(id(conn.tx), [str(conn.peer), collections.deque()])
        ent[0] = str(conn.peer)
        ent[1].append(_describe(conn, getattr(tag, 'name', ''), obj))

    def _track_recv(self, conn, tag, obj):
        ent = self.inflight.get(id(conn.rx))
        if ent and ent[1]:
            ent[1].popleft()
        # a worker receives a CANCEL: its incoming thread handles messages one after the other, so every task handed to this
        # worker from now on arrives after the cancellation is known there (L1 clause cancelled-task-started-after-...)
        if getattr(tag, 'name', '') == 'CANCEL' and isinstance(conn.owner, str) and conn.owner.startswith('w'):
            try:
                i = self.addr2id.get(_addr_key(obj[1]), 0)
                if i:
                    rtprog.ev('CancelSeen', t=i, w=int(conn.owner[1:]))
                    self.cseen.add((int(conn.owner[1:]), i))
            except Exception:
                pass

    def _on_its_way(self, kind, reader='server'):
        return any(r == reader and kind in dq for r, dq in self.inflight.values())

    def _on_send(self, conn, tag, obj):
        name = getattr(tag, 'name', '')
        if name in ('SUBMIT', 'SUBMIT_BATCH') and isinstance(conn.peer, str) and conn.peer.startswith('w') \
                and not str(conn.owner).startswith('w'):
            tasks = obj[1] if name == 'SUBMIT_BATCH' else [obj[1]]
            try:
                wid = int(conn.peer[1:])
            except ValueError:
                wid = -1
            for t in tasks:
                i = _task_id_of(t)
                if i:
                    rtprog.ev('Forward', t=i, w=wid)
                    self.addr2id[_addr_key(t.return_address)] = i
                    a = i
                    while a:
                        if (wid, a) in self.cseen:
                            # handed to a worker that has already received the CANCEL of this task or of an ancestor
                            self.stats['forward_after_cancel_seen'] = self.stats.get('forward_after_cancel_seen', 0) + 1
                            break
                        a = rtprog.PARENT.get(a, 0)
        elif name in ('RESULT', 'UPDATE') and isinstance(conn.owner, str) and conn.owner.startswith('w'):
            # a worker tells its boss that a task it was given is finished (RESULT for a task whose parent lives elsewhere,
            # UPDATE -1 for one whose parent lives on the same worker): the counterpart of Forward for the C15 bookkeeping
            try:
                w = self.net.workers.get(conn.owner)
                act = getattr(w, '_active_task', None)
                if act is not None and (name == 'RESULT' or obj[1] == -1):
                    i = _task_id_of(act)
                    if i:
                        rtprog.ev('Report', t=i, w=int(conn.owner[1:]))
            except Exception as e:                  # projection only: never let an observer break the run
                self.note('UNOBSERVABLE clause=idle-belief-at-quiescence:task-count (%s)' % e)

    def _on_exit(self, node, how):
        if node in self.sd_logged and how == 'exit':
            return                       # a boss already reported at the start of its handle_shutdown
        self.sd_logged.add(node)
        rtprog.ev('NodeExit', node=node, how=how)

    def _wrap_servers(self):
        import bqskit.runtime.base as B
        run = self
        if getattr(B.ServerBase, '_verif_wrapped', False):
            B.ServerBase._verif_run = run
            return
        B.ServerBase._verif_wrapped = True
        B.ServerBase._verif_run = run
        orig_run = B.ServerBase.run

        def wrapped_run(self_):
            hm = self_.handle_message
            node = sim.CUR.node()

            def handle_message(msg, direction, conn, payload):
                r = B.ServerBase._verif_run
                r._before_message(self_, node, msg, direction, payload)
                try:
                    return hm(msg, direction, conn, payload)
                finally:
                    r._boss_state(self_, node)
            self_.handle_message = handle_message
            return orig_run(self_)
        B.ServerBase.run = wrapped_run
        # a boss "stops" (for Shutdown.tla) when it STARTS handle_shutdown: that is when its employees are told;
        # its process ends only after it has waited for them
        import bqskit.runtime.detached as D
        import bqskit.runtime.manager as Mg
        for cls in (D.DetachedServer, Mg.Manager, B.ServerBase):
            orig_sd = cls.handle_shutdown

            def wrapped_sd(self_, _orig=orig_sd):
                node = sim.CUR.node()
                r = B.ServerBase._verif_run
                if node not in r.sd_logged and node not in sim.CUR.dead and node in sim.CUR.servers and sim.CUR.servers[node] is self_:
                    r.sd_logged.add(node)
                    rtprog.ev('NodeExit', node=node, how='exit')
                return _orig(self_)
            cls.handle_shutdown = wrapped_sd

    def _before_message(self, srv, node, msg, direction, payload):
        """Harness-side records (attribution of server table entries; statistics).  Never influences the run."""
        try:
            name = getattr(msg, 'name', '')
            dname = getattr(direction, 'name', '')
            if dname == 'CLIENT' and name == 'SUBMIT':
                wf = payload.workflow
                p0 = wf._passes[0] if hasattr(wf, '_passes') else list(wf)[0]
                self.uuid2cid.setdefault(payload.task_id, p0.cid)
            elif dname == 'BELOW' and name == 'ERROR' and isinstance(payload, tuple) and hasattr(srv, 'mailboxes'):
                mb = payload[0]
                if mb in srv.mailbox_to_task_dict and mb not in srv.mailboxes:
                    self.stats['error_after_delivered_result'] = self.stats.get('error_after_delivered_result', 0) + 1
                    booms = [int(x) for x in re.findall(r'boom-(\d+)', str(payload[1]))]
                    if booms and _raise_precedes_cancellation(booms[-1]):
                        # ... and L1 will demand this error (the raise precedes, in the trace, everything that cancels the task)
                        self.stats['due_error_after_delivered_result'] = self.stats.get('due_error_after_delivered_result', 0) + 1
                elif mb in srv.mailbox_to_task_dict:
                    self.stats['error_before_result'] = self.stats.get('error_before_result', 0) + 1
            elif dname == 'BELOW' and name == 'RESULT' and hasattr(srv, 'mailboxes') and payload.return_address.worker_id == -1:
                if payload.return_address.mailbox_index not in srv.mailboxes:
                    self.stats['root_result_after_cancel'] = self.stats.get('root_result_after_cancel', 0) + 1
        except Exception:
            pass

    def _boss_state(self, srv, node):
        try:
            if hasattr(srv, 'tasks'):
                for u, (mb, _) in list(srv.tasks.items()):
                    self.mb2uuid.setdefault(mb, u)
        except Exception:
            pass
        try:
            emps = [[int(e.num_tasks), int(e.num_idle_workers), int(e.total_workers)] for e in srv.employees]
            rtprog.ev('BossState', node=node, total=int(srv.total_workers), idle=int(srv.num_idle_workers), emps=emps)
        except AttributeError as e:
            self.note('UNOBSERVABLE clause=counter-out-of-bounds (%s)' % e)

    def note(self, s):
        if s not in self.notes:
            self.notes.append(s)

    # ---- topology
    def spawn_topology(self):
        import bqskit.runtime.attached as A
        import bqskit.runtime.detached as D
        import bqskit.runtime.manager as Mg
        topo = self.sc['topo']
        if topo[0] == 'attached':
            n = topo[1]
            self.net.spawn_process('server', lambda: A.start_attached_server(n, port=7472, worker_port=7474))
        else:
            sizes = topo[1]

            def manager(i, nw):
                m = Mg.Manager(port=8000 + i, num_workers=nw, worker_port=9000 + i)
                m.run()

            def server():
                s = D.DetachedServer([('sim', 8000 + i) for i in range(len(sizes))], port=7472)
                s.run()
            for i, nw in enumerate(sizes):
                self.net.spawn_process('man%d' % i, manager, (i, nw))
            self.net.spawn_process('server', server)

    # ---- clients
    def client(self, ci, script, is_probe=False):
        import bqskit.compiler.compiler as C
        from bqskit.ir.circuit import Circuit
        c = ci + 1
        comp = None
        alive = True

        def call(name, cid, fn):
            nonlocal alive
            self.pending[ci] = (name, cid)
            rtprog.ev('ClientCall', c=c, call=name, cid=cid)
            try:
                kind, extra = fn()
                rtprog.ev('ClientReturn', c=c, call=name, cid=cid, kind=kind, **extra)
            except Exception as e:
                cause, booms, text = classify_error(e)
                rtprog.ev('ClientReturn', c=c, call=name, cid=cid, kind='error', cause=cause, boom=booms, text=text[-400:])
                alive = False
            self.pending[ci] = None
        try:
            comp = C.Compiler(ip='sim', port=7472)
            if self.sc['topo'][0] == 'attached':
                comp.p = sim.FakePopen(self.net, 'server')     # an attached Compiler owns its server process
        except Exception as e:
            rtprog.ev('ClientCall', c=c, call='connect', cid=0)
            cause, booms, text = classify_error(e)
            rtprog.ev('ClientReturn', c=c, call='connect', cid=0, kind='error', cause='closed', boom=[], text=text[-300:])
            alive = False
        closed = False
        for item in script:
            if not alive or comp is None or comp.conn is None:
                break
            op = item[0]
            if op == 'submit':
                cid = self.handles[item[1]] if not is_probe else self.probe_cid
                fnname = item[2]

                def do(cid=cid, fnname=fnname):
                    if self.first_submit_step is None:
                        self.first_submit_step = self.k.steps
                    u = comp.submit(Circuit(1), [rtprog.RootPass(fnname, cid)], request_data=True)
                    self.uuid2cid[u] = cid
                    self.cid2uuid[cid] = u
                    return 'ok', {}
                call('submit', cid, do)
            elif op in ('result', 'status', 'cancel'):
                cid = self.handles.get(item[1], 0) if not is_probe else self.probe_cid
                u = self.cid2uuid.get(cid)
                if u is None:
                    u = uuid.UUID(int=0xabc0000 + len(rtprog.LOG))
                    cid = 0

                def do(op=op, u=u):
                    if op == 'result':
                        r = comp.result(u)
                        v = r[1]['out'] if isinstance(r, tuple) else -1
                        return 'result', {'v': v}
                    if op == 'status':
                        return 'status', {'s': comp.status(u).name}
                    comp.cancel(u)
                    return 'ok', {}
                call(op, cid, do)
            elif op == 'close':
                closed = True
                call('close', 0, lambda: (comp.close(), ('ok', {}))[1])
            elif op == 'settle':
                # not a request: the client lets time pass until nothing else in the system can move (every message that
                # was on its way has arrived, every task that could run has run)
                self.k.wait_timeout(('settle', ci), lambda: False)
                rtprog.ev('Settle', c=c)
            elif op == 'when':
                # not a request either: the client acts at the moment a message of kind item[1] is on its way to the server
                # (e.g. ['when', 'root-result'], ['cancel', H]: cancel just as the compilation finishes); gives up when nothing
                # else can move
                self.k.wait_timeout(('when', ci), lambda kind=item[1]: self._on_its_way(kind))
        if not is_probe:
            self.at_gate.add(ci)
            self.k.yield_(('gate', ci), lambda: self.gate_open)
        if comp is not None and not closed and comp.conn is not None:
            call('close', 0, lambda: (comp.close(), ('ok', {}))[1])
        elif comp is not None:
            try:
                comp.close()
            except Exception:
                pass

    # ---- snapshot of every node's tables (projection; degrades to UNOBSERVABLE notes)
    def _cid_of_uuid(self, u):
        return self.uuid2cid.get(u, 0)

    def snapshot(self, final, settled, livelock=False):
        residue = []

        def add(tab, kind, i):
            if i:
                residue.append({'tab': tab, 'kind': kind, 'id': int(i)})

        def add_comp(tab, cid):
            # an entry that cannot be attributed to any compilation the harness knows of is reported as an orphan
            if cid:
                residue.append({'tab': tab, 'kind': 'comp', 'id': int(cid)})
            else:
                residue.append({'tab': tab, 'kind': 'orphan', 'id': 0})

        def gone(node):
            # a process that has exited (or was killed) holds nothing
            return node in self.net.dead or all(t.state == 'done' for t in self.k.threads if t.node == node)
        for node, w in ([] if livelock else list(self.net.workers.items())):
            if gone(node):
                continue
            try:
                for addr, task in list(w._tasks.items()):
                    add('worker.tasks', 'task', _task_id_of(task))
                for task in list(w._delayed_tasks):
                    add('worker.delayed', 'task', _task_id_of(task))
                for mb in list(w._mailboxes.keys()):
                    add('worker.mailboxes', 'future', rtprog.FUTBOX.get((w._id, mb), 0))
            except AttributeError as e:
                self.note('UNOBSERVABLE clause=residue-of-cancelled-work (%s)' % e)
        srv = [0, 0, 0]
        emps = []
        top = self.net.servers.get('server')
        if top is not None and not livelock and not gone('server') and getattr(top, 'running', True):
            try:
                # EVERY entry of EVERY client-facing table is projected.  Mailbox ids are mapped back to compilations with
                # the record taken when the row was first seen (self.mb2uuid), so a mailbox whose task row is gone is still
                # attributed; what cannot be attributed at all is an "orphan".  L1 decides what is residue.
                for mb in list(top.mailboxes.keys()):
                    add_comp('server.mailboxes', self._cid_of_uuid(self.mb2uuid.get(mb)))
                for conn, us in list(top.clients.items()):
                    for u in us:
                        add_comp('server.clients', self._cid_of_uuid(u))
                    peer = str(getattr(conn, 'peer', ''))
                    if peer.startswith('client') and peer[6:].isdigit():
                        add('server.clients.conn', 'client', int(peer[6:]) + 1)
                # rows of tasks / mailbox_to_task_dict are kept for delivered results on purpose (late log messages) while
                # the client is connected; L1 counts them as residue for cancelled compilations and disconnected clients
                for u in list(top.tasks.keys()):
                    add_comp('server.tasks', self._cid_of_uuid(u))
                for mb, u in list(top.mailbox_to_task_dict.items()):
                    add_comp('server.mailbox_to_task_dict', self._cid_of_uuid(u) or self._cid_of_uuid(self.mb2uuid.get(mb)))
            except AttributeError as e:
                self.note('UNOBSERVABLE clause=residue-of-cancelled-work (%s)' % e)
            try:
                if top.running and top.employees:
                    srv = [int(top.total_workers), int(top.num_idle_workers), int(sum(e.num_tasks for e in top.employees))]
                    emps = [[int(e.num_tasks), int(e.num_idle_workers), int(e.total_workers)] for e in top.employees]
            except AttributeError as e:
                self.note('UNOBSERVABLE clause=idle-belief-at-quiescence (%s)' % e)
        blocked = sorted(ci + 1 for ci, p in self.pending.items() if p is not None)
        alive = sorted({t.node for t in self.k.threads
                        if t.state != 'done' and t.node and not t.node.startswith('client') and t.node != 'probe'})
        rtprog.ev('Quiescent', blocked=blocked, alive=alive, residue=residue, srv=srv, emps=emps, final=final, settled=settled,
                  how='livelock' if livelock else '')

    # ---- the run
    def _stuck(self, status):
        """The step bound was reached: the system never fell idle.  That is not a harness failure but a (bounded-fairness)
        liveness observation: the trace ends with an idle-like snapshot marked how='livelock' and L1 judges it."""
        self.snapshot(final=True, settled=False, livelock=True)
        return self.finish(status)

    def _run(self, max_steps, until=None):
        """k.run, but a run in which nothing observable happens for `quiet_steps` consecutive scheduler steps (no event logged:
        no task or client event, no message handled by a boss) is cut short as 'maxsteps': it spins without making progress."""
        def stop():
            n = len(rtprog.LOG)
            if n != self._last_n:
                self._last_n, self._last_step = n, self.k.steps
            q = self.k.steps - self._last_step
            if q > self.max_quiet:
                self.max_quiet = q
            if q > self.quiet_steps:
                self._spinning = True
                return True
            return until is not None and until()
        status = self.k.run(max_steps, until=stop)
        if status == 'until' and self._spinning:
            return 'maxsteps'
        return status

    def go(self, max_steps=400000, quiet_steps=10 ** 9):
        sc = self.sc
        self.quiet_steps = quiet_steps
        self._last_n, self._last_step, self.max_quiet, self._spinning = 0, 0, 0, False
        self.spawn_topology()
        for ci, script in enumerate(sc['clients']):
            self.pending[ci] = None
            self.k.spawn('client%d.main' % ci, self.client, (ci, script), node='client%d' % ci)
        crashes = [c for c in (sc.get('crash'), sc.get('crash2')) if c]
        status = None
        base = None
        for node, kk in crashes:
            def until(kk=kk):
                b = self.first_submit_step if base is None else base
                return b is not None and self.k.steps >= b + kk
            status = self._run(max_steps, until=until)
            if status != 'until':
                break
            if node not in self.net.dead and any(t.node == node and t.state != 'done' for t in self.k.threads):
                rtprog.ev('Crash', node=node)
                self.net.crash(node)
                self.crashed.append(node)
            base = self.k.steps
        status = self._run(max_steps)
        if status == 'maxsteps':
            return self._stuck(status)
        settled = all(ci in self.at_gate for ci in range(len(sc['clients'])))
        self.snapshot(final=False, settled=settled and status == 'quiescent')
        self._window_stats()
        if sc.get('probe') and status == 'quiescent':
            pi = len(sc['clients'])
            self.pending[pi] = None
            n0 = len(rtprog.LOG)
            self.k.spawn('probe.main', self.client, (pi, [['submit', '__p', '__probe'], ['result', '__p']], True), node='probe')
            status = self._run(max_steps)
            rets = [e for e in rtprog.LOG[n0:] if e['e'] == 'ClientReturn' and e['call'] == 'result']
            ok = bool(rets) and rets[0]['kind'] == 'result' and self.pending[pi] is None
            # the probe's own events are not part of the judged trace (its only verdict is Probe.ok)
            del rtprog.LOG[n0:]
            self.pending.pop(pi, None)
            rtprog.ev('Probe', ok=ok)
            if status == 'maxsteps':
                return self._stuck(status)
        self.gate_open = True
        status = self._run(max_steps)
        if status == 'maxsteps':
            return self._stuck(status)
        self.snapshot(final=True, settled=False)
        return self.finish(status)

    def _window_stats(self):
        """Line-level mode: how often did a worker's main thread run (and how often did it even report WAITING) while its
        incoming thread was parked right behind a release of read_receipt_mutex - the window in which a read receipt stored
        outside the lock would be stale.  Statistics only."""
        if not self.k.keep_trace or not getattr(self.k, 'releases', None):
            return
        tr = self.k.trace
        rr = {}
        for node, w in self.net.workers.items():
            rr[id(getattr(w, 'read_receipt_mutex', None))] = node
        nwin = nran = nwait = 0
        for name, step, lock in self.k.releases:
            node = rr.get(id(lock))
            if node is None or 'recv_incoming' not in name:
                continue
            nwin += 1
            ran = waited = False
            # trace[i] = (thread, why) of step i+1; the release happened during step `step`
            for i in range(step, len(tr)):
                tn, why = tr[i]
                if tn == name:
                    break
                if tn == node + '.main':
                    ran = True
                    if why and why[0] == 'send' and why[-1] == 'WAITING':
                        waited = True
            nran += ran
            nwait += waited
        self.stats['receipt_windows'] = nwin
        self.stats['receipt_window_main_ran'] = nran
        self.stats['receipt_window_main_went_idle'] = nwait

    def _late_start_stats(self):
        """Statistics only: tasks handed to a worker that had already seen the CANCEL of an ancestor - and how many of them started."""
        seen, late, started = set(), set(), 0
        for e in rtprog.LOG:
            if e['e'] == 'CancelSeen':
                seen.add((e['w'], e['t']))
            elif e['e'] == 'Forward':
                a = e['t']
                while a:
                    if (e['w'], a) in seen:
                        late.add(e['t'])
                        break
                    a = rtprog.PARENT.get(a, 0)
            elif e['e'] == 'TaskStart' and e['t'] in late:
                started += 1
        if started:
            self.stats['late_forwarded_task_started'] = started

    def finish(self, status):
        self._late_start_stats()
        evs = []
        defaults = {'t': 0, 'f': 0, 'v': [], 'kids': [], 'w': 0, 'c': 0, 'call': '', 'cid': 0, 'kind': '', 's': '', 'cause': '',
                    'boom': [], 'text': '', 'node': '', 'total': 0, 'idle': 0, 'emps': [], 'blocked': [], 'alive': [],
                    'residue': [], 'srv': [0, 0, 0], 'final': False, 'settled': False, 'ok': False, 'how': ''}
        for e in rtprog.LOG:
            d = dict(defaults)
            d.update(e)
            if d['e'] == 'ClientReturn' and d['kind'] == 'result' and not isinstance(d['v'], int):
                d['v'] = -1
            evs.append(d)
        nt = max(len(rtprog.IDS), 1)
        trace = {
            'nt': nt, 'nf': max(len(rtprog.FUTS), 1), 'nc': max(len(self.cowner), 1),
            'ncl': len(self.sc['clients']) + (1 if self.sc.get('probe') else 0),
            'parent': [rtprog.PARENT.get(i, 0) for i in range(1, nt + 1)],
            'tcomp': [rtprog.TCOMP.get(i, 1) for i in range(1, nt + 1)],
            'croot': self.croot or [1], 'cowner': self.cowner or [1],
            'flat': self.sc['topo'][0] == 'attached',
            'ev': evs,
        }
        diag = {
            'status': status, 'steps': self.k.steps,
            'thread_errors': [(t.name, repr(t.exc)[:300]) for t in self.k.threads if t.exc is not None],
            'blocked_threads': [(t.name, str(t.why)) for t in self.k.threads if t.state != 'done'][:30],
            'picks': self.sched.picks, 'choices': [list(c) for c in self.k.choices],
            'crashed': self.crashed, 'notes': self.notes, 'stats': self.stats, 'max_quiet_steps': getattr(self, 'max_quiet', 0),
        }
        return trace, diag


def run_scenario(sc, max_steps=400000, quiet_steps=10 ** 9):
    r = Run(sc)
    return r.go(max_steps, quiet_steps)
