#!/bin/sh
# Offline set-up: nothing is compiled; syntax-check every TLA+ module with SANY and byte-compile the harness.
cd "$(dirname "$0")" || exit 2
export PYTHONPATH="/verif${PYTHONPATH:+:$PYTHONPATH}"
/venv/bin/python - <<'PY'
import glob, os, sys
from harness import common
bad = 0
for spec in sorted(glob.glob(os.path.join(common.SPECS, '*', '*.tla'))):
    ok, out = common.sany(spec)
    print(('ok   ' if ok else 'FAIL ') + os.path.relpath(spec, common.VERIF))
    if not ok:
        print(out[-1500:]); bad += 1
import compileall
if not compileall.compile_dir(os.path.join(common.VERIF, 'harness'), quiet=1):
    bad += 1
sys.exit(1 if bad else 0)
PY
