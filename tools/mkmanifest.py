#!/venv/bin/python
"""Regenerate MANIFEST.json from the table below and validate it against the schema."""
import json
import os
import subprocess

V = os.path.dirname(os.path.dirname(os.path.abspath(__file__)))

import importlib
import sys
sys.path.insert(0, V)


# checks that have been integrated and verified to exit 0 on the unchanged tree (others stay not_applicable until they are)
READY = set(open(os.path.join(V, 'tools', 'ready.txt')).read().split())


def claimed():
    """Every READY harness/checks/cNN.py that defines MANIFEST_ENTRY = dict(engine, technique, text, note, ref) is claimed."""
    out = {}
    for i in range(1, 21):
        pid = 'C%02d' % i
        path = os.path.join(V, 'harness', 'checks', 'c%02d.py' % i)
        if not os.path.exists(path) or pid not in READY:
            continue
        mod = importlib.import_module('harness.checks.c%02d' % i)
        e = getattr(mod, 'MANIFEST_ENTRY', None)
        if e:
            out[pid] = (e['engine'], e['technique'], e['text'], e['note'], e['ref'], getattr(mod, 'LEVEL', 'model_checking'))
    return out


NOT_APPLICABLE = {}

PENDING = 'check not built yet in this round (see DESIGN.md section 7 build order); will be claimed when its TLA+ specification and conformance harness exist'


def main():
    props = [json.loads(l) for l in open(os.path.join(V, 'properties.jsonl'))]
    hooks_commits = []
    try:
        log = subprocess.run(['git', '-C', '/repo', 'log', '--format=%h %s'], capture_output=True, text=True).stdout
        hooks_commits = [l.split()[0] for l in log.splitlines() if l.split(' ', 1)[1].startswith('verif-hook:')]
    except Exception:
        pass
    checks = []
    na = []
    CLAIMED = claimed()
    for p in props:
        pid = p['id']
        if pid in CLAIMED:
            eng, tech, text, note, ref, level = CLAIMED[pid]
            checks.append({
                'property_id': pid,
                'quick_cmd': './check %s --tier quick' % pid,
                'thorough_cmd': './check %s --tier thorough' % pid,
                'evidence_file': 'evidence/%s.json' % pid,
                'replay_cmd_template': './check %s --replay {path}' % pid,
                'engine': eng,
                'level_claimed': {'category': level, 'text': text, 'design_ref': ref},
                'level_note': note,
                'technique': tech,
            })
        else:
            na.append({'property_id': pid, 'reason': NOT_APPLICABLE.get(pid, PENDING)})
    engines = {}
    for c in checks:
        engines.setdefault(c['engine'], []).append(c['property_id'])
    m = {
        'version': 1,
        'setup_cmd': './setup.sh',
        'hooks': {
            'guard': 'BQSKIT_VERIF',
            'enable': 'checks import /repo\'s working tree directly (PYTHONPATH) with BQSKIT_VERIF=1 in the environment; nothing is built',
            'baseline_off_cmd': 'cd /repo && env -u BQSKIT_VERIF /venv/bin/python -m pytest -ra -q -p no:cacheprovider --timeout=900 --continue-on-collection-errors',
            'source_commits': hooks_commits,
            'add_only': True,
        },
        'engines': [{'name': k, 'path': 'specs/%s' % k, 'serves_properties': v,
                     'kind_free_text': 'TLA+ specification checked with TLC; bound to the code by harness/checks/*.py'} for k, v in sorted(engines.items())],
        'checks': checks,
        'not_applicable': na,
        'notes': 'Model-based verification with explicit TLA+ specifications (see DESIGN.md). Exit 0 = held, 1 = VIOLATION line, 2 = machinery failure.',
    }
    with open(os.path.join(V, 'MANIFEST.json'), 'w') as f:
        json.dump(m, f, indent=1)
    import jsonschema
    jsonschema.validate(m, json.load(open('/root/.vp/MANIFEST.schema.json')))
    print('MANIFEST.json ok: %d checks, %d not_applicable' % (len(checks), len(na)))


if __name__ == '__main__':
    main()
