#!/venv/bin/python
"""Print the markdown table of seeded changes (seeded/*/meta.json) for DESIGN.md."""
import glob
import json
import os

V = os.path.dirname(os.path.dirname(os.path.abspath(__file__)))
rows = []
for p in sorted(glob.glob(os.path.join(V, 'seeded', '*', 'meta.json'))):
    m = json.load(open(p))
    det = []
    for chk, d in m['detected_by'].items():
        if 'after_strengthening' in d:
            a = d['after_strengthening']
            det.append('%s: first run %s; after strengthening **%s** `%s`' % (chk, d.get('first_run', 'MISSED').split(' (')[0], a.get('result', ''), a.get('clause', '')))
        else:
            det.append('%s: **%s** %s' % (chk, d.get('result', '').split(' (')[0], ('`%s`' % d['clause']) if d.get('clause') else ''))
    rows.append('| `%s` | %s | %s | %s |' % (m['id'], m['breaks_property'], m['needs_to_manifest'].replace('|', '/'), '; '.join(det)))
print('| seeded change | property | needs, in order to manifest | checks |')
print('|---|---|---|---|')
print('\n'.join(rows))
