#!/venv/bin/python
"""Register a confirmed seeded change:  tools/add_seeded.py <id> <property> <srcdir> '<needs>' '<caught_by json>' ['<ran>']
Copies patch.diff, demo.py (and notes.md) from <srcdir> to seeded/<id>/ and writes meta.json."""
import json
import os
import shutil
import sys

V = os.path.dirname(os.path.dirname(os.path.abspath(__file__)))
sid, prop, src, needs, caught = sys.argv[1:6]
ran = sys.argv[6] if len(sys.argv) > 6 else ''
d = os.path.join(V, 'seeded', sid)
os.makedirs(d, exist_ok=True)
for f in ('patch.diff', 'demo.py', 'notes.md'):
    if os.path.exists(os.path.join(src, f)):
        shutil.copy(os.path.join(src, f), os.path.join(d, f))
meta = {
    'id': sid, 'breaks_property': prop, 'needs_to_manifest': needs,
    'confirmed': 'demo.py exits 0 on the unchanged tree and non-zero with patch.diff applied (tools/try_seeded.sh, scratch worktree of /repo HEAD); '
                 'the sub-agent that wrote it ran the test subsets named in notes.md with and without the change',
    'what_i_ran': ran or 'tools/try_seeded.sh <scratch worktree> patch.diff demo.py "<checks>" <seed>',
    'detected_by': json.loads(caught),
}
with open(os.path.join(d, 'meta.json'), 'w') as f:
    json.dump(meta, f, indent=1)
print('seeded/%s written' % sid)
