#!/bin/sh
# developer tool: run the quick tier of the given checks under several seeds, print only verdict lines
# usage: tools/seed_sweep.sh "C07 C12" "2 3 4"
cd "$(dirname "$0")/.." || exit 2
for s in $2; do for p in $1; do
  VERIF_SEED=$s ./check $p 2>&1 | grep -E "^(VIOLATION|KNOWN-FINDING|MACHINERY|DRIFT|L2-COUNTER|C[0-9]+ (ok|FAIL))|clause=" | cut -c1-400 | sed "s/^/[seed $s] /"
done; done
