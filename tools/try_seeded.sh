#!/bin/sh
# Confirm a seeded change and run checks against it.
#   tools/try_seeded.sh <worktree> <cand.diff> <demo.py> "<props>" [seed]
# 1. demo on the clean worktree must pass  2. with the diff applied it must fail  3. each check is run with VERIF_REPO=<worktree>
wt=$1; diff=$2; demo=$3; props=$4; seed=${5:-0}
cd "$wt" || exit 2
git checkout -q -- . || exit 2
echo "== demo on clean tree"
( cd "$wt" && PYTHONPATH="$wt" timeout 900 /venv/bin/python "$demo" >/tmp/seeded_demo_clean.log 2>&1 ); echo "   exit=$?"
git apply "$diff" || { echo "diff does not apply"; exit 2; }
echo "== demo with the change"
( cd "$wt" && PYTHONPATH="$wt" timeout 900 /venv/bin/python "$demo" >/tmp/seeded_demo_mut.log 2>&1 ); echo "   exit=$?"
tail -3 /tmp/seeded_demo_mut.log | cut -c1-300
for p in $props; do
  echo "== check $p against the change (seed $seed)"
  ( cd /verif && VERIF_SEED=$seed VERIF_REPO="$wt" ./check $p 2>&1 | grep -E "^(VIOLATION|KNOWN-FINDING|MACHINERY|DRIFT|L2-COUNTER|C[0-9]+ (ok|FAIL))|clause=" | cut -c1-300 | head -12 )
done
cd "$wt" && git checkout -q -- .
