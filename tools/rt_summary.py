#!/venv/bin/python
"""Developer tool: run a runtime check's scenario family and print a histogram of L1 clauses (all owners)."""
import collections, json, logging, os, sys, tempfile
sys.path.insert(0, '/verif')
from harness import common
common.use_repo()
from harness import rtcheck
from harness.common import Ctx
import importlib
prop = sys.argv[1]; tier = sys.argv[2] if len(sys.argv) > 2 else 'quick'; limit = int(sys.argv[3]) if len(sys.argv) > 3 else None
mod = importlib.import_module('harness.checks.' + prop.lower())
scratch = tempfile.mkdtemp()
ctx = Ctx(prop, tier, int(os.environ.get('VERIF_SEED', 0)), scratch)
scs = mod.scenarios(ctx)
if limit: scs = scs[:limit]
res = rtcheck.run_scenarios(scs)
traces = [r[0] for r in res if r[0] is not None]
keep = [(s, r[1]) for s, r in zip(scs, res) if r[0] is not None]
print('scenarios', len(scs), 'ran', len(traces), 'errors', [r[2][-200:] for r in res if r[2]][:2])
v, s, t, _ = common.batch_validate(rtcheck.ABS, rtcheck.ABS_CFG, traces, scratch, chunk=1500, parallel=8)
c = collections.Counter(); ex = {}
for idx, step, clause, _ in v:
    f = rtcheck.features(keep[idx][0])
    k = (clause, 'cancel' if f['has_cancel'] else '', 'ccancel' if f['client_cancel'] else '', 'left' if f['leftover'] else '', 'raise' if f['has_raise'] else '', 'lines' if f['lines'] else '', f['topo'])
    c[k] += 1; ex.setdefault(k, (idx, step))
for k, n in sorted(c.items()): print(n, k)
if os.environ.get('SHOW'):
    for k, (idx, step) in ex.items():
        if os.environ['SHOW'] in k[0]:
            sc, dg = keep[idx]
            print('=====', k); print(json.dumps(sc)[:1500]); print({a: b for a, b in traces[idx]['ev'][step - 1].items() if b not in (0, [], '', False)})
            print('thread_errors', dg['thread_errors']); print('blocked', dg['blocked_threads'][:10])
            print([(e['e'], e['t'], e['f'], e['v'], e['call'], e['kind'], e['cause']) for e in traces[idx]['ev'] if e['e'] not in ('BossState', 'Forward')][-25:])
            print(traces[idx]['ev'][step-1].get('text', '')[-800:])
            break
