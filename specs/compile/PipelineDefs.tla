---------------------------- MODULE PipelineDefs ----------------------------
(* Definitions shared by Pipeline.tla (the state machine TLC model-checks) and PipelineTrace.tla (validation of recorded
   runs of the real compile()): program constructors, the transcription of bqskit/compiler/compile.py, abstract records,
   predicate semantics, per-pass contracts and the abstract image of Compat!Executable.  See Pipeline.tla. *)
EXTENDS Naturals, Sequences, FiniteSets, TLC, Json, IOUtils

\* ------------------------------------------------------------------ program constructors
P(n)           == [t |-> "pass", name |-> n]
If(p, a, b)    == [t |-> "if", pred |-> p, then |-> a, else |-> b]
While(p, a)    == [t |-> "while", pred |-> p, body |-> a]
ForEach(f, a)  == [t |-> "foreach", filter |-> f, body |-> a]
None           == <<>>

\* ------------------------------------------------------------------ compile.py, transcribed
QSearch == P("QSearchSynthesisPass")
LEAP    == P("LEAPSynthesisPass")
Scan    == <<P("ScanningGateRemovalPass")>>
\* build_standard_search_synthesis_workflow
Synth   == <<If("Width<3", <<QSearch>>, <<LEAP>>)>>
\* build_partitioning_workflow (error_threshold = None)
Partition(body) == <<P("QuickPartitioner"), P("ExtendBlockSizePass"), ForEach("less-than-respecting-multi", body), P("UnfoldPass")>>
\* build_multi_qudit_retarget_workflow
MQCore == <<P("FillSingleQuditGatesPass"),
            If("Not(MultiPhysical)",
               <<If("ManyQuditGates",
                    <<P("ExtractModelConnectivityPass")>> \o Synth \o <<P("RestoreModelConnectivityPass")>>,
                    <<P("AutoRebase2QuditGatePass")>>)>>,
               Scan)>>
MQRetarget == <<If("Not(Width<2)", <<P("LogPass")>> \o Partition(MQCore), None)>>
\* build_single_qudit_retarget_workflow
SQBody == <<If("Not(SinglePhysical)",
               <<If("HasGeneralSingleQuditGate", <<P("GeneralSQDecomposition")>>,
                    <<If("ZXGate", <<P("ZXZXZDecomposition")>>, <<QSearch>>)>>)>>,
               None)>>
SQRetarget ==
  <<If("Not(SinglePhysical)",
       <<P("LogPass"), P("UnfoldPass"), P("GroupSingleQuditGatePass"),
         If("AllConstantSingleQuditGates", <<P("LogPass")>>, None),
         If("NoSingleQuditGatesInModel",
            <<P("LogPass")>> \o Partition(Scan) \o <<If("Not(SinglePhysical)", <<P("LogPass")>>, None)>>,
            <<ForEach("always", SQBody)>>),
         P("UnfoldPass")>>,
       None)>>
\* build_sabre_mapping_workflow
Sabre == <<P("LogPass"), P("GreedyPlacementPass"), P("GeneralizedSabreLayoutPass"), P("GeneralizedSabreRoutingPass")>>
\* build_gate_deletion_optimization_workflow / build_resynthesis_optimization_workflow
GateDeletion(iter) == LET core == <<P("LogPass")>> \o Partition(Scan) IN IF iter THEN <<While("Change", core)>> ELSE core
Resynth(iter) == LET core == <<P("LogPass")>> \o Partition(<<If("Not(Width<2)", Synth, None)>>)
                 IN IF iter THEN <<While("GateCount", core)>> ELSE core
\* build_seqpam_mapping_optimization_workflow (error_sim_size = None)
PAMCache == ForEach("always", <<If("Width<4", <<P("EmbedAllPermutationsPass")>>, <<P("EmbedAllPermutationsPass")>>)>>)
SeqPAM == <<If("Not(Width<2)",
               <<P("LogPass"), P("ExtractModelConnectivityPass"), P("QuickPartitioner"), PAMCache,
                 P("LogPass"), P("PAMRoutingPass"), P("NOOPPass"), P("UnfoldPass"), P("RestoreModelConnectivityPass"),
                 P("LogPass"), P("SubtopologySelectionPass"), P("QuickPartitioner"), PAMCache,
                 P("LogPass"), P("ApplyPlacement"), P("PAMLayoutPass"), P("PAMRoutingPass"), P("NOOPPass"),
                 P("ApplyPlacement"), P("UnfoldPass")>>,
               None)>>
Opt(level) ==
  CASE level = 1 -> <<P("SetModelPass")>> \o MQRetarget \o Sabre \o MQRetarget \o SQRetarget
                    \o <<P("LogErrorPass"), P("ApplyPlacement")>>
    [] level = 2 -> <<P("SetModelPass")>> \o MQRetarget \o Sabre \o MQRetarget \o SQRetarget \o GateDeletion(FALSE)
                    \o <<P("LogErrorPass"), P("ApplyPlacement")>>
    [] level = 3 -> <<P("SetModelPass")>> \o MQRetarget \o Sabre \o MQRetarget \o Resynth(TRUE) \o SQRetarget
                    \o GateDeletion(TRUE) \o <<P("LogErrorPass"), P("ApplyPlacement")>>
    [] level = 4 -> <<P("SetModelPass")>> \o SeqPAM \o MQRetarget \o Resynth(TRUE) \o SQRetarget \o GateDeletion(TRUE)
                    \o <<P("LogErrorPass"), P("ApplyPlacement")>>
\* _circuit_workflow
CircuitProg(level) == <<P("UnfoldPass"), P("ExtractMeasurements")>> \o Opt(level) \o <<P("RestoreMeasurements")>>
\* _synthesis_workflow (n = width of the unitary): the target is placed on connected physical qudits before it is
\* synthesised and moved onto the machine at the end
UnitaryProg(level, n) ==
  LET synth == IF n = 1 THEN <<QSearch>> ELSE IF level < 4 THEN Synth ELSE <<P("PermutationAwareSynthesisPass")>>
  IN <<P("SetModelPass"), P("SetTargetPass"), P("GreedyPlacementPass")>> \o synth \o SQRetarget
     \o (IF level >= 2 THEN Scan ELSE <<P("NOOPPass")>>) \o <<P("ApplyPlacement")>>
\* _stateprep_workflow / _statemap_workflow
StateProg(level, n) ==
  LET synth == CASE level \in {1, 2} -> LEAP
                 [] level = 3 -> IF n > 3 THEN LEAP ELSE QSearch
                 [] level = 4 -> P("PermutationAwareSynthesisPass")
  IN <<P("SetModelPass"), P("SetTargetPass"), P("GreedyPlacementPass"), synth>> \o SQRetarget
     \o (IF level >= 2 THEN Scan ELSE <<P("NOOPPass")>>) \o <<P("ApplyPlacement")>>
Prog(kind, level, n) ==
  CASE kind = "circuit" -> CircuitProg(level)
    [] kind = "unitary" -> UnitaryProg(level, n)
    [] kind \in {"state", "system"} -> StateProg(level, n)

Kinds == {"circuit", "unitary", "state", "system"}
BuiltN(kind, n) == IF kind = "circuit" THEN 0 ELSE n
\* the programs extracted from the real build_workflow(): sequence of [kind, level, n, prog]
Built == JsonDeserialize(IOEnv.BUILT_FILE)
BuiltProg(kind, level, n) == Built[CHOOSE i \in 1..Len(Built) : Built[i].kind = kind /\ Built[i].level = level /\ Built[i].n = BuiltN(kind, n)].prog

\* ------------------------------------------------------------------ abstract records
Meas == {"none", "in", "stored"}
Records == [w : 1..3, fits : BOOLEAN, wide : BOOLEAN, mq : BOOLEAN, sq : BOOLEAN, coupled : BOOLEAN,
            folded : BOOLEAN, a2a : BOOLEAN, meas : Meas]
\* what a record of a real circuit always satisfies
Consistent(r) ==
  /\ (r.w = 1 => r.mq /\ ~r.wide /\ r.coupled)
  /\ (r.wide => r.w >= 3)
GateSets == [hasSQ : BOOLEAN, general : BOOLEAN, zx : BOOLEAN, allConst : BOOLEAN, swapNative : BOOLEAN]
GSConsistent(g) == (g.general => g.hasSQ /\ ~g.allConst) /\ (g.zx => g.hasSQ) /\ (~g.hasSQ => g.allConst)

\* ------------------------------------------------------------------ predicates (sets of possible truth values)
RECURSIVE PredVal(_, _, _)
PredVal(p, r, g) ==
  CASE p = "Width<2" -> {r.w < 2}
    [] p = "Width<3" -> {r.w < 3}
    [] p = "Width<4" -> IF r.w < 3 THEN {TRUE} ELSE BOOLEAN
    \* (a single-qudit CircuitGate is a non-native single-qudit gate for this predicate: undetermined while folded)
    [] p = "SinglePhysical" -> IF r.folded THEN {FALSE, r.sq} ELSE {r.sq}
    [] p = "NoSingleQuditGatesInModel" -> {~g.hasSQ}
    [] p = "AllConstantSingleQuditGates" -> {g.allConst}
    [] p = "HasGeneralSingleQuditGate" -> {g.general}
    [] p = "ZXGate" -> {g.zx}
    [] p \in {"Change", "GateCount"} -> BOOLEAN                          \* depend on the history of gate counts
    [] p = "Not(Width<2)" -> {~(r.w < 2)}
    [] p = "Not(SinglePhysical)" -> {~x : x \in PredVal("SinglePhysical", r, g)}
    [] OTHER -> BOOLEAN                                                  \* block-level predicates are not interpreted here

\* ------------------------------------------------------------------ contracts
RECURSIVE Leaves(_)
Leaves(prog) == UNION {IF prog[i].t = "pass" THEN {prog[i].name}
                       ELSE IF prog[i].t = "if" THEN Leaves(prog[i].then) \cup Leaves(prog[i].else)
                       ELSE Leaves(prog[i].body) : i \in 1..Len(prog)}
Role(node) ==
  LET L == Leaves(node.body) IN
  IF "AutoRebase2QuditGatePass" \in L /\ node.filter = "less-than-respecting-multi" THEN "mq"
  ELSE IF ("GeneralSQDecomposition" \in L \/ "ZXZXZDecomposition" \in L) /\ node.filter = "always" THEN "sq"
  ELSE IF L = {"EmbedAllPermutationsPass"} THEN "pam"
  ELSE IF L = {"ScanningGateRemovalPass"} /\ node.filter = "less-than-respecting-multi" THEN "scan"
  ELSE IF L # {} /\ L \subseteq {"QSearchSynthesisPass", "LEAPSynthesisPass"} /\ node.filter = "less-than-respecting-multi" THEN "resynth"
  ELSE "unknown"

Imp(a, b) == (~a) \/ b
Monotone(a, b) == Imp(a.mq, b.mq) /\ Imp(a.sq, b.sq) /\ Imp(a.coupled, b.coupled) /\ Imp(~a.wide, ~b.wide)
\* records that agree with a outside the four gate flags
GateFlagVariants(a) == {[a EXCEPT !.mq = m, !.sq = s, !.coupled = c, !.wide = x] : m, s, c, x \in BOOLEAN}
NoEffect == {"SetRandomSeedPass", "LogPass", "LogErrorPass", "ExtendBlockSizePass", "NOOPPass", "SetModelPass", "SetTargetPass",
             "EmbedAllPermutationsPass", "SubtopologySelectionPass"}
Synthesis == {"QSearchSynthesisPass", "LEAPSynthesisPass", "PermutationAwareSynthesisPass"}

EffRaw(name, a, g) ==
  CASE name \in NoEffect -> {a}
    [] name = "UnfoldPass" -> {[a EXCEPT !.folded = FALSE]}
    [] name = "ExtractMeasurements" -> {[a EXCEPT !.meas = IF a.meas = "in" THEN "stored" ELSE a.meas]}
    [] name = "RestoreMeasurements" -> {[a EXCEPT !.meas = IF a.meas = "stored" THEN "in" ELSE a.meas]}
    [] name \in {"QuickPartitioner", "GroupSingleQuditGatePass"} ->
          {[a EXCEPT !.folded = f] : f \in {TRUE, a.folded}}
    [] name = "ExtractModelConnectivityPass" -> {[a EXCEPT !.a2a = TRUE]}
    [] name = "RestoreModelConnectivityPass" -> {[a EXCEPT !.a2a = FALSE]}
    \* placement and layout choose where the circuit sits: only "coupled" can change
    [] name \in {"GreedyPlacementPass", "GeneralizedSabreLayoutPass", "PAMLayoutPass"} -> {[a EXCEPT !.coupled = c] : c \in BOOLEAN}
    \* routing makes every multi-qudit gate coupled; the swaps it inserts are native only if SWAP is
    [] name = "GeneralizedSabreRoutingPass" ->
          {[a EXCEPT !.coupled = TRUE, !.mq = m] : m \in ({a.mq} \cup (IF g.swapNative THEN {} ELSE {FALSE}))}
    [] name = "PAMRoutingPass" ->
          {[a EXCEPT !.coupled = c, !.mq = m, !.sq = s, !.wide = FALSE] : m, s \in BOOLEAN, c \in (IF a.a2a THEN BOOLEAN ELSE {TRUE})}
    \* the circuit is moved onto the machine's qudits; locations go through the placement
    [] name = "ApplyPlacement" -> {[a EXCEPT !.fits = TRUE, !.w = x] : x \in (IF a.fits THEN {a.w} ELSE a.w..3)}
    \* whole-circuit synthesis: native entanglers on edges of the (current) connectivity, general single-qudit gates
    [] name \in Synthesis ->
          {[a EXCEPT !.mq = TRUE, !.wide = FALSE, !.folded = FALSE, !.coupled = c, !.sq = s] :
              s \in BOOLEAN, c \in (IF a.a2a THEN BOOLEAN ELSE {TRUE})}
    [] name = "ScanningGateRemovalPass" -> {b \in GateFlagVariants(a) : Monotone(a, b)}
    [] name \in {"GeneralSQDecomposition", "ZXZXZDecomposition"} -> {[a EXCEPT !.sq = TRUE]}
    [] name \in {"AutoRebase2QuditGatePass"} -> {[a EXCEPT !.mq = TRUE, !.sq = s] : s \in BOOLEAN}
    [] name = "FillSingleQuditGatesPass" -> {[a EXCEPT !.sq = s] : s \in BOOLEAN}
    [] OTHER -> GateFlagVariants(a)                                       \* a pass this model knows nothing about
EffForEachRaw(node, a, g) ==
  LET role == Role(node) IN
  CASE role = "mq" ->      \* every block ends up with native entanglers; 3+-qudit gates are synthesised with all-to-all connectivity
          {b \in GateFlagVariants(a) : b.mq /\ ~b.wide /\ (a.wide \/ Imp(a.coupled, b.coupled))}
    [] role = "sq" -> {[a EXCEPT !.sq = TRUE]}
    [] role = "scan" -> {b \in GateFlagVariants(a) : Monotone(a, b)}
    [] role = "resynth" -> {b \in GateFlagVariants(a) : Imp(a.mq, b.mq) /\ Imp(a.coupled, b.coupled) /\ Imp(~a.wide, ~b.wide)}
    [] role = "pam" -> {a}
    [] OTHER -> GateFlagVariants(a)
Eff(name, a, g) == {b \in EffRaw(name, a, g) : Consistent(b)}
EffForEach(node, a, g) == {b \in EffForEachRaw(node, a, g) : Consistent(b)}

\* ------------------------------------------------------------------ the property
ExecClause(r, g) ==
  IF ~r.fits THEN "width"
  ELSE IF r.folded \/ ~r.mq \/ (g.hasSQ /\ ~g.allConst /\ ~r.sq) THEN "gate-not-native"     \* the workflow itself warns for gate sets
  ELSE IF ~r.coupled \/ r.a2a THEN "uncoupled-location"                                      \* without parameterised single-qudit gates
  ELSE IF r.meas = "stored" THEN "measurements-not-restored"
  ELSE "ok"
Executable(r, g) == ExecClause(r, g) = "ok"
=============================================================================
