---------------------------- MODULE PipelineTrace ----------------------------
(* Binding of Pipeline.tla to the code (code -> spec): recorded executions of the real bqskit.compile() are validated
   against the transcribed workflow and its contracts.

   The harness taps Workflow.run and PassPredicate.__call__ from outside (no hook in /repo) and records, for the
   top-level workflow of a compilation task, every predicate decision and every pass that ran, each with a summary of
   (circuit, PassData) taken right after it.  A case:
       what = "trace":   kind, level, n (width of the input), seeded, edges / mwidth / gateset of the TARGET model
                         (gateset: sequence of [name, ar, param, general]), start (summary before the first pass),
                         ev = sequence of [k |-> "pass" | "pred", name, val, rec |-> summary]
       what = "program": kind, level, n, prog = the tree extracted from the real build_workflow()
   summary: width, gates (distinct [gate, ar, ph] of the unfolded circuit), locs (distinct locations of its multi-qudit
            non-placeholder operations), folded, meas_in, meas_stored, placement, a2a.

   Verdicts (all about the implementation-shaped layer: the harness reports them as DRIFT, they are not violations of
   C02 -- Compat.tla decides C02 on the outputs):
       pipeline:as-built-differs    the workflow compile() builds is not Prog(kind, level, n)
       pipeline:unexpected-pass / unexpected-predicate the recorded run leaves the transcribed program
       pipeline:guard-disagrees                        a predicate's recorded value is not the one its abstract reading gives
       pipeline:effect-outside-contract                the record after a pass is not allowed by the pass's contract
       pipeline:ended-early                            the run stopped before the program did
       pipeline:mapping-bookkeeping                    PassData.placement / initial_mapping / final_mapping (the state C01 talks
                                                       about) moved in a way the pass that ran is not meant to move them:
                                                       all three are always injective and in range; only placement / layout /
                                                       routing / permutation-aware passes may touch them; ApplyPlacement
                                                       composes both mappings with the placement and resets the placement  *)
EXTENDS PipelineDefs

Cases == JsonDeserialize(IOEnv.TRACE_FILE)
VARIABLES tid
C == Cases[tid]

ToSet(s) == {s[i] : i \in 1..Len(s)}
Edge(a, b) == \E e \in ToSet(C.edges) : (e[1] = a /\ e[2] = b) \/ (e[1] = b /\ e[2] = a)
Native == {g.name : g \in ToSet(C.gateset)}
SQ == {g \in ToSet(C.gateset) : g.ar = 1}
GS == [hasSQ |-> SQ # {},
       general |-> \E g \in SQ : g.general,
       zx |-> (\E g \in SQ : g.name \in {"RZGate/RZ", "U1Gate/U1"}) /\ (\E g \in SQ : g.name \in {"SqrtXGate/SX", "RXGate/RX"}),
       allConst |-> \A g \in SQ : ~g.param,
       swapNative |-> \E g \in ToSet(C.gateset) : g.name = "SwapGate/Swap"]

\* abstract record of a summary
Abs(s) ==
  LET real == {g \in ToSet(s.gates) : ~g.ph} IN
  [w |-> IF s.width >= 3 THEN 3 ELSE s.width,
   fits |-> s.width = C.mwidth,
   wide |-> \E g \in real : g.ar >= 3,
   mq |-> \A g \in real : g.ar >= 2 => g.gate \in Native,
   sq |-> \A g \in real : g.ar = 1 => g.gate \in Native,
   coupled |-> \A l \in ToSet(s.locs) : \A i, j \in 1..Len(l) : i < j =>
                  /\ l[i] < Len(s.placement) /\ l[j] < Len(s.placement)
                  /\ Edge(s.placement[l[i] + 1], s.placement[l[j] + 1]),
   folded |-> s.folded,
   a2a |-> s.a2a,
   \* (RestoreMeasurements leaves its key in the PassData: what counts is whether the placeholders are back)
   meas |-> IF s.meas_in THEN "in" ELSE IF s.meas_stored THEN "stored" ELSE "none"]

\* ------------------------------------------------------------------ mapping bookkeeping (summaries s -> t around one pass)
Inj(m) == \A i, j \in 1..Len(m) : i # j => m[i] # m[j]
Within(m, n) == \A i \in 1..Len(m) : m[i] \in 0..n - 1
MapInv(t) == /\ Inj(t.pi) /\ Inj(t.pf) /\ Inj(t.placement)
             /\ Len(t.pi) = Len(t.pf) /\ Within(t.pi, t.width) /\ Within(t.pf, t.width)
             /\ Len(t.placement) = t.width /\ Within(t.placement, t.mwidth)
Through(m, pl) == [i \in 1..Len(m) |-> pl[m[i] + 1]]
MayPermute == {"GeneralizedSabreLayoutPass", "GeneralizedSabreRoutingPass", "PAMLayoutPass", "PAMRoutingPass",
               "PermutationAwareSynthesisPass", "SubtopologySelectionPass", "GreedyPlacementPass"}
MapStep(name, s, t) ==
  /\ MapInv(t)
  /\ CASE name = "ApplyPlacement" ->
             /\ t.width = t.mwidth
             /\ t.pi = Through(s.pi, s.placement) /\ t.pf = Through(s.pf, s.placement)
             /\ t.placement = [i \in 1..t.mwidth |-> i - 1]
        [] name = "GreedyPlacementPass" -> t.pi = s.pi /\ t.pf = s.pf
        [] name = "GeneralizedSabreRoutingPass" -> t.pi = s.pi /\ t.placement = s.placement
        [] name \in MayPermute -> TRUE
        \* (SetModelPass / SetTargetPass re-seat the placement when the width of the model / target asks for it)
        [] name \in {"SetModelPass", "SetTargetPass"} -> t.pi = s.pi /\ t.pf = s.pf
        [] OTHER -> t.pi = s.pi /\ t.pf = s.pf /\ t.placement = s.placement

TheProg == (IF C.seeded THEN <<P("SetRandomSeedPass")>> ELSE <<>>) \o Prog(C.kind, C.level, C.n)

\* Walk(i, todo, a): first disagreement from event i on, as <<event index, clause>>; <<0, "ok">> if none
RECURSIVE Walk(_, _, _, _)
Walk(i, todo, a, ps) ==
  IF i > Len(C.ev) THEN
       \* what is left of the program must be skippable without running a pass (it cannot be: every If was recorded)
       IF todo = <<>> THEN <<0, "ok">> ELSE <<i, "pipeline:ended-early">>
  ELSE
    LET e == C.ev[i]  b == Abs(e.rec) IN
    IF todo = <<>> THEN <<i, IF e.k = "pred" THEN "pipeline:unexpected-predicate" ELSE "pipeline:unexpected-pass">>
    ELSE LET h == todo[1] IN
      IF e.k = "pred" THEN
        IF h.t \notin {"if", "while"} \/ h.pred # e.name THEN <<i, "pipeline:unexpected-predicate">>
        ELSE IF e.val \notin PredVal(h.pred, a, GS) THEN <<i, "pipeline:guard-disagrees">>
        ELSE IF b # a THEN <<i, "pipeline:effect-outside-contract">>
        ELSE IF h.t = "if" THEN Walk(i + 1, (IF e.val THEN h.then ELSE h.else) \o Tail(todo), a, ps)
        ELSE Walk(i + 1, IF e.val THEN h.body \o todo ELSE Tail(todo), a, ps)
      ELSE
        IF h.t = "pass" THEN
          IF h.name # e.name THEN <<i, "pipeline:unexpected-pass">>
          ELSE IF b \notin Eff(h.name, a, GS) THEN <<i, "pipeline:effect-outside-contract">>
          ELSE IF ~MapStep(h.name, ps, e.rec) THEN <<i, "pipeline:mapping-bookkeeping">>
          ELSE Walk(i + 1, Tail(todo), b, e.rec)
        ELSE IF h.t = "foreach" THEN
          IF e.name # "ForEachBlockPass" THEN <<i, "pipeline:unexpected-pass">>
          ELSE IF b \notin EffForEach(h, a, GS) THEN <<i, "pipeline:effect-outside-contract">>
          ELSE IF ~MapStep("ForEachBlockPass", ps, e.rec) THEN <<i, "pipeline:mapping-bookkeeping">>
          ELSE Walk(i + 1, Tail(todo), b, e.rec)
        ELSE <<i, "pipeline:unexpected-pass">>

Verdict ==
  IF C.what = "program"
  THEN (IF C.prog = Prog(C.kind, C.level, C.n) THEN <<0, "ok">> ELSE <<0, "pipeline:as-built-differs">>)
  ELSE IF ~MapInv(C.start) THEN <<0, "pipeline:mapping-bookkeeping">>
  ELSE Walk(1, TheProg, Abs(C.start), C.start)

Init == tid \in 1..Len(Cases)
Next == UNCHANGED tid
Spec == Init /\ [][Next]_tid
Check == LET v == Verdict IN IF v[2] = "ok" THEN TRUE ELSE PrintT(<<"VERDICT", tid, v[1], v[2]>>)
=============================================================================
