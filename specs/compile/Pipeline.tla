------------------------------ MODULE Pipeline ------------------------------
(* C02, implementation-shaped layer: the workflow bqskit.compile() builds (bqskit/compiler/compile.py), as a program
   over an ABSTRACT circuit record, one action per pass.

   Program = sequence of nodes
       [t |-> "pass",    name]                      a pass (class name)
       [t |-> "if",      pred, then, else]          IfThenElsePass
       [t |-> "while",   pred, body]                WhileLoopPass
       [t |-> "foreach", filter, body]              ForEachBlockPass (body runs on blocks; its role is read off its body)
   Nested Workflows are sequential composition and are written spliced into their parent.  Prog(kind, level, n) below is
   the transcription of compile.py; with UseBuilt = TRUE the programs are instead read from the JSON file the harness
   extracts from the real build_workflow() (IOEnv.BUILT_FILE), so that TLC explores the workflow compile() really builds.

   Abstract record of (circuit, PassData), all flags relative to the TARGET machine model:
       w       1, 2, 3 (= three or more): width of the circuit
       fits    the circuit has the machine's width (it lives on the physical qudits)
       wide    some gate (placeholders aside, CircuitGates looked into) acts on three or more qudits
       mq, sq  every multi- / single-qudit gate (placeholders aside, CircuitGates looked into) is in the model's gate set
       coupled every multi-qudit gate sits on pairwise coupled physical qudits under the current placement
       folded  the circuit contains CircuitGates
       a2a     the model's connectivity is temporarily replaced by all-to-all (Extract/RestoreModelConnectivityPass)
       meas    "none" | "in" (measurement placeholders in the circuit) | "stored" (taken out by ExtractMeasurements)
   gs = static facts about the model's gate set: hasSQ, general (a general single-qudit gate), zx, allConst, swapNative.

   Each pass has a CONTRACT Eff(pass, a, gs) = set of records it may leave (what the pass is for, assuming its search
   succeeds).  TLC checks: from every abstract input, for optimization levels 1-4 and every input kind, no run gets
   stuck and every run that ends, ends in a record satisfying Executable (the abstract image of Compat!Executable).
   Terminal records that are not Executable are printed as <<"CEX", kind, level, clause, input width class, input fits, gate-set class>>: design-level
   counterexamples, which the harness replays on the real compile() (Compat.tla decides there).
   PipelineTrace.tla validates recorded pass / predicate sequences of real runs against this module.                *)
EXTENDS PipelineDefs

CONSTANTS UseBuilt,      \* TRUE: programs come from IOEnv.BUILT_FILE (extracted from the real build_workflow)
          KindsUsed,     \* subset of Kinds explored by this run
          LevelsUsed,    \* subset of 1..4
          GSUsed         \* subset of 1..6: which of the representative gate-set classes (GSList) this run explores

Program(kind, level, n) == IF UseBuilt THEN BuiltProg(kind, level, n) ELSE Prog(kind, level, n)

\* ------------------------------------------------------------------ state machine
VARIABLES kind, level, gs, init, todo, rec      \* init = [w, fits] of the input (history, for the counterexample lines)
vars == <<kind, level, gs, init, todo, rec>>
const == <<kind, level, gs, init>>

InitialRecords(k) ==
  {r \in Records : /\ Consistent(r) /\ ~r.a2a
                   /\ CASE k = "circuit" -> r.meas \in {"none", "in"}
                        \* Circuit.from_unitary: one constant gate on all qudits
                        [] k = "unitary" -> r.w <= 3 /\ r.meas = "none" /\ ~r.folded /\ r.mq = (r.w = 1) /\ r.sq = (r.w > 1) /\ r.wide = (r.w = 3)
                        \* an empty circuit
                        [] OTHER -> r.w <= 3 /\ r.meas = "none" /\ ~r.folded /\ r.mq /\ r.sq /\ r.coupled /\ ~r.wide}
\* representative gate-set classes: CNOT+U3, CZ+RZ+SX, CZ+U3+SWAP, CNOT+RY+RZ, CNOT+H+T, CNOT only
GSList == <<[hasSQ |-> TRUE,  general |-> TRUE,  zx |-> FALSE, allConst |-> FALSE, swapNative |-> FALSE],
            [hasSQ |-> TRUE,  general |-> FALSE, zx |-> TRUE,  allConst |-> FALSE, swapNative |-> FALSE],
            [hasSQ |-> TRUE,  general |-> TRUE,  zx |-> FALSE, allConst |-> FALSE, swapNative |-> TRUE],
            [hasSQ |-> TRUE,  general |-> FALSE, zx |-> FALSE, allConst |-> FALSE, swapNative |-> FALSE],
            [hasSQ |-> TRUE,  general |-> FALSE, zx |-> FALSE, allConst |-> TRUE,  swapNative |-> FALSE],
            [hasSQ |-> FALSE, general |-> FALSE, zx |-> FALSE, allConst |-> TRUE,  swapNative |-> FALSE]>>
GSClasses == {GSList[i] : i \in GSUsed}
ASSUME GSUsed \subseteq 1..Len(GSList) /\ GSUsed # {}
GSIndex(g) == CHOOSE i \in 1..Len(GSList) : GSList[i] = g
ASSUME \A g \in GSClasses : g \in GateSets /\ GSConsistent(g)
Init == /\ kind \in KindsUsed /\ level \in LevelsUsed
        /\ gs \in GSClasses
        /\ rec \in InitialRecords(kind) /\ init = [w |-> rec.w, fits |-> rec.fits]
        /\ todo = Program(kind, level, rec.w)

Head1 == todo[1]
IsPass(n) == todo # <<>> /\ Head1.t = "pass" /\ Head1.name = n
\* (one named action per pass, so that TLC's coverage lists each of them)
Step == rec' \in Eff(Head1.name, rec, gs) /\ todo' = Tail(todo) /\ UNCHANGED const
Known == NoEffect \cup Synthesis \cup
         {"UnfoldPass", "ExtractMeasurements", "RestoreMeasurements", "QuickPartitioner", "GroupSingleQuditGatePass",
          "ExtractModelConnectivityPass", "RestoreModelConnectivityPass", "GreedyPlacementPass", "GeneralizedSabreLayoutPass",
          "PAMLayoutPass", "GeneralizedSabreRoutingPass", "PAMRoutingPass", "ApplyPlacement", "ScanningGateRemovalPass"}

SetRandomSeedPass == IsPass("SetRandomSeedPass") /\ Step
UnfoldPass == IsPass("UnfoldPass") /\ Step
ExtractMeasurements == IsPass("ExtractMeasurements") /\ Step
RestoreMeasurements == IsPass("RestoreMeasurements") /\ Step
SetModelPass == IsPass("SetModelPass") /\ Step
SetTargetPass == IsPass("SetTargetPass") /\ Step
LogPass == IsPass("LogPass") /\ Step
LogErrorPass == IsPass("LogErrorPass") /\ Step
NOOPPass == IsPass("NOOPPass") /\ Step
QuickPartitioner == IsPass("QuickPartitioner") /\ Step
ExtendBlockSizePass == IsPass("ExtendBlockSizePass") /\ Step
GroupSingleQuditGatePass == IsPass("GroupSingleQuditGatePass") /\ Step
GreedyPlacementPass == IsPass("GreedyPlacementPass") /\ Step
GeneralizedSabreLayoutPass == IsPass("GeneralizedSabreLayoutPass") /\ Step
GeneralizedSabreRoutingPass == IsPass("GeneralizedSabreRoutingPass") /\ Step
ApplyPlacement == IsPass("ApplyPlacement") /\ Step
ExtractModelConnectivityPass == IsPass("ExtractModelConnectivityPass") /\ Step
RestoreModelConnectivityPass == IsPass("RestoreModelConnectivityPass") /\ Step
SubtopologySelectionPass == IsPass("SubtopologySelectionPass") /\ Step
PAMLayoutPass == IsPass("PAMLayoutPass") /\ Step
PAMRoutingPass == IsPass("PAMRoutingPass") /\ Step
QSearchSynthesisPass == IsPass("QSearchSynthesisPass") /\ Step
LEAPSynthesisPass == IsPass("LEAPSynthesisPass") /\ Step
PermutationAwareSynthesisPass == IsPass("PermutationAwareSynthesisPass") /\ Step
ScanningGateRemovalPass == IsPass("ScanningGateRemovalPass") /\ Step
OtherPass == /\ todo # <<>> /\ Head1.t = "pass" /\ Head1.name \notin Known
             /\ rec' \in Eff(Head1.name, rec, gs) /\ todo' = Tail(todo) /\ UNCHANGED const

IsForEach(role) == todo # <<>> /\ Head1.t = "foreach" /\ Role(Head1) = role
StepForEach == rec' \in EffForEach(Head1, rec, gs) /\ todo' = Tail(todo) /\ UNCHANGED const
ForEachRetargetMQ == IsForEach("mq") /\ StepForEach
ForEachRetargetSQ == IsForEach("sq") /\ StepForEach
ForEachScan == IsForEach("scan") /\ StepForEach
ForEachResynth == IsForEach("resynth") /\ StepForEach
ForEachPAMCache == IsForEach("pam") /\ StepForEach
ForEachUnknown == IsForEach("unknown") /\ StepForEach

IfTrue  == /\ todo # <<>> /\ Head1.t = "if" /\ TRUE \in PredVal(Head1.pred, rec, gs)
           /\ todo' = Head1.then \o Tail(todo) /\ UNCHANGED <<const, rec>>
IfFalse == /\ todo # <<>> /\ Head1.t = "if" /\ FALSE \in PredVal(Head1.pred, rec, gs)
           /\ todo' = Head1.else \o Tail(todo) /\ UNCHANGED <<const, rec>>
WhileEnter == /\ todo # <<>> /\ Head1.t = "while" /\ TRUE \in PredVal(Head1.pred, rec, gs)
              /\ todo' = Head1.body \o todo /\ UNCHANGED <<const, rec>>
WhileExit  == /\ todo # <<>> /\ Head1.t = "while" /\ FALSE \in PredVal(Head1.pred, rec, gs)
              /\ todo' = Tail(todo) /\ UNCHANGED <<const, rec>>
Finished == todo = <<>> /\ UNCHANGED vars

Next == \/ SetRandomSeedPass \/ UnfoldPass \/ ExtractMeasurements \/ RestoreMeasurements \/ SetModelPass \/ SetTargetPass
        \/ LogPass \/ LogErrorPass \/ NOOPPass \/ QuickPartitioner \/ ExtendBlockSizePass \/ GroupSingleQuditGatePass
        \/ GreedyPlacementPass \/ GeneralizedSabreLayoutPass \/ GeneralizedSabreRoutingPass \/ ApplyPlacement
        \/ ExtractModelConnectivityPass \/ RestoreModelConnectivityPass \/ SubtopologySelectionPass \/ PAMLayoutPass \/ PAMRoutingPass
        \/ QSearchSynthesisPass \/ LEAPSynthesisPass \/ PermutationAwareSynthesisPass \/ ScanningGateRemovalPass \/ OtherPass
        \/ ForEachRetargetMQ \/ ForEachRetargetSQ \/ ForEachScan \/ ForEachResynth \/ ForEachPAMCache \/ ForEachUnknown
        \/ IfTrue \/ IfFalse \/ WhileEnter \/ WhileExit \/ Finished
Spec == Init /\ [][Next]_vars /\ WF_vars(Next) /\ SF_vars(WhileExit)

\* ------------------------------------------------------------------ checked
TypeOK == rec \in Records /\ Consistent(rec)
\* a workflow never reaches a pass whose contract admits no outcome / a node it cannot execute
NeverStuck == todo # <<>> => ENABLED Next
\* every run that ends, ends executable: reported per counterexample, never stops the exploration
EndsExecutable ==
  IF todo = <<>> /\ ~Executable(rec, gs)
  THEN PrintT(<<"CEX", kind, level, ExecClause(rec, gs), init.w, init.fits, GSIndex(gs)>>)
  ELSE TRUE
\* with loops left whenever their predicate allows it, every run ends
Terminates == <>(todo = <<>>)
=============================================================================
