------------------------------- MODULE Compat -------------------------------
(* C02: "executable on the target machine model", as a definition, evaluated by TLC on

     kind = "out"    (output circuit of a real compile() run, the model it was compiled for)
     kind = "triple" (a circuit, a model and a placement handed to MachineModel.is_compatible)

   A case: width, radixes (of the circuit), mwidth, mradixes, edges (pairs [low, high] of the model's coupling
   graph), gateset (names of the model's gates), ops (sequence of [gate |-> name, loc |-> qudits, placeholder |->
   measurement / barrier / reset]), placement (physical qudit of circuit qudit q at position q+1; identity for "out"),
   verdict (what MachineModel.is_compatible answered).

   Clauses (statement of C02):
     width                 the returned circuit has the model's width
     radix                 ... and its radixes
     gate-not-native       every gate other than a measurement / barrier / reset placeholder is in the gate set
     uncoupled-location    every pair of qudits of a multi-qudit gate is an edge of the model's graph
     is_compatible-verdict MachineModel.is_compatible(circuit[, placement]) = the conjunction above (with "fits on the
                           machine" instead of "has the machine's width": is_compatible is asked about circuits that are
                           still to be placed)                                                                         *)
EXTENDS Naturals, Sequences, FiniteSets, TLC, Json, IOUtils

Cases == JsonDeserialize(IOEnv.TRACE_FILE)
VARIABLES tid
C == Cases[tid]

Range(s) == {s[i] : i \in 1..Len(s)}
Phys(q) == C.placement[q + 1]
Coupled(a, b) == \E e \in Range(C.edges) : (e[1] = a /\ e[2] = b) \/ (e[1] = b /\ e[2] = a)
AllOps  == 1..Len(C.ops)
RealOps == {i \in AllOps : ~C.ops[i].placeholder}

Fits      == C.width <= C.mwidth
WidthOK   == C.width = C.mwidth
RadixOK   == \A q \in 0..C.width - 1 : Phys(q) \in 0..C.mwidth - 1 /\ C.radixes[q + 1] = C.mradixes[Phys(q) + 1]
NativeOK  == \A i \in RealOps : C.ops[i].gate \in Range(C.gateset)
CoupledOK == \A i \in RealOps : \A a, b \in Range(C.ops[i].loc) : a # b => Coupled(Phys(a), Phys(b))

\* the output of compile() is executable
Executable == WidthOK /\ RadixOK /\ NativeOK /\ CoupledOK
ExecClause == IF ~WidthOK THEN "width" ELSE IF ~RadixOK THEN "radix"
              ELSE IF ~NativeOK THEN "gate-not-native" ELSE IF ~CoupledOK THEN "uncoupled-location" ELSE "ok"
\* the circuit can run on the machine under the placement
Compatible == Fits /\ RadixOK /\ NativeOK /\ CoupledOK

(* Implementation-shaped reading of MachineModel.is_compatible, used ONLY to name the cause of a disagreement in the
   verdict line (the key of a known finding); it decides nothing.  d1: every gate, placeholders included, is looked up
   in the gate set.  d2: the pair (placement[a], placement[b]), a < b, is looked up as stored (edges are stored
   [low, high]) without sorting it.  d3: the qudits of a barrier count as coupled qudits of the circuit. *)
Stored(a, b) == \E e \in Range(C.edges) : e[1] = a /\ e[2] = b
Impl(d1, d2, d3) ==
  /\ Fits
  /\ \A i \in (IF d1 THEN AllOps ELSE RealOps) : C.ops[i].gate \in Range(C.gateset)
  /\ \A i \in (IF d3 THEN {j \in AllOps : ~C.ops[j].placeholder \/ C.ops[j].gate = "barrier"} ELSE RealOps) :
        \A a, b \in Range(C.ops[i].loc) : a < b =>
           IF d2 THEN Stored(Phys(a), Phys(b)) ELSE Coupled(Phys(a), Phys(b))
  /\ RadixOK
\* (short codes: TLC wraps printed tuples longer than a line)
Cause == IF Impl(TRUE, TRUE, TRUE) # C.verdict THEN "none"      \* not explained by the three known deviations
         ELSE IF Impl(TRUE, FALSE, FALSE) = C.verdict THEN "d1"   \* placeholder tested against the gate set
         ELSE IF Impl(FALSE, TRUE, FALSE) = C.verdict THEN "d2"   \* placement pair looked up unsorted
         ELSE IF Impl(FALSE, FALSE, TRUE) = C.verdict THEN "d3"   \* barrier counted as a coupling
         ELSE "d23"                                               \* barrier whose placed pair is looked up unsorted

Init == tid \in 1..Len(Cases)
Next == UNCHANGED tid
Spec == Init /\ [][Next]_tid

CheckExec == IF C.kind # "out" \/ ExecClause = "ok" THEN TRUE ELSE PrintT(<<"VERDICT", tid, 0, ExecClause>>)
CheckVerdict ==
  IF ~C.has_verdict \/ C.verdict = Compatible THEN TRUE
  ELSE PrintT(<<"VERDICT", tid, 0, "is_compatible-verdict",
                IF Compatible THEN "FN" ELSE "FP", Cause>>)
=============================================================================
