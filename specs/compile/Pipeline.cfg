CONSTANT UseBuilt = FALSE
SPECIFICATION Spec
INVARIANT TypeOK
INVARIANT NeverStuck
INVARIANT EndsExecutable
PROPERTY Terminates
CHECK_DEADLOCK FALSE
