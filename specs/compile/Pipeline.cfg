CONSTANTS
  UseBuilt = FALSE
  KindsUsed = {"circuit", "unitary", "state", "system"}
  LevelsUsed = {1, 2, 3, 4}
  GSUsed = {1, 2, 3, 4, 5, 6}
SPECIFICATION Spec
INVARIANT TypeOK
INVARIANT NeverStuck
INVARIANT EndsExecutable
PROPERTY Terminates
CHECK_DEADLOCK FALSE
