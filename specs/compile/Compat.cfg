SPECIFICATION Spec
INVARIANT CheckExec
INVARIANT CheckVerdict
CHECK_DEADLOCK FALSE
