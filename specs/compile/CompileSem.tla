----------------------------- MODULE CompileSem -----------------------------
(* C01 / C03: what bqskit.compile() returned means what its input means -- decided on the exact (monomial) domain.

   A case is one call of compile():  status ("ok" | "raised" | "rejected"), items (the inputs: one, or several for a
   list input), results (what came back, in the order it came back).  "rejected" = compile() refused the call in its own
   argument checks with a documented ValueError / TypeError before anything ran (nothing to judge: not a violation);
   "raised" = a compilation that was accepted failed with an exception (both statements quantify over every accepted
   / supported input, so that is a violation, clause compile-raised).

   item:    kind  "circuit"  r (logical radixes), ops (Monomial.tla op records in program order; g = "BARRIER" and
                              g = "MEASURE" (loc = measured qudits, p = classical bit of each, register "c") are placeholders)
                  "unitary"  r, table   (target operator as a table [idx, ph], units of 2 pi / 48)
                  "state"    r, state = [idx, ph]                  (target e^{i ph} |idx>)
                  "system"   r, pairs = sequence of [i, o, ph]     (|i> must go to e^{i ph} |o>)
   result:  mr (radixes of the returned circuit), pi, pf (returned initial / final mapping: physical qudit of logical
            qudit q at position q+1), bs (the logical basis states that were fed in), obs (for each of them, in the same
            order: [idx |-> physical basis state the returned circuit sends it to, ph |-> phase class relative to the
            first one, dev |-> 2-norm distance of the column from that basis vector with that phase, in units of 1e-6]),
            tol (the distance budget derived from synthesis_epsilon and the size of the output, same unit; at most 0.05
            while two different members of the exact domain are at least 0.13 apart), obs_ok (FALSE if the
            harness could not embed: the mapping clauses then say why), meas_out (sequence of <<physical qudit,
            register, bit>> of the measurement placeholders of the returned circuit), cregs_out.

   The logical register is embedded at the physical qudits pi (all other physical qudits |0>), read back from pf
   (all other physical qudits must be |0> again), one global phase is free.

   C03 is read the same way ("reaches its target" under the returned mappings, which are the identity unless compile()
   says otherwise): at optimization level 4 compile() synthesises a unitary up to an input and an output permutation
   and reports them as the mappings (PermutationAwareSynthesisPass), so the weaker reading -- the one under which
   that documented behaviour is correct -- is the one taken here; for a state only |0..0> is fed in, for a state
   system only the listed inputs, and a state system is compared up to ONE common phase.

   Clauses   C01: compile-raised, mapping-out-of-range, mapping-not-injective, semantics-differ, measurement-misplaced
             C03: compile-raised, target-not-reached, list-order                                                     *)
EXTENDS Naturals, Integers, Sequences, FiniteSets, TLC, Json, IOUtils, Monomial

Cases == JsonDeserialize(IOEnv.TRACE_FILE)
VARIABLES tid
C == Cases[tid]

ToSet(s) == {s[i] : i \in 1..Len(s)}
IsPlaceholder(o) == o.g \in {"BARRIER", "MEASURE"}

\* ---------------------------------------------------------------- mappings
InRange(m, n, N)  == Len(m) = n /\ \A i \in 1..n : m[i] \in 0..N - 1
Injective(m)      == \A i, j \in 1..Len(m) : i # j => m[i] # m[j]
RadixFits(m, r, mr) == \A i \in 1..Len(m) : mr[m[i] + 1] = r[i]

\* ---------------------------------------------------------------- what the input means
\* expected image of logical basis state b:  [idx, ph]
Expected(it, b) ==
  CASE it.kind = "circuit" -> Sem(SelectSeq(it.ops, LAMBDA o : ~IsPlaceholder(o)), it.r, b)
    [] it.kind = "unitary" -> it.table[b + 1]
    [] it.kind = "state"   -> [idx |-> it.state.idx, ph |-> it.state.ph]                \* only b = 0 is fed in
    [] it.kind = "system"  -> LET p == CHOOSE p \in ToSet(it.pairs) : p.i = b IN [idx |-> p.o, ph |-> p.ph]

\* which logical basis states the statement talks about
Domain(it) ==
  CASE it.kind \in {"circuit", "unitary"} -> 0..Dim(it.r) - 1
    [] it.kind = "state"  -> {0}
    [] it.kind = "system" -> {p.i : p \in ToSet(it.pairs)}

\* the returned circuit, observed on the embedded basis states, does what `it` means
Same(it, res) ==
  /\ res.obs_ok
  /\ ToSet(res.bs) = Domain(it) /\ Len(res.bs) = Len(res.obs) /\ Len(res.bs) > 0
  /\ LET e == TLCEval([k \in 1..Len(res.bs) |-> Expected(it, res.bs[k])])
         g == NormPh(res.obs[1].ph - e[1].ph)                                  \* the one free global phase
     IN \A k \in 1..Len(res.bs) :
          LET pd == Digits(res.obs[k].idx, res.mr) IN
          /\ res.obs[k].dev <= res.tol                                         \* within the distance budget
          /\ OthersZero(pd, res.pf)
          /\ Index(ReadBack(pd, res.pf), it.r) = e[k].idx
          /\ NormPh(res.obs[k].ph - e[k].ph - g) = 0

\* ---------------------------------------------------------------- measurements
MeasIn(it) == UNION {{<<o.loc[i], o.p[i]>> : i \in 1..Len(o.loc)} : o \in {x \in ToSet(it.ops) : x.g = "MEASURE"}}
MeasOK(it, res) ==
  LET want == {<<res.pf[m[1] + 1], "c", m[2]>> : m \in MeasIn(it)}
  IN /\ ToSet(res.meas_out) = want
     /\ Len(res.meas_out) = Cardinality(want)
     /\ (want # {} => \E i \in 1..Len(res.cregs_out) : res.cregs_out[i][1] = "c" /\ res.cregs_out[i][2] = C.creg_size)

\* ---------------------------------------------------------------- verdict of one (item, result) pair
Reach(it, res) ==
  LET n == Len(it.r)  N == Len(res.mr) IN
  IF ~InRange(res.pi, n, N) \/ ~InRange(res.pf, n, N) THEN "mapping-out-of-range"
  ELSE IF ~Injective(res.pi) \/ ~Injective(res.pf) THEN "mapping-not-injective"
  ELSE IF ~RadixFits(res.pi, it.r, res.mr) \/ ~RadixFits(res.pf, it.r, res.mr) THEN "mapping-out-of-range"
  ELSE IF ~Same(it, res) THEN (IF it.kind = "circuit" THEN "semantics-differ" ELSE "target-not-reached")
  ELSE IF it.kind = "circuit" /\ ~MeasOK(it, res) THEN "measurement-misplaced"
  ELSE "ok"

Verdict ==
  IF C.status = "rejected" THEN "ok"
  ELSE IF C.status # "ok" THEN "compile-raised"
  ELSE IF Len(C.results) # Len(C.items) THEN "list-order"
  ELSE LET n == Len(C.items)
           v == TLCEval([k \in 1..n |-> Reach(C.items[k], C.results[k])])
           bad == {k \in 1..n : v[k] # "ok"}
       IN IF bad = {} THEN "ok"
          ELSE LET k == CHOOSE x \in bad : \A y \in bad : x <= y
                   \* fits[j][i]: result i is right for input j
                   fits == TLCEval([j \in 1..n |-> [i \in 1..n |-> IF i = j THEN v[j] = "ok" ELSE Reach(C.items[j], C.results[i]) = "ok"]])
               IN \* every result is right for SOME input, each input is served, but not in the order of the inputs
                  IF n >= 2 /\ \E p \in Permutations(1..n) : \A i \in 1..n : fits[p[i]][i]
                  THEN "list-order" ELSE v[k]

Init == tid \in 1..Len(Cases)
Next == UNCHANGED tid
Spec == Init /\ [][Next]_tid
Check == LET v == Verdict IN IF v = "ok" THEN TRUE ELSE PrintT(<<"VERDICT", tid, 0, v>>)
=============================================================================
