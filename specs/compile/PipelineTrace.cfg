SPECIFICATION Spec
INVARIANT Check
CHECK_DEADLOCK FALSE
