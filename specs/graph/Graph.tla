------------------------------ MODULE Graph ------------------------------
(* C20: coupling-graph and qudit-permutation utilities against their textbook definitions.

   Every case is one observation of the implementation (a graph plus what each public method
   returned; a permutation-matrix request plus the matrix read off as a basis-state map; a
   tensor / power / apply request on monomial matrices plus the result).  This module
   recomputes every answer from the definition and names the first method that disagrees.
   Distances: -1 encodes "no path" (infinity). *)
EXTENDS Naturals, Integers, Sequences, FiniteSets, TLC, Json, IOUtils, Monomial

Cases == JsonDeserialize(IOEnv.TRACE_FILE)
VARIABLES tid
C == Cases[tid]

ToSet(seq) == {seq[i] : i \in 1..Len(seq)}
V == 0 .. C.n - 1
EdgeSet(es) == {{e[1], e[2]} : e \in ToSet(es)}
E == EdgeSet(C.edges)
Adj(a, b) == a # b /\ {a, b} \in E
Nbrs(v) == {u \in V : Adj(u, v)}

RECURSIVE Reach(_, _)
Reach(S, R) == LET R2 == R \cup {q \in S : \E p \in R : Adj(p, q)} IN IF R2 = R THEN R ELSE Reach(S, R2)
ConnectedSet(S) == S = {} \/ Reach(S, {CHOOSE x \in S : TRUE}) = S
Connected == ConnectedSet(V)

\* hop distance by breadth-first layers
RECURSIVE Hop(_, _, _)
Hop(dst, frontier, d) ==
  IF dst \in frontier THEN d
  ELSE LET nf == frontier \cup {q \in V : \E p \in frontier : Adj(p, q)}
       IN IF nf = frontier THEN -1 ELSE Hop(dst, nf, d + 1)
HopDist(a, b) == Hop(b, {a}, 0)

\* weighted shortest paths (Bellman-Ford relaxation rounds); W[a+1][b+1] = edge weight or -1
Wt(a, b) == C.w[a + 1][b + 1]
MinOf(S) == CHOOSE x \in S : \A y \in S : x <= y
RECURSIVE Relax(_, _)
Relax(dist, k) ==     \* dist: function V -> Int (-1 = inf)
  IF k = 0 THEN dist
  ELSE LET nd == TLCEval([v \in V |->
                   LET cands == {dist[u] + Wt(u, v) : u \in {x \in V : dist[x] >= 0 /\ Adj(x, v)}}
                                \cup (IF dist[v] >= 0 THEN {dist[v]} ELSE {})
                   IN IF cands = {} THEN -1 ELSE MinOf(cands)])
       IN Relax(nd, k - 1)
WDist(a) == Relax([v \in V |-> IF v = a THEN 0 ELSE -1], C.n)

KSubsets(k) == {S \in SUBSET V : Cardinality(S) = k /\ ConnectedSet(S)}

\* a path p (sequence of vertices) from src to v that is a shortest (hop) path
IsShortestPath(p, src, v) ==
  /\ Len(p) >= 1 /\ p[1] = src /\ p[Len(p)] = v
  /\ \A i \in 1..Len(p) - 1 : Adj(p[i], p[i + 1])
  /\ Len(p) - 1 = HopDist(src, v)

\* induced subgraph on location loc (sequence), renumbered: vertex loc[i] -> ren[i]
InducedRenumbered(loc, ren) ==
  {{ren[p[1]], ren[p[2]]} : p \in {q \in (1..Len(loc)) \X (1..Len(loc)) : Adj(loc[q[1]], loc[q[2]])}}

\* subgraph monomorphism: some injective map of this graph's vertices into the other's that maps edges to edges
Embeds(n1, E1, n2, E2) ==
  \E f \in [0..n1 - 1 -> 0..n2 - 1] :
     /\ \A a, b \in 0..n1 - 1 : a # b => f[a] # f[b]
     /\ \A e \in E1 : {f[x] : x \in e} \in E2

GraphVerdict ==
  IF C.connected # Connected THEN "is_fully_connected"
  ELSE IF \E a \in V : LET da == WDist(a) IN \E b \in V : a # b /\ C.apsp[a + 1][b + 1] # da[b] THEN "all_pairs_shortest_path"
  ELSE IF \E a \in V : C.apsp[a + 1][a + 1] # 0 THEN "all_pairs_shortest_path:diagonal"
  ELSE IF \E v \in V : C.degrees[v + 1] # Cardinality(Nbrs(v)) THEN "get_qudit_degrees"
  ELSE IF \E v \in V : ToSet(C.neigh[v + 1]) # Nbrs(v) \/ Len(C.neigh[v + 1]) # Cardinality(Nbrs(v)) THEN "get_neighbors_of"
  ELSE IF \E k \in 1..Len(C.ksub) : {ToSet(C.ksub[k][i]) : i \in 1..Len(C.ksub[k])} # KSubsets(k) THEN "get_subgraphs_of_size"
  ELSE IF \E k \in 1..Len(C.ksub) : Len(C.ksub[k]) # Cardinality(KSubsets(k)) THEN "get_subgraphs_of_size:duplicates"
  ELSE IF \E s \in V : LET t == C.spt[s + 1] IN
            IF t.raised THEN Reach(V, {s}) = V      \* raising is right only when some vertex is unreachable
            ELSE \/ Reach(V, {s}) # V
                 \/ \E v \in V : ~IsShortestPath(t.paths[v + 1], s, v)
       THEN "get_shortest_path_tree"
  ELSE IF \E i \in 1..Len(C.subs) : LET s == C.subs[i] IN
            s.n # Len(s.loc) \/ EdgeSet(s.edges) # InducedRenumbered(s.loc, s.ren)
       THEN "get_subgraph"
  ELSE IF \E q \in V : C.n >= 2 /\ C.without[q + 1] # ConnectedSet(V \ {q}) THEN "is_fully_connected_without"
  ELSE IF C.contains # [i \in 1..Len(C.probe) |-> Adj(C.probe[i][1], C.probe[i][2])] THEN "__contains__"
  ELSE IF C.len # Cardinality(E) THEN "__len__"
  ELSE "ok"

\* topology constructors
CtorExpected ==
  CASE C.name = "all_to_all" -> {{a, b} : a, b \in V} \ {{a} : a \in V}
    [] C.name = "linear"     -> {{a, a + 1} : a \in 0..C.n - 2}
    [] C.name = "ring"       -> IF C.n <= 1 THEN {} ELSE ({{a, (a + 1) % C.n} : a \in V} \ {{a} : a \in V})
    [] C.name = "star"       -> {{0, a} : a \in 1..C.n - 1}
    [] C.name = "grid"       -> LET R == C.args[1] K == C.args[2] IN
                                {{r * K + c, r * K + c + 1} : <<r, c>> \in (0..R - 1) \X (0..K - 2)} \cup
                                {{r * K + c, (r + 1) * K + c} : <<r, c>> \in (0..R - 2) \X (0..K - 1)}
CtorVerdict == IF E # CtorExpected \/ C.nq # C.n THEN "ctor:" \o C.name ELSE "ok"

EmbedVerdict == IF C.result # Embeds(C.n1, EdgeSet(C.e1), C.n2, EdgeSet(C.e2)) THEN "is_embedded_in" ELSE "ok"

\* PermutationMatrix.from_qudit_location(num_qudits, radix, location): qudit location[i] moves to position i;
\* the remaining qudits follow in increasing order.
PermVerdict ==
  LET n == C.nq  r == [i \in 1..n |-> C.radix]
      rest == SelectSeq([i \in 1..n |-> i - 1], LAMBDA q : \A j \in 1..Len(C.loc) : C.loc[j] # q)
      full == C.loc \o rest
      exp == [b \in 1..Dim(r) |-> LET d == Digits(b - 1, r) IN [idx |-> Index([i \in 1..n |-> d[full[i] + 1]], r), ph |-> 0]]
  IN IF ~ObsOK(C.obs) THEN "from_qudit_location:not-a-permutation"
     ELSE IF ~SameExactly(ObsTable(C.obs), exp) THEN "from_qudit_location" ELSE "ok"

\* UnitaryMatrix.otimes / ipower, UnitaryBuilder.apply_right / apply_left / eval on monomial matrices
AlgVerdict ==
  LET got == ObsTable(C.obs) IN
  IF ~ObsOK(C.obs) THEN "alg:not-monomial:" \o C.op
  ELSE CASE C.op = "otimes" -> IF SameExactly(got, Kron(C.a, C.b)) THEN "ok" ELSE "UnitaryMatrix.otimes"
         [] C.op = "ipower" -> IF SameExactly(got, Power(C.a, C.k)) THEN "ok" ELSE "UnitaryMatrix.ipower"
         [] C.op = "dagger" -> IF SameExactly(got, Inverse(C.a)) THEN "ok" ELSE "UnitaryMatrix.dagger"
         [] C.op = "matmul" -> IF SameExactly(got, Compose(C.a, C.b)) THEN "ok" ELSE "UnitaryMatrix.__matmul__"
         [] C.op = "builder" ->
              \* steps: sequence of [side, loc, t, inv]; right = applied after what is there (U <- G U), left = before (U <- U G)
              LET RECURSIVE Build(_, _)
                  Build(k, T) ==
                    IF k > Len(C.steps) THEN T
                    ELSE LET s == C.steps[k]
                             tt == IF s.inv THEN Inverse(s.t) ELSE s.t
                             G == SemTable(<<[g |-> "TABLE", p |-> <<0>>, loc |-> s.loc, t |-> tt, ops |-> <<>>]>>, C.r)
                         IN Build(k + 1, IF s.side = "right" THEN Compose(G, T) ELSE Compose(T, G))
              IN IF SameExactly(got, Build(1, Ident(Dim(C.r)))) THEN "ok" ELSE "UnitaryBuilder.apply"
Verdict ==
  CASE C.kind = "graph" -> GraphVerdict
    [] C.kind = "ctor"  -> CtorVerdict
    [] C.kind = "embed" -> EmbedVerdict
    [] C.kind = "perm"  -> PermVerdict
    [] C.kind = "alg"   -> AlgVerdict

Init == tid \in 1..Len(Cases)
Next == UNCHANGED tid
Spec == Init /\ [][Next]_tid
Check == LET v == Verdict IN IF v = "ok" THEN TRUE ELSE PrintT(<<"VERDICT", tid, 0, v>>)
=============================================================================
