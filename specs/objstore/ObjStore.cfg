SPECIFICATION Spec
CONSTANTS
 Handles = {1, 2, 3}
 Fields = {"f", "g"}
 Contents = {0, 1}
 MaxCells = 6
 Sharing = FALSE
INVARIANT ArrivalOK
INVARIANT BecomeOK
INVARIANT MutationIsLocal
INVARIANT NoSharedState
CHECK_DEADLOCK FALSE
