---------------------------- MODULE ObjStoreTrace ----------------------------
(* C16 trace judge (batch, total verdict).  Input (IOEnv.TRACE_FILE): a JSON list of histories; a history is
   [steps]; a step is
     [act \in {"pickle","copy","become","mutate"}, src, dst (handle names),
      before, after (records handle -> value; value = record field -> canonical string),
      eq, hash \in {"equal","differ","undefined"} (o == o' and hash(o) == hash(o') where defined; pickle/copy only),
      aliased (handles that share state with the mutated one by design)]
   recorded from real BQSKit objects by harness/checks/c16.py.  Clauses:
     not-equal-after-<act>        a field of the replica differs from the source (or the source changed)
     eq-false-after-<act> / hash-differs-after-<act>
     become-field-differs         some field of the receiver differs from its source after become()
     copy-shares-state            mutating one object changed another
   The differing fields are printed as <<"FIELD", tid, l, field>> lines next to the verdict. *)
EXTENDS ObjStoreOps, Json, IOUtils
Traces == JsonDeserialize(IOEnv.TRACE_FILE)
VARIABLES tid, l
vars == <<tid, l>>
T == Traces[tid]
S == T.steps[l]
Changed(s) == UNION {IF h \in DOMAIN s.after THEN {<<h, f>> : f \in DiffFields(s.before[h], s.after[h])} ELSE {<<h, "gone">>}
                     : h \in (DOMAIN s.before) \ ({s.src} \cup {s.aliased[i] : i \in 1..Len(s.aliased)})}
Verdict(s) ==
  CASE s.act \in {"pickle", "copy"} ->
         IF ~ArrivesEqual(s.before, s.after, s.src, s.dst)
           THEN <<"not-equal-after-" \o s.act, DiffFields(s.before[s.src], s.after[s.dst]) \cup DiffFields(s.before[s.src], s.after[s.src])>>
         ELSE IF s.eq = "differ" THEN <<"eq-false-after-" \o s.act, {}>>
         ELSE IF s.hash = "differ" THEN <<"hash-differs-after-" \o s.act, {}>>
         ELSE <<"ok", {}>>
    [] s.act = "become" ->
         IF ~BecameEqual(s.before, s.after, s.dst, s.src)
           THEN <<"become-field-differs", DiffFields(s.after[s.dst], s.before[s.src]) \cup DiffFields(s.after[s.src], s.before[s.src])>>
         ELSE <<"ok", {}>>
    [] s.act = "mutate" ->
         IF ~Untouched(s.before, s.after, s.src, {s.aliased[i] : i \in 1..Len(s.aliased)}) THEN <<"copy-shares-state", Changed(s)>>
         ELSE <<"ok", {}>>
    [] OTHER -> <<"ok", {}>>
Init == tid \in 1..Len(Traces) /\ l = 1
Next == l < Len(T.steps) /\ l' = l + 1 /\ tid' = tid
Spec == Init /\ [][Next]_vars
Check == IF Len(T.steps) = 0 THEN TRUE
         ELSE LET v == Verdict(S) IN
              IF v[1] = "ok" THEN TRUE
              ELSE /\ PrintT(<<"VERDICT", tid, l, v[1]>>)         \* short tuples: TLC wraps long ones over several lines
                   /\ \A f \in v[2] : PrintT(<<"FIELD", tid, l, f>>)
=============================================================================
