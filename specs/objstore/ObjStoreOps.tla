----------------------------- MODULE ObjStoreOps -----------------------------
(* C16 vocabulary.  An object value is a record: field name -> canonical content (a string in recorded
   traces, a small integer in the abstract model).  What "arrives equal", "shares no mutable state" and
   "equal in every field" mean is stated once here and used by the abstract store (ObjStore) and by the
   trace judge (ObjStoreTrace). *)
EXTENDS Naturals, Sequences, FiniteSets, TLC

\* the fields in which two values differ (a field missing on one side differs)
DiffFields(a, b) == {f \in (DOMAIN a) \cup (DOMAIN b) : f \notin DOMAIN a \/ f \notin DOMAIN b \/ a[f] # b[f]}
SameValue(a, b) == DiffFields(a, b) = {}

\* vals: handle -> value, before and after one action on the store
\* Pickle / Copy (src -> dst): the new object equals the source in every field, the source is untouched
ArrivesEqual(before, after, src, dst) == SameValue(before[src], after[dst]) /\ SameValue(before[src], after[src])
\* Become(dst, src): every field of dst equals the field of src, src untouched
BecameEqual(before, after, dst, src) == SameValue(after[dst], before[src]) /\ SameValue(after[src], before[src])
\* Mutate(o): no object other than o (and those that alias it by design) changed
Untouched(before, after, o, aliased) == \A h \in (DOMAIN before) \ ({o} \cup aliased) : h \in DOMAIN after /\ SameValue(before[h], after[h])
=============================================================================
