------------------------------- MODULE ObjStore -------------------------------
(* C16: the abstract object store that says what pickling, copying and becoming must mean.

   An object (handle) owns one mutable cell per field; cells hold contents.  Pickle and Copy allocate fresh
   cells holding the same contents; Become overwrites the receiver's cells with the source's contents;
   Mutate changes one cell of one object.  A store that shares cells between objects is exactly what the
   property forbids: with Sharing = TRUE the model also contains a shallow copy action, and TLC must then
   report NoSharedState / MutationIsLocal violated (used by the harness as a self-test of the clause).

   Model-checked with TLC on 3 handles, 2 fields, 2 contents (cfg: ObjStore.cfg). *)
EXTENDS ObjStoreOps
CONSTANTS Handles, Fields, Contents, MaxCells, Sharing
VARIABLES cellOf,      \* handle -> (field -> cell) for live handles
          content,     \* cell -> content
          last         \* [act, src, dst, before]: the last action and the values before it
vars == <<cellOf, content, last>>
Cells == 1..MaxCells
Live == DOMAIN cellOf
Val(h) == [f \in Fields |-> content[cellOf[h][f]]]
Vals == [h \in Live |-> Val(h)]
UsedCells == UNION {{cellOf[h][f] : f \in Fields} : h \in Live}
\* allocation is deterministic (the k smallest free cells): which cells are used is immaterial
FreshCells(k) == LET F == Cells \ UsedCells IN
                 IF Cardinality(F) >= k THEN {{c \in F : Cardinality({d \in F : d < c}) < k}} ELSE {}
Assign(S) == CHOOSE m \in [Fields -> S] : \A f, g \in Fields : f # g => m[f] # m[g]
Ext(fn, k, v) == [x \in (DOMAIN fn) \cup {k} |-> IF x = k THEN v ELSE fn[x]]

Init == cellOf = [h \in {} |-> 0] /\ content = [c \in {} |-> 0] /\ last = [act |-> "init", src |-> 0, dst |-> 0, before |-> [h \in {} |-> 0]]
New(h) == /\ h \notin Live
          /\ \E S \in FreshCells(Cardinality(Fields)), v \in [Fields -> Contents] :
               /\ cellOf' = Ext(cellOf, h, Assign(S))
               /\ content' = [c \in (DOMAIN content) \cup S |-> IF c \in S THEN v[CHOOSE f \in Fields : Assign(S)[f] = c] ELSE content[c]]
          /\ last' = [act |-> "new", src |-> h, dst |-> h, before |-> Vals]
\* Pickle and Copy have the same abstract meaning (a deep, independent replica)
Replicate(act, o, n) ==
  /\ o \in Live /\ n \notin Live
  /\ \E S \in FreshCells(Cardinality(Fields)) :
       /\ cellOf' = Ext(cellOf, n, Assign(S))
       /\ content' = [c \in (DOMAIN content) \cup S |-> IF c \in S THEN content[cellOf[o][CHOOSE f \in Fields : Assign(S)[f] = c]] ELSE content[c]]
  /\ last' = [act |-> act, src |-> o, dst |-> n, before |-> Vals]
ShallowCopy(o, n) ==      \* the forbidden implementation: the replica points at the same cells
  /\ Sharing /\ o \in Live /\ n \notin Live
  /\ cellOf' = Ext(cellOf, n, cellOf[o]) /\ content' = content
  /\ last' = [act |-> "copy", src |-> o, dst |-> n, before |-> Vals]
Become(d, s) ==
  /\ d \in Live /\ s \in Live /\ d # s
  /\ content' = [c \in DOMAIN content |-> IF \E f \in Fields : cellOf[d][f] = c
                                          THEN content[cellOf[s][CHOOSE f \in Fields : cellOf[d][f] = c]] ELSE content[c]]
  /\ cellOf' = cellOf
  /\ last' = [act |-> "become", src |-> s, dst |-> d, before |-> Vals]
Mutate(o) ==
  /\ o \in Live
  /\ \E f \in Fields, v \in Contents : v # content[cellOf[o][f]] /\ content' = [content EXCEPT ![cellOf[o][f]] = v]
  /\ cellOf' = cellOf
  /\ last' = [act |-> "mutate", src |-> o, dst |-> o, before |-> Vals]
Next == \/ \E h \in Handles : New(h)
        \/ \E o, n \in Handles : Replicate("pickle", o, n) \/ Replicate("copy", o, n) \/ ShallowCopy(o, n)
        \/ \E d, s \in Handles : Become(d, s)
        \/ \E o \in Handles : Mutate(o)
Spec == Init /\ [][Next]_vars

\* ---- what C16 requires of every store action
ArrivalOK == last.act \in {"pickle", "copy"} => ArrivesEqual(last.before, Vals, last.src, last.dst)
BecomeOK == last.act = "become" => BecameEqual(last.before, Vals, last.dst, last.src)
MutationIsLocal == last.act = "mutate" => Untouched(last.before, Vals, last.src, {})
NoSharedState == \A a, b \in Live : a # b => {cellOf[a][f] : f \in Fields} \cap {cellOf[b][f] : f \in Fields} = {}
=============================================================================
