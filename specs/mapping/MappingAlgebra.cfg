\* default configuration (quick tier uses generated variants): 3 logical on 4 physical qudits, every connected graph
SPECIFICATION Spec
CONSTANTS
  NL = 3
  NP = 4
  GraphMode = "all"
  MaxSwaps = 3
INVARIANTS PublishedAreTokens PiTracksTokens MappingsInjective MappingsInRange PlacementConnected TokensConserved
CHECK_DEADLOCK FALSE
