\* default configuration (the check uses generated variants): 2 logical qudits, machines of 2 and 3 qudits, every connected graph,
\* workflows of every length (the pass counter is hidden by the VIEW and its bound is out of reach)
SPECIFICATION Spec
CONSTANTS
  NL = 2
  Sizes = {2, 3}
  GraphMode = "all"
  MaxSwaps = 2
  MaxSteps = 1000000
VIEW NoSteps
INVARIANTS PublishedAreTokens PiTracksTokens MappingsInjective MappingsInRange PlacementConnected TokensConserved AppliedMeans
CHECK_DEADLOCK FALSE
