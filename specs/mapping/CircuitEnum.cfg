SPECIFICATION Spec
CONSTANTS
  NQ = 3
  MaxOps = 3
  GateArities = {1, 2, 3}
  Barriers = TRUE
CHECK_DEADLOCK FALSE
