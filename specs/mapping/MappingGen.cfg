\* default configuration (the check uses generated variants); run with  -simulate num=N -seed S
SPECIFICATION GSpec
CONSTANTS
  NL = 3
  Sizes = {3, 4, 5}
  GraphMode = "mixed"
  MaxSwaps = 2
  MaxSteps = 9
  MinLen = 4
  GenFlavours = {"sabre", "pam"}
INVARIANTS PublishedAreTokens PiTracksTokens MappingsInjective MappingsInRange PlacementConnected TokensConserved AppliedMeans
CHECK_DEADLOCK FALSE
